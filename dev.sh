#!/bin/bash
# Development helper: builds the harness against a CLEAN scratch worktree of /repo's HEAD (default /tmp/devrepo) into a
# private root (default /tmp/devroot), so that checks can be run while /repo itself is busy or must stay untouched.
#   DEVREPO=/tmp/x DEVROOT=/tmp/y ./dev.sh [race] ; VERIF_ROOT=$DEVROOT $DEVROOT/bin/vrun check <ID> <tier>
export GOFLAGS=-mod=mod GOPROXY=off GOSUMDB=off GOTOOLCHAIN=local
DEVREPO=${DEVREPO:-/tmp/devrepo}; DEVROOT=${DEVROOT:-/tmp/devroot}
[ -d $DEVREPO ] || git -C /repo worktree add -q --detach $DEVREPO HEAD
mkdir -p $DEVROOT/bin $DEVROOT/work; ln -sf /verif/KNOWN_FINDINGS.txt $DEVROOT/KNOWN_FINDINGS.txt; ln -sfn /verif/findings $DEVROOT/findings
cd /verif/harness && sed "s|=> /repo|=> $DEVREPO|" go.mod > $DEVROOT/go.dev.mod && cp go.sum $DEVROOT/go.dev.sum && \
go build -modfile=$DEVROOT/go.dev.mod -tags verif -o $DEVROOT/bin/vrun . && { [ "${1:-}" = race ] && go build -modfile=$DEVROOT/go.dev.mod -race -tags verif -o $DEVROOT/bin/vrun-race . || true; }
