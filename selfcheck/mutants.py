#!/usr/bin/env python3
"""Self-validation: realistic single-site mutants of /repo, each expected to be caught by the quick tier of the
named check(s). Usage: python3 selfcheck/mutants.py [ID-filter]   (writes selfcheck/RESULTS.md)
Works on a private scratch worktree (/tmp/mutrepo) and a private harness build (/tmp/mutroot): /repo is never touched."""
import subprocess, sys, os, re, time

M = [
 # (check ids, file, old, new, description)
 ("C01", "parser_expression.go", 'divisor := f2.Integer()\n\t\t\tif divisor == 0 {\n\t\t\t\treturn nil, ctx.Error("integer divide by zero", expr.factor2.GetPositionToken())\n\t\t\t}\n\t\t\treturn AsValue(f1.Integer() / divisor), nil', 'divisor := f2.Integer()\n\t\t\treturn AsValue(f1.Integer() / divisor), nil', "remove the integer zero-divisor guard of /"),
 ("C01 C08", "variable.go", "if part.i >= 0 && current.Len() > part.i {", "if current.Len() > part.i {", "drop the lower bound of the index step (only reachable through negative subscripts: parser yields no negative .N)"),
 ("C01 C13", "tags_macro.go", "	if ctx.macroDepth > maxMacroDepth {", "	if false {", "remove the macro depth check"),
 ("C01 C18", "filters_builtin.go", "	if i <= 0 || i > l {\n		return in, nil\n	}", "	if i <= 0 {\n		return in, nil\n	}", "get_digit without the upper guard"),
 ("C01", "lexer.go", "		if l.next() == eofRune {\n			break\n		}", "		if l.next() == eofRune && l.pos > len(l.input) {\n			break\n		}", "lexer main loop never terminates (hang)"),
 ("C01", "template.go", "	if nesting > maxTemplateNesting {", "	if false {", "remove the execution nesting bound (lazy include cycles)"),
 ("C02 C17", "filters_builtin.go", '	output = strings.Replace(output, "\'", "&#39;", -1)\n', "", "escape forgets the single quote"),
 ("C02", "filters_builtin.go", "	return AsValue(strings.ToLower(in.String())), nil", "	return AsSafeValue(strings.ToLower(in.String())), nil", "lower returns a safe value"),
 ("C02", "tags_set.go", "	ctx.Private[node.name] = value", "	ctx.Private[node.name] = AsSafeValue(value.Interface())", "set marks its value safe"),
 ("C02", "tags_firstof.go", '			if ctx.Autoescape && !arg.FilterApplied("safe") {', "			if false {", "firstof skips escaping"),
 ("C02", "variable.go", "				isSafe = rv.Interface().(*Value).safe", "				isSafe = true", "function results of type *Value are always safe"),
 ("C02", "tags_cycle.go", '	if ctx.Autoescape && !item.FilterApplied("safe") && !val.safe && (val.IsString() || val.isStringer()) {', '	if ctx.Autoescape && !item.FilterApplied("safe") && !val.safe && val.IsString() && false {', "cycle stops escaping"),
 ("C03", "tags.go", "	if _, isBanned := p.template.set.bannedTags[tokenName.Val]; isBanned {", "	if _, isBanned := p.template.set.bannedTags[tokenName.Val]; isBanned && p.template.level < 1 {", "tag ban only checked at the top level"),
 ("C03", "variable.go", "		if _, isBanned := p.template.set.bannedFilters[filter.name]; isBanned {", "		if _, isBanned := p.template.set.bannedFilters[filter.name]; isBanned && len(v.filterChain) == 0 {", "only the first filter of a chain is checked"),
 ("C03", "template_sets.go", '	if atomic.LoadInt32(&set.firstTemplateCreated) != 0 {\n		return errors.New("you cannot ban any filters', '	if false {\n		return errors.New("you cannot ban any filters', "BanFilter silently succeeds after the first template"),
 ("C03", "tags_include.go", "		includedTpl, err2 := ctx.template.set.FromFile(includedFilename)", "		includedTpl, err2 := NewSet(\"lazy\", ctx.template.set.loaders...).FromFile(includedFilename)", "lazily included files are compiled through a fresh set"),
 ("C03", "tags_filter.go", "		if _, isBanned := doc.template.set.bannedFilters[filterCall.name]; isBanned {", "		if false {", "filter tag ignores bans"),
 ("C04 C05", "tags_for.go", "	obj.IterateOrder(func(idx, count int, key, value *Value) bool {\n", "	obj.IterateOrder(func(idx, count int, key, value *Value) bool {\n		node.lastCount = count\n", None),
 ("C04 C05", "tags_set.go", "	ctx.Private[node.name] = value\n	return nil", "	if node.cached == nil {\n		node.cached = value\n	}\n	ctx.Private[node.name] = node.cached\n	return nil", "set memoises its value in the node"),
 ("C04 C05", "tags_autoescape.go", "	old := ctx.Autoescape\n	ctx.Autoescape = node.autoescape\n", "	old := ctx.Autoescape\n	ctx.Autoescape = node.autoescape\n	node.autoescape = !node.autoescape\n	defer func() { node.autoescape = !node.autoescape }()\n", None),
 ("C04 C15", "nodes_html.go", "			res = res[1:]\n", "			res = res[1:]\n			n.token.Val = res\n", "TrimBlocks writes the trimmed text back into the shared token"),
 ("C05 C20", "template_sets.go", "	set.templateCacheMutex.Lock()\n	defer set.templateCacheMutex.Unlock()\n\n	tpl, has := set.templateCache[cleanedFilename]", "	tpl, has := set.templateCache[cleanedFilename]", "FromCache without the mutex"),
 ("C05 C12", "context.go", "	newctx.Private.Update(parent.Private)\n", "	newctx.Private = parent.Private\n", "child execution contexts share the parent's Private map"),
 ("C05", "tags_spaceless.go", "	b := bytes.NewBuffer(make([]byte, 0, 1024)) // 1 KiB\n", "	b := spacelessScratch\n	b.Reset()\n", "spaceless reuses one package-level buffer"),
 ("C06", "lexer.go", '			if strings.HasPrefix(l.input[l.pos:], "{#") {', '			if strings.HasPrefix(l.input[l.pos:], "{#") || strings.HasPrefix(l.input[l.pos:], "{ #") {', "'{ #' starts a comment"),
 ("C06", "tags_templatetag.go", '	"closevariable": "}}",', '	"closevariable": "}",', "templatetag closevariable emits one brace"),
 ("C06", "tags_comment.go", '	err := doc.SkipUntilTag("endcomment")', '	_, _, err := doc.WrapUntilTag("endcomment")', "comment bodies are parsed"),
 ("C06 C16", "lexer.go", '				if l.pos > l.start {\n					l.emit(TokenHTML)\n				}\n				w := len("{% endverbatim %}")', '				if l.pos > l.start+1 {\n					l.pos--\n					l.emit(TokenHTML)\n					l.pos++\n				}\n				w := len("{% endverbatim %}")', "verbatim bodies lose their last byte"),
 ("C07", "parser_expression.go", '	for p.PeekOne(TokenSymbol, "*", "/", "%") != nil {', '	for p.PeekOne(TokenSymbol, "*", "/", "%", "+") != nil && false || p.PeekOne(TokenSymbol, "*", "/") != nil {', "% is no longer parsed at the term level"),
 ("C07", "parser_expression.go", '		case "<=":\n			if v1.IsFloat() || v2.IsFloat() {\n				return AsValue(v1.Float() <= v2.Float()), nil', '		case "<=":\n			if v1.IsFloat() || v2.IsFloat() {\n				return AsValue(v1.Float() < v2.Float()), nil', "<= on floats implemented as <"),
 ("C07", "parser_expression.go", '			if v1.IsTrue() {\n				return AsValue(true), nil\n			} else {', '			if v1.IsTrue() && false {\n				return AsValue(true), nil\n			} else {', "or evaluates its right side although the left is true (and returns its truth)"),
 ("C07", "parser_expression.go", '			return AsValue(f1.Integer() % divisor), nil', '			return AsValue(f1.Integer() % (divisor * divisor / divisor)), nil', None),
 ("C07", "lexer.go", '		"==", ">=", "<=", "&&", "||", "{{", "}}", "{%", "%}", "!=", "<>",', '		"==", ">=", "&&", "||", "{{", "}}", "{%", "%}", "!=", "<>",', "<= is lexed as < and ="),
 ("C07", "value.go", '		return fmt.Sprintf("%f", v.getResolvedValue().Float())', '		return strconv.FormatFloat(v.getResolvedValue().Float(), \'f\', -1, 64)', "floats are printed with minimal digits"),
 ("C08 C12", "variable.go", "			val, inPrivate := ctx.Private[vr.parts[0].s]\n			if !inPrivate {\n				// Nothing found? Then have a final lookup in the public context\n				val = ctx.Public[vr.parts[0].s]\n			}", "			val, inPublic := ctx.Public[vr.parts[0].s]\n			if !inPublic {\n				val = ctx.Private[vr.parts[0].s]\n			}", "context keys shadow tag-bound names"),
 ("C08", "variable.go", "						if part.i >= 0 && current.Len() > part.i {", "						if part.i >= 0 && current.Len() > part.i+1 {", "off-by-one in the numeric index bound"),
 ("C08", "variable.go", "			for idx, arg := range currArgs {\n				pv, err := arg.Evaluate(ctx)", "			for idx := range currArgs {\n				arg := currArgs[len(currArgs)-1-idx]\n				pv, err := arg.Evaluate(ctx)", "arguments are passed in reverse order"),
 ("C08", "variable.go", "					if err != nil {\n						return nil, err\n					}\n				}\n			}\n\n			if rv.Type() != typeOfValuePtr {", "					if err != nil {\n						return AsValue(err.Error()), nil\n					}\n				}\n			}\n\n			if rv.Type() != typeOfValuePtr {", "a failing (T, error) function yields its error text as value"),
 ("C09", "tags_for.go", "		if idx == 1 {\n			loopInfo.First = false", "		if idx == 2 {\n			loopInfo.First = false", "forloop.First stays true one iteration too long"),
 ("C09", "tags_for.go", "		loopInfo.Revcounter = count - idx ", "		loopInfo.Revcounter = count - idx - 1 ", "Revcounter off by one"),
 ("C09", "value.go", "		if len(items) > 0 {\n			for idx, item := range items {", "		if len(items) > 1 {\n			for idx, item := range items {", "one-element lists run the empty branch"),
 ("C09", "tags_if.go", "		if result.IsTrue() {\n			return node.wrappers[i].Execute(ctx, writer)\n		}", "		if result.IsTrue() {\n			if err := node.wrappers[i].Execute(ctx, writer); err != nil {\n				return err\n			}\n			if i > 0 {\n				return nil\n			}\n			continue\n		}", "an elif arm can run after the if arm"),
 ("C09", "tags_ifnotequal.go", "	result := !r1.EqualValueTo(r2)", "	result := r1.EqualValueTo(r2)", "ifnotequal is not negated"),
 ("C09", "tags_ifchanged.go", "		state.lastValues = nowValues\n", "		if changed {\n			state.lastValues = nowValues\n		}\n", None),
 ("C10", "tags_block.go", "	blockWrapper := blockWrappers[lenBlockWrappers-1]\n	enclosingBlock", "	blockWrapper := blockWrappers[0]\n	enclosingBlock", "the first (least derived) definition wins"),
 ("C10", "tags_block.go", "		wrappers: t.wrappers[0 : lenWrappers-1],\n	}\n\n	blockWrapper := t.wrappers[lenWrappers-1]", "		wrappers: t.wrappers[0 : lenWrappers-1],\n	}\n\n	blockWrapper := t.wrappers[0]", "Super jumps to the base definition"),
 ("C10", "tags_extends.go", "	if doc.template.parent != nil {", "	if false {", "a second extends is accepted"),
 ("C10", "tags_block.go", "	if !hasBlock {\n		tpl.blocks[nameToken.Val] = wrapper\n	} else {", "	if true {\n		tpl.blocks[nameToken.Val] = wrapper\n	} else {", "duplicate block names are accepted"),
 ("C11", "template_sets.go", "	for _, loader = range set.loaders {\n		name = set.resolveFilenameForLoader(loader, tpl, path)", "	for i := len(set.loaders) - 1; i >= 0; i-- {\n		loader = set.loaders[i]\n		name = set.resolveFilenameForLoader(loader, tpl, path)", "loaders are asked in reverse order"),
 ("C11 C12", "tags_include.go", "	if !node.only {", "	if true {", "include ignores only"),
 ("C11", "tags_include.go", "		includedFilename := ctx.template.set.resolveFilename(node.definedIn, filename.String())", "		includedFilename := ctx.template.set.resolveFilename(ctx.template, filename.String())", "lazy includes resolve against the executing root template"),
 ("C11", "tags_include.go", "		includedTpl, err := doc.template.set.fromFileNested(doc.template, includedFilename)\n", "		doc.template.set.fromFileNested(doc.template, includedFilename)\n		includedTpl, err := doc.template.set.fromFileNested(doc.template, includedFilename)\n", "static includes fetch their target twice"),
 ("C11", "tags_ssi.go", "			if err == nil {\n				buf, err = io.ReadAll(fd)\n			}", "			if err == nil {\n				buf, err = io.ReadAll(fd)\n			} else if b2, e2 := os.ReadFile(doc.template.set.resolveFilename(doc.template, fileToken.Val)); e2 == nil {\n				buf, err = b2, nil\n			}", None),
 ("C12", "tags_for.go", "		forCtx.Private[node.key] = key\n", "		forCtx.Private[node.key] = key\n		ctx.Private[node.key] = key\n", "for writes its loop variable into the enclosing scope"),
 ("C12", "tags_set.go", "	ctx.Private[node.name] = value", "	ctx.Public[node.name] = value", "set writes into the public context"),
 ("C12", "template.go", "	newContext := make(Context)\n	newContext.Update(tpl.set.Globals)\n\n	if context != nil {\n		newContext.Update(context)\n", "	newContext := make(Context)\n	newContext.Update(tpl.set.Globals)\n\n	if context != nil {\n		if len(tpl.set.Globals) == 0 {\n			newContext = context\n		}\n		newContext.Update(context)\n", "the caller's map is used directly when there are no globals"),
 ("C12", "context.go", 'var reIdentifiers = regexp.MustCompile("^[a-zA-Z0-9_]+$")', 'var reIdentifiers = regexp.MustCompile("[a-zA-Z0-9_]+")', "identifier regexp without anchors"),
 ("C13", "tags_macro.go", "		macroCtx.Private[node.argsOrder[idx]] = argValue.Interface()", "		macroCtx.Private[node.argsOrder[len(args)-1-idx]] = argValue.Interface()", "arguments are bound from the right"),
 ("C13", "tags_macro.go", "	macroCtx.Private.Update(argsCtx)\n\n	for idx, argValue := range args {\n		macroCtx.Private[node.argsOrder[idx]] = argValue.Interface()\n	}", "	for idx, argValue := range args {\n		macroCtx.Private[node.argsOrder[idx]] = argValue.Interface()\n	}\n	macroCtx.Private.Update(argsCtx)\n", "defaults override supplied arguments"),
 ("C13", "tags_macro.go", "	if len(args) > len(node.argsOrder) {", "	if len(args) > len(node.argsOrder)+1 {", None),
 ("C13", "tags_import.go", "		importNode.macros[asName] = macroInstance", "		importNode.macros[macroNameToken.Val] = macroInstance", "import ignores the alias"),
 ("C13", "tags_macro.go", "	defer func() {\n		ctx.macroDepth--\n	}()", "	defer func() {\n	}()", "the depth counter is never decremented"),
 ("C14", "template.go", "func (tpl *Template) ExecuteWriter(context Context, writer io.Writer) error {\n	buf, err := tpl.newBufferAndExecute(context)", "func (tpl *Template) ExecuteWriter(context Context, writer io.Writer) error {\n	return tpl.newTemplateWriterAndExecute(context, writer)\n	buf, err := tpl.newBufferAndExecute(context)", "ExecuteWriter streams directly"),
 ("C14", "template.go", "	_, err = buf.WriteTo(writer)\n	if err != nil {\n		return err\n	}\n	return nil\n}\n\n// Same as ExecuteWriter.", "	buf.WriteTo(writer)\n	return nil\n}\n\n// Same as ExecuteWriter.", "ExecuteWriter swallows the writer's error"),
 ("C14", "template.go", "	if err := tpl.executeWithNesting(context, buffer, outer.nesting+1); err != nil {\n		return err\n	}\n	_, err := buffer.WriteTo(writer)", "	err0 := tpl.executeWithNesting(context, buffer, outer.nesting+1)\n	if _, werr := buffer.WriteTo(writer); err0 == nil {\n		err0 = werr\n	}\n	if err0 != nil {\n		return err0\n	}\n	var err error", None),
 ("C15", "nodes_html.go", "		res = strings.TrimLeft(res, tokenSpaceChars)", '		res = strings.TrimLeft(res, " ")', "-}} / -%} trim only spaces"),
 ("C15", "parser_document.go", "		n.trimLeft = left != nil && left.TrimWhitespaces\n		n.trimRight = right != nil && right.TrimWhitespaces", "		n.trimRight = left != nil && left.TrimWhitespaces\n		n.trimLeft = right != nil && right.TrimWhitespaces", "markers trim the wrong side"),
 ("C15", "nodes_html.go", "			res = res[1:]\n", '			res = strings.TrimLeft(res, "\\n")\n', "TrimBlocks removes all leading newlines"),
 ("C15", "nodes_html.go", '			res = strings.TrimRight(res, "\\t ")', '			res = strings.TrimRight(res, "\\t \\n")', "LStripBlocks also strips newlines"),
 ("C15", "parser_document.go", '		n.afterBlockTag = left != nil && left.Val == "%}"', '		n.afterBlockTag = left != nil && (left.Val == "%}" || left.Val == "}}")', "TrimBlocks is also applied after }}"),
 ("C16", "lexer.go", "	l.startcol-- // we're starting the position at the first \"\n", "", "string tokens start one column late"),
 ("C16", "lexer.go", "		case '\\n':\n			l.line++\n			l.col = 0\n", "		case '\\n':\n			l.line++\n", "the column is not reset at a newline"),
 ("C16", "parser.go", "	if token == nil {\n		// Set current token\n		token = p.Current()", "	if token == nil {\n		// Set current token\n		token = p.Get(p.idx + 1)", None),
 ("C16", "context.go", "		line = token.Line\n		col = token.Col", "		line = token.Line\n		col = token.Col + 1", "execution errors are one column off"),
 ("C17", "filters_builtin.go", '	output := strings.Replace(in.String(), "&", "&amp;", -1)\n	output = strings.Replace(output, ">", "&gt;", -1)', '	output := strings.Replace(in.String(), ">", "&gt;", -1)\n	output = strings.Replace(output, "&", "&amp;", -1)', "& is replaced after > (double handling)"),
 ("C17", "filters_builtin.go", "		if (c >= 'a' && c <= 'z') || (c >= 'A' && c <= 'Z') || c == ' ' || c == '/' {", "		if (c >= 'a' && c <= 'z') || (c >= 'A' && c <= 'Z') || c == ' ' || c == '/' || c == '-' {", "escapejs passes '-'"),
 ("C17", "filters_builtin.go", '	output := strings.Replace(in.String(), "\\\\", "\\\\\\\\", -1)', '	output := strings.Replace(in.String(), "\\\\", "\\\\\\\\", 1)', "addslashes doubles only the first backslash"),
 ("C17", "filters_builtin.go", '		re, err := regexp.Compile(fmt.Sprintf("</?%s/?>", tag))', '		re, err := regexp.Compile(fmt.Sprintf("</?%s[a-z]*/?>", tag))', "removetags also removes tags with the name as prefix"),
 ("C17", "filters_builtin.go", "	return in, nil // nothing to do here, just to keep track of the safe application", "	return AsValue(in.String()), nil // nothing to do here", None),
 ("C18", "filters_builtin.go", "		from = max(in.Len()+from, 0)", "		from = max(in.Len()+from-1, 0)", "slice negative-index normalisation off by one"),
 ("C18", "filters_builtin.go", "	width := param.Integer()\n	slen := in.Len()", "	width := param.Integer()\n	slen := len(in.String())", "center counts bytes"),
 ("C18", "filters_builtin.go", "	runes := []rune(s)\n	if newLen < len(runes) {", "	runes := []byte(s)\n	if newLen < len(runes) {", "truncatechars counts bytes"),
 ("C18", "filters_builtin.go", "	times := param.Integer() - in.Len()", "	times := param.Integer() - len(in.String())", "ljust counts bytes"),
 ("C18", "value.go", "	case reflect.String:\n		runes := []rune(v.getResolvedValue().String())\n		return len(runes)", "	case reflect.String:\n		return len(v.getResolvedValue().String())", "length of strings in bytes"),
 ("C18", "filters_builtin.go", "	if decimals <= 0 {\n		decimals = -decimals\n		trim = true\n	}", "	if decimals <= 0 {\n		decimals = -decimals\n	}", "floatformat with a negative argument no longer trims"),
 ("C18", "tags_widthratio.go", "math.Round(", "math.Floor(", "widthratio floors"),
 ("C19", "tags_filter.go", "	for _, call := range node.filterChain {", "	for i := len(node.filterChain) - 1; i >= 0; i-- {\n		call := node.filterChain[i]", "filter tag applies its chain right to left"),
 ("C19", "variable.go", "	for _, filter := range v.filterChain {\n		value, err = filter.Execute(value, ctx)", "	orig := value\n	for _, filter := range v.filterChain {\n		value, err = filter.Execute(orig, ctx)", "every filter of a chain sees the original value"),
 ("C19", "filters.go", "	if FilterExists(name) {\n		return fmt.Errorf(\"filter with name '%s' is already registered\", name)\n	}", "", "RegisterFilter overwrites"),
 ("C20", "template_sets.go", "	for _, filename := range filenames {\n		delete(set.templateCache, set.resolveFilename(nil, filename))", "	for _, filename := range filenames {\n		delete(set.templateCache, filename)", "CleanCache(n) deletes the unresolved name"),
 ("C20", "template_sets.go", "		tpl, err := set.FromFile(cleanedFilename)\n		if err != nil {\n			return nil, err\n		}\n		set.templateCache[cleanedFilename] = tpl", "		tpl, err := set.FromFile(cleanedFilename)\n		set.templateCache[cleanedFilename] = tpl\n		if err != nil {\n			return nil, err\n		}", "failed loads are cached"),
 ("C20", "template_sets.go", "		templateCache: make(map[string]*Template),\n		Options:       newOptions(),", "		templateCache: sharedTemplateCache,\n		Options:       newOptions(),", "one package-level cache shared by all sets"),
]

EXTRA_DECLS = {
 "tags_for.go": ("type tagForNode struct {\n", "type tagForNode struct {\n\tlastCount int\n"),
 "tags_set.go": ("type tagSetNode struct {\n", "type tagSetNode struct {\n\tcached *Value\n"),
 "tags_spaceless.go": ("var tagSpacelessRegexp", "var spacelessScratch = bytes.NewBuffer(nil)\n\nvar tagSpacelessRegexp"),
 "template_sets.go": ("// NewSet can be used", "var sharedTemplateCache = make(map[string]*Template)\n\n// NewSet can be used"),
 "tags_ssi.go": ('import "io"', 'import (\n\t"io"\n\t"os"\n)'),
}

def sh(cmd, **kw):
    return subprocess.run(cmd, shell=True, capture_output=True, text=True, errors='replace', **kw)

def main():
    filt = sys.argv[1] if len(sys.argv) > 1 else ""
    sh("git -C /repo worktree remove --force /tmp/mutrepo; git -C /repo worktree prune; git -C /repo worktree add -q --detach /tmp/mutrepo HEAD")
    rows = []
    for n, (ids, f, old, new, desc) in enumerate(M):
        if filt.startswith("#"):
            if str(n) not in filt[1:].split(","):
                continue
        elif filt and filt not in ids:
            continue
        path = "/tmp/mutrepo/" + f
        src = open(path).read()
        if old not in src:
            rows.append((n, ids, f, desc, "MUTATION DOES NOT APPLY", ""))
            continue
        mutated = src.replace(old, new, 1)
        needs_decl = f in EXTRA_DECLS and any(k in new for k in ("lastCount", "node.cached", "spacelessScratch", "sharedTemplateCache", "os.ReadFile"))
        if needs_decl:
            a, b = EXTRA_DECLS[f]
            assert a in mutated, (f, a)
            mutated = mutated.replace(a, b, 1)
        open(path, "w").write(mutated)
        try:
            b = sh("cd /tmp/mutrepo && go build ./... 2>&1", env=dict(os.environ, GOFLAGS="-mod=mod", GOPROXY="off", GOSUMDB="off", GOTOOLCHAIN="local"))
            if b.returncode != 0:
                rows.append((n, ids, f, desc, "DOES NOT BUILD", b.stdout[-300:]))
                continue
            t = sh("cd /tmp/mutrepo && go test -vet=off -count=1 -timeout 120s ./... 2>&1 | tail -1", env=dict(os.environ, GOFLAGS="-mod=mod", GOPROXY="off", GOSUMDB="off", GOTOOLCHAIN="local"))
            suite = "suite passes" if t.stdout.startswith("ok") else "SUITE FAILS"
            verdicts = []
            for cid in ids.split():
                race = "race" if cid in ("C05", "C20") else ""
                sh("DEVREPO=/tmp/mutrepo DEVROOT=/tmp/mutroot /verif/dev.sh %s" % race)
                r = sh("VERIF_ROOT=/tmp/mutroot /tmp/mutroot/bin/vrun check %s quick" % cid)
                kind = re.search(r"kind=(\S+)", r.stdout)
                verdicts.append("%s:exit%d%s" % (cid, r.returncode, (" " + kind.group(1)) if kind else ""))
            rows.append((n, ids, f, desc, suite, " ".join(verdicts)))
        finally:
            sh("git -C /tmp/mutrepo checkout -- . && git -C /tmp/mutrepo clean -fdq")
        print(rows[-1], flush=True)
    with open("/verif/selfcheck/RESULTS.md", "a" if filt else "w") as out:
        out.write("# Self-validation with single-site mutants (%s)\n\n" % time.strftime("%Y-%m-%d %H:%M"))
        out.write("Each mutant is applied to /repo, built, run against the repository's own suite and against the quick tier of the named check(s), then reverted. exit1 = caught (VIOLATION), exit0 = missed, exit2 = inconclusive.\n\n")
        out.write("| # | checks | file | mutant | existing suite | verdicts |\n|---|---|---|---|---|---|\n")
        for n, ids, f, desc, suite, v in rows:
            out.write("| %d | %s | %s | %s | %s | %s |\n" % (n, ids, f, (desc or "(see mutants.py)"), suite, v))
    missed = [r for r in rows if "exit0" in r[5]]
    print("mutants:", len(rows), "with a miss:", len(missed))
    for r in missed:
        print("MISS", r)

main()
