#!/bin/bash
# confirm_seed.sh <Cxx> <a|b> : confirms a sub-agent's seeded change in its scratch worktree, then files it under /verif/seeded/
# (1) unchanged tree + demo passes (2) changed tree passes the suite without the demo (3) changed tree + demo fails
export GOFLAGS=-mod=mod GOPROXY=off GOSUMDB=off GOTOOLCHAIN=local
id=$1; v=$2; R=${ROUND:-}; src=/tmp/mut${R}-out/$id/$v; wt=/tmp/mut${R}-$id
[ -f $src/patch.diff ] || { echo "no patch"; exit 9; }
cd $wt && git checkout -q -- . && git clean -fdq
RACE=""; grep -qi "\-race" $src/notes.md $src/demo_test.go 2>/dev/null && RACE="-race"
cp $src/demo_test.go $wt/zz_seeded_demo_test.go
go test $RACE -vet=off -count=1 -run 'TestSeeded' . >/tmp/cs1.log 2>&1; r1=$?
rm -f $wt/zz_seeded_demo_test.go
git apply $src/patch.diff || { echo "patch does not apply"; exit 9; }
go test -vet=off -count=1 ./... >/tmp/cs2.log 2>&1; r2=$?
cp $src/demo_test.go $wt/zz_seeded_demo_test.go
r3=0
for i in 1 2 3; do go test $RACE -vet=off -count=1 -run 'TestSeeded' . >/tmp/cs3.log 2>&1; r3=$?; [ $r3 -ne 0 ] && break; done
rm -f $wt/zz_seeded_demo_test.go; git checkout -q -- . ; git clean -fdq
echo "$id/$v: demo-on-clean=$r1 (want 0) suite-with-change=$r2 (want 0) demo-with-change=$r3 (want !=0) race=$RACE"
if [ $r1 -eq 0 ] && [ $r2 -eq 0 ] && [ $r3 -ne 0 ]; then
  d=/verif/seeded/$id-$v${R:+-r$R}; mkdir -p $d; cp $src/patch.diff $src/demo_test.go $d/; cp $src/notes.md $d/notes.md
  echo CONFIRMED
else
  echo "NOT CONFIRMED"; tail -5 /tmp/cs1.log /tmp/cs2.log /tmp/cs3.log
fi
