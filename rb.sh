#!/bin/bash
# rebuild the harness binaries against /repo's working tree (development helper)
export GOFLAGS=-mod=mod GOPROXY=off GOSUMDB=off GOTOOLCHAIN=local
cd /verif/harness && go build -tags verif -o /verif/bin/vrun . && { [ "${1:-}" = "race" ] && go build -race -tags verif -o /verif/bin/vrun-race . || true; }
