#!/bin/bash
# Builds the harness (and warms the Go build cache for the plain and the -race worker) offline.
set -e
cd "$(dirname "$(readlink -f "$0")")"; export VERIF_ROOT="$PWD"
export GOFLAGS=-mod=mod GOPROXY=off GOSUMDB=off GOTOOLCHAIN=local
mkdir -p bin work evidence replays
(cd harness && go build -tags verif -o ../bin/vrun . && go build -race -tags verif -o ../bin/vrun-race .)
echo setup ok
