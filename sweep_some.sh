#!/bin/bash
# usage: sweep_some.sh <tier> "<ids>" <seed>...  — like sweep.sh, for some checks only
cd "$(dirname "$0")"
tier=$1; ids=$2; shift 2
for seed in "$@"; do
  for id in $ids; do
    out=$(VERIF_SEED=$seed ./check.sh $id $tier 2>&1); rc=$?
    echo "seed=$seed $id rc=$rc $(echo "$out" | grep -E '^(HELD|VIOLATION|INCONCLUSIVE|KNOWN-FINDING)' | tr '\n' ' ' | cut -c1-260)"
  done
done
