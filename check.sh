#!/bin/bash
# ./check.sh <ID> <quick|thorough>   run the check of one property against /repo's current tree
# ./check.sh replay <path>           re-run a recorded violating case
# Exit 0 = held on everything explored, 1 = VIOLATION line printed, 2 = inconclusive.
set -u
cd "$(dirname "$(readlink -f "$0")")"; export VERIF_ROOT="$PWD"
export GOFLAGS=-mod=mod GOPROXY=off GOSUMDB=off GOTOOLCHAIN=local
export GOCACHE=${GOCACHE:-/root/.cache/go-build}
mkdir -p bin work evidence replays

build() { # $1 = output name, $2.. = extra flags ; rebuilds from /repo's working tree
  local out=$1; shift
  (
    flock 9
    cd harness && go build -tags verif "$@" -o ../bin/.$out.$$ . && mv -f ../bin/.$out.$$ ../bin/$out
  ) 9>work/.build-$out.lock
}

needs_race() { case "$1" in C05|C20) return 0;; *) return 1;; esac; }

if [ "${1:-}" = "replay" ]; then
  build vrun || { echo "INCONCLUSIVE reason=harness or /repo does not build"; exit 2; }
  id=$(basename "$2" | cut -d- -f1)
  if needs_race "$id"; then build vrun-race -race || exit 2; fi
  exec bin/vrun replay "$2"
fi

id=${1:?property id}
tier=${2:-${VERIF_TIER:-quick}}
if ! build vrun 2>work/build-$id.log; then
  cat work/build-$id.log
  echo "INCONCLUSIVE property=$id reason=harness or /repo does not build with -tags verif"
  exit 2
fi
if needs_race "$id"; then
  if ! build vrun-race -race 2>work/build-$id.log; then
    cat work/build-$id.log
    echo "INCONCLUSIVE property=$id reason=race build failed"
    exit 2
  fi
fi
exec bin/vrun check "$id" "$tier"
