#!/bin/bash
# seedtest.sh <seed-dir-name e.g. C07-a> <check ids...> : applies the seeded patch to /repo, runs the quick checks, reverts
s=$1; shift
cd /repo && [ -z "$(git status --short)" ] || { echo "/repo not clean"; exit 9; }
git apply /verif/seeded/$s/patch.diff 2>/dev/null || patch -p1 -F3 -s < /verif/seeded/$s/patch.diff || { echo "[$s] PATCH DOES NOT APPLY"; git checkout -q -- .; git clean -fdq; exit 9; }
cd /verif
for id in "$@"; do
  out=$(./check.sh $id ${TIER:-quick} 2>&1); rc=$?
  echo "[$s] $id exit=$rc: $(echo "$out" | grep -m2 -E 'VIOLATION|HELD|INCONCLUSIVE|kind=' | tr '\n' ' ' | cut -c1-400)"
done
cd /repo && git checkout -q -- . && git clean -fdq -e "*.orig" && rm -f *.orig *.rej && git status --short
