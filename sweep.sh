#!/bin/bash
# usage: sweep.sh <tier> <seed>...   — runs every registered check at the given seeds, prints one line per run
cd "$(dirname "$0")"
tier=$1; shift
for seed in "$@"; do
  for n in 01 02 03 04 05 06 07 08 09 10 11 12 13 14 15 16 17 18 19 20; do
    out=$(VERIF_SEED=$seed ./check.sh C$n $tier 2>&1); rc=$?
    echo "seed=$seed C$n rc=$rc $(echo "$out" | grep -E '^(HELD|VIOLATION|INCONCLUSIVE|KNOWN-FINDING)' | tr '\n' ' ' | cut -c1-260)"
  done
done
