#!/bin/bash
# Runs every seeded change against the quick check of its own property (and extra checks given per seed below);
# writes /verif/seeded/<seed>/caught.txt. /repo must be clean and no background job may be using it.
cd /verif
declare -A EXTRA=( [C05-b]="C16" [C08-a]="C04 C05" [C08-b]="C12" [C10-b]="C20" [C11-a]="C12" [C12-a]="C11" [C13-a]="C04" [C13-b]="C01" [C19-b]="C04 C05" [C04-a]="C05 C13" [C03-b]="C19" [C04-b]="C14" [C01-b]="C07")
for d in seeded/C*-[ab]; do
  s=$(basename $d); own=${s%-*}
  : > $d/caught.txt
  for id in $own ${EXTRA[$s]:-}; do
    out=$(./seedtest.sh $s $id 2>&1 | tail -1)
    echo "$out" | cut -c1-260 >> $d/caught.txt
  done
  echo "== $s"; cut -c1-160 $d/caught.txt
done
