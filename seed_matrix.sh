#!/bin/bash
# Runs every seeded change against the quick check of its own property (and extra checks given per seed below);
# writes /verif/seeded/<seed>/caught.txt. /repo must be clean and no background job may be using it.
cd /verif
declare -A EXTRA=( [C05-b]="C16" [C08-a]="C04 C05" [C08-b]="C12" [C10-b]="C20" [C11-a]="C12" [C12-a]="C11" [C13-a]="C04" [C13-b]="C01" [C19-b]="C04 C05" [C04-a]="C05 C13" [C03-b]="C19" [C04-b]="C14" [C01-b]="C07" [C01-a-r2]="C08" [C06-b-r2]="C04 C05 C14" [C05-b-r2]="C04" [C13-a-r2]="C12" [C14-b-r2]="C12" [C12-a-r2]="C13" [C08-a-r2]="C12" [C02-a-r2]="C04" [C07-b-r2]="C04" [C11-b-r2]="C03" [C03-a-r2]="C11" [C20-b-r2]="C05" [C13-b-r2]="C01" [C09-b-r2]="C04 C05" [C10-b-r2]="C04" [C09-b-r3]="C05" [C05-a-r3]="C04" [C05-b-r3]="C14" [C04-a-r3]="C14 C06" [C04-b-r3]="C08 C05" [C08-b-r3]="C04" [C06-a-r3]="C04 C14" [C14-a-r3]="C04 C06" [C12-a-r3]="C13 C08" [C13-a-r3]="C12 C08" [C08-a-r3]="C12 C13" [C17-a-r3]="C19" [C19-a-r3]="C17" [C18-b-r3]="C19" [C19-b-r3]="C18" [C10-a-r3]="C20 C04" [C20-a-r3]="C11" [C15-a-r3]="C06 C16" [C01-a-r3]="C11" [C01-b-r3]="C15" [C12-b-r3]="C08" [C11-b-r3]="C03" [C02-a-r3]="C08" [C04-b-r4]="C06 C14 C11" [C06-b-r4]="C04 C14" [C09-b-r4]="C04" [C19-b-r4]="C04 C14" [C14-b-r4]="C04 C19" [C13-b-r4]="C04" [C11-b-r4]="C04 C06" [C17-b-r4]="C14 C04" [C05-b-r4]="C04" [C12-b-r4]="C04 C11" [C01-b-r4]="C04 C08" [C07-b-r4]="C04" [C08-b-r4]="C04" [C15-b-r4]="C04" [C16-b-r4]="C04" [C18-b-r4]="C04" [C02-b-r4]="C04" [C03-b-r4]="C20" [C10-b-r4]="C20 C04" [C20-a-r4]="C03 C11" [C18-a-r4]="C07 C09" [C11-a-r4]="C12" [C13-a-r4]="C12 C08" [C08-a-r4]="C12" [C01-a-r4]="C07" [C02-a-r5]="C09" [C02-b-r5]="C07 C13" [C03-a-r5]="C07 C19" [C03-b-r5]="C11" [C04-a-r5]="C08" [C04-b-r5]="C02 C09" [C05-a-r5]="C04" [C05-b-r5]="C04 C14" [C06-a-r5]="C04" [C06-b-r5]="C15" [C07-a-r5]="C08 C16" [C08-b-r5]="C12" [C09-a-r5]="C04" [C09-b-r5]="C12" [C10-a-r5]="C02" [C10-b-r5]="C04" [C11-a-r5]="C20" [C11-b-r5]="C04" [C12-a-r5]="C11 C04" [C12-b-r5]="C02 C17" [C13-a-r5]="C01" [C13-b-r5]="C01 C11" [C14-a-r5]="C09 C04" [C14-b-r5]="C04 C05" [C15-a-r5]="C04" [C16-b-r5]="C04" [C17-a-r5]="C02 C09" [C17-b-r5]="C02" [C18-a-r5]="C12" [C18-b-r5]="C04 C19" [C19-a-r5]="C07" [C19-b-r5]="C13 C04" [C20-a-r5]="C04" [C20-b-r5]="C11")
for d in ${SEEDS:-seeded/C*-[ab] seeded/C*-[ab]-r2 seeded/C*-[ab]-r3 seeded/C*-[ab]-r4 seeded/C*-[ab]-r5}; do
  s=$(basename $d); own=${s%%-*}
  : > $d/caught.txt
  for id in $own ${EXTRA[$s]:-}; do
    out=$(./seedtest.sh $s $id 2>&1 | tail -1)
    echo "$out" | cut -c1-260 >> $d/caught.txt
  done
  echo "== $s"; cut -c1-160 $d/caught.txt
done
