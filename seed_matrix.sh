#!/bin/bash
# Runs every seeded change against the quick check of its own property (and extra checks given per seed below);
# writes /verif/seeded/<seed>/caught.txt. /repo must be clean and no background job may be using it.
cd /verif
declare -A EXTRA=( [C05-b]="C16" [C08-a]="C04 C05" [C08-b]="C12" [C10-b]="C20" [C11-a]="C12" [C12-a]="C11" [C13-a]="C04" [C13-b]="C01" [C19-b]="C04 C05" [C04-a]="C05 C13" [C03-b]="C19" [C04-b]="C14" [C01-b]="C07" [C01-a-r2]="C08" [C06-b-r2]="C04 C05 C14" [C05-b-r2]="C04" [C13-a-r2]="C12" [C14-b-r2]="C12" [C12-a-r2]="C13" [C08-a-r2]="C12" [C02-a-r2]="C04" [C07-b-r2]="C04" [C11-b-r2]="C03" [C03-a-r2]="C11" [C20-b-r2]="C05" [C13-b-r2]="C01" [C09-b-r2]="C04 C05" [C10-b-r2]="C04")
for d in ${SEEDS:-seeded/C*-[ab] seeded/C*-[ab]-r2}; do
  s=$(basename $d); own=${s%%-*}
  : > $d/caught.txt
  for id in $own ${EXTRA[$s]:-}; do
    out=$(./seedtest.sh $s $id 2>&1 | tail -1)
    echo "$out" | cut -c1-260 >> $d/caught.txt
  done
  echo "== $s"; cut -c1-160 $d/caught.txt
done
