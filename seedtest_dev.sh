#!/bin/bash
# like seedtest.sh, but applies the patch to the scratch worktree /tmp/devrepo and uses the dev build (/tmp/devroot),
# so that /repo itself stays untouched. Usage: ./seedtest_dev.sh <seed-dir-name> <check ids...>
s=$1; shift
export GOFLAGS=-mod=mod GOPROXY=off GOSUMDB=off GOTOOLCHAIN=local
git -C /tmp/devrepo checkout -q --detach $(git -C /repo rev-parse HEAD) 2>/dev/null
cd /tmp/devrepo && git checkout -q -- . && git clean -fdq
git apply /verif/seeded/$s/patch.diff 2>/dev/null || patch -p1 -F3 -s < /verif/seeded/$s/patch.diff || { echo "[$s] PATCH DOES NOT APPLY"; git checkout -q -- .; git clean -fdq; exit 9; }
rm -f *.orig
race=""; for id in "$@"; do case $id in C05|C20) race=race;; esac; done
/verif/dev.sh $race >/dev/null 2>&1 || { echo "[$s] DOES NOT BUILD"; git checkout -q -- .; exit 9; }
for id in "$@"; do
  out=$(VERIF_ROOT=/tmp/devroot /tmp/devroot/bin/vrun check $id ${TIER:-quick} 2>&1); rc=$?
  echo "[$s] $id exit=$rc: $(echo "$out" | grep -m2 -E 'VIOLATION|HELD|INCONCLUSIVE|kind=' | tr '\n' ' ' | cut -c1-330)"
done
cd /tmp/devrepo && git checkout -q -- . && git clean -fdq
