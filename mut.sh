#!/bin/bash
# usage: mut.sh <ID> <file> <sed-expr> [tier]   -- applies a sed mutation to /repo, runs the check, reverts
id=$1; f=$2; expr=$3; tier=${4:-quick}
cd /repo && sed -i "$expr" $f && git diff --stat | tail -1
if [ -z "$(git diff --stat)" ]; then echo "MUTATION DID NOT APPLY"; exit 9; fi
if ! go build ./... 2>/dev/null; then echo "MUTANT DOES NOT BUILD"; git checkout -- .; exit 9; fi
cd /verif && ./check.sh $id $tier | head -${LINES_MAX:-6}
cd /repo && git checkout -- . && git status --short
