#!/bin/bash
# Re-confirms every seeded change against the CURRENT /repo HEAD in a scratch worktree (removed afterwards).
export GOFLAGS=-mod=mod GOPROXY=off GOSUMDB=off GOTOOLCHAIN=local
wt=/tmp/reconfirm-wt
git -C /repo worktree remove --force $wt 2>/dev/null
git -C /repo worktree add -q --detach $wt HEAD || exit 9
cd $wt
for d in /verif/seeded/C*-[ab] /verif/seeded/C*-[ab]-r2; do
  s=$(basename $d)
  git checkout -q -- . ; git clean -fdq
  RACE=""; grep -qi "\-race" $d/notes.md $d/demo_test.go 2>/dev/null && RACE="-race"
  cp $d/demo_test.go zz_seeded_demo_test.go
  go test $RACE -vet=off -count=1 -run 'TestSeeded' . >/tmp/rc1.log 2>&1; r1=$?
  rm -f zz_seeded_demo_test.go
  if ! git apply $d/patch.diff 2>/dev/null; then
    if ! patch -p1 -F3 -s < $d/patch.diff >/dev/null 2>&1; then echo "$s: PATCH DOES NOT APPLY to current HEAD"; rm -f *.rej *.orig; continue; fi
  fi
  rm -f *.orig
  go test -vet=off -count=1 ./... >/tmp/rc2.log 2>&1; r2=$?
  cp $d/demo_test.go zz_seeded_demo_test.go
  r3=0; for i in 1 2 3; do go test $RACE -vet=off -count=1 -run 'TestSeeded' . >/tmp/rc3.log 2>&1; r3=$?; [ $r3 -ne 0 ] && break; done
  rm -f zz_seeded_demo_test.go
  st="VALID"; { [ $r1 -ne 0 ] || [ $r2 -ne 0 ] || [ $r3 -eq 0 ]; } && st="NOT-VALID-ON-CURRENT-HEAD"
  echo "$s: demo-on-clean=$r1 suite-with-change=$r2 demo-with-change=$r3 => $st"
  echo "$st demo-on-clean=$r1 suite-with-change=$r2 demo-with-change=$r3 (head $(git -C /repo log --format=%h -1))" > $d/reconfirm.txt
done
cd /; git -C /repo worktree remove --force $wt; git -C /repo worktree prune
