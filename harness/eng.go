package main

import (
	"bytes"
	"fmt"
	"io"
	"io/fs"
	"path"
	"strings"
	"sync"
	"testing/iotest"
	"time"

	"github.com/flosch/pongo2/v6"
)

// memLoader is an in-memory, recording template loader with POSIX path semantics.
type memLoader struct {
	mu    sync.Mutex
	files map[string]string
	gets  []string // every Get attempt
	hits  []string // successful Gets
	abs   [][2]string
	// optional hook called inside Get (delays, failures)
	onGet func(p string) error
}

func newMemLoader(files map[string]string) *memLoader {
	return &memLoader{files: files}
}

func (l *memLoader) Abs(base, name string) string {
	var r string
	if strings.HasPrefix(name, "/") {
		r = path.Clean(name)
	} else if base == "" {
		r = path.Clean("/" + name)
	} else {
		r = path.Join(path.Dir(base), name)
	}
	l.mu.Lock()
	l.abs = append(l.abs, [2]string{base, name})
	l.mu.Unlock()
	return r
}

func (l *memLoader) Get(p string) (io.Reader, error) {
	l.mu.Lock()
	l.gets = append(l.gets, p)
	hook := l.onGet
	l.mu.Unlock()
	if hook != nil {
		if err := hook(p); err != nil {
			return nil, err
		}
	}
	l.mu.Lock()
	defer l.mu.Unlock()
	s, ok := l.files[p]
	if !ok {
		return nil, fmt.Errorf("memLoader: %s not found", p)
	}
	l.hits = append(l.hits, p)
	return readerOfKind(s, int(hashStr(p+"\x00"+s)%16)), nil
}

// readerOfKind: the loaders of the harness hand their texts out through every legal kind of io.Reader (chosen by a
// hash of name and text, so reproducibly): fresh and PARTLY CONSUMED sized readers (a loader that skipped a BOM or a
// front-matter header before returning the reader), section readers, buffers, readers that deliver their last bytes
// together with io.EOF, one byte or half a request at a time.
func readerOfKind(s string, kind int) io.Reader {
	const header = "\xEF\xBB\xBF---\nheader: skipped by the loader\n---\n"
	switch kind {
	case 0:
		rd := strings.NewReader(header + s)
		rd.Seek(int64(len(header)), io.SeekStart)
		return rd
	case 1:
		rd := bytes.NewReader([]byte(header + s))
		io.CopyN(io.Discard, rd, int64(len(header)))
		return rd
	case 2:
		return io.NewSectionReader(strings.NewReader("junk"+s+"junk"), 4, int64(len(s)))
	case 3:
		return bytes.NewBufferString(s)
	case 4:
		return iotest.DataErrReader(strings.NewReader(s))
	case 5:
		return iotest.HalfReader(strings.NewReader(s))
	case 6:
		if len(s) < 1<<16 {
			return iotest.OneByteReader(strings.NewReader(s))
		}
	case 7:
		return bytes.NewReader([]byte(s))
	}
	return strings.NewReader(s)
}

func (l *memLoader) reset() {
	l.mu.Lock()
	l.gets, l.hits, l.abs = nil, nil, nil
	l.mu.Unlock()
}

func (l *memLoader) snapshotGets() (gets, hits []string) {
	l.mu.Lock()
	defer l.mu.Unlock()
	return append([]string(nil), l.gets...), append([]string(nil), l.hits...)
}

func newSet(files map[string]string) (*pongo2.TemplateSet, *memLoader) {
	l := newMemLoader(files)
	return pongo2.NewSet("verif", l), l
}

var emptySetFiles = map[string]string{}

// renderString compiles src in a fresh set and executes it once. Which creation function (FromString / FromBytes) and
// which of the four Execute entry points is used depends on a hash of the source, so that every check that goes through
// here spreads over all of them, reproducibly.
func renderString(src string, ctx pongo2.Context) (out string, cerr error, xerr error) {
	set, _ := newSet(emptySetFiles)
	h := hashStr(src)
	var tpl *pongo2.Template
	var err error
	if h&1 == 0 {
		tpl, err = set.FromString(src)
	} else {
		tpl, err = set.FromBytes([]byte(src))
	}
	if err != nil {
		return "", err, nil
	}
	switch (h >> 1) & 3 {
	case 0:
		out, err = tpl.Execute(ctx)
	case 1:
		var b []byte
		b, err = tpl.ExecuteBytes(ctx)
		out = string(b)
	case 2:
		var buf bytes.Buffer
		err = tpl.ExecuteWriter(ctx, &buf)
		out = buf.String()
	default:
		var buf bytes.Buffer
		err = tpl.ExecuteWriterUnbuffered(ctx, &buf)
		out = buf.String()
		if err != nil {
			out = "" // the unbuffered variant may have written a leading part; callers only look at the error then
		}
	}
	return out, nil, err
}

// enginePoison leaves behind everything a failed or broken-off execution can leave behind: executions that fail after
// having produced output inside every buffering construct (include, computed include, macro, filter tag, spaceless,
// block.Super, loops with cycle/ifchanged), through all four entry points, deliveries to writers that break or accept
// only a part, includes that find nothing, and filter errors with fixed messages at odd positions. Every worker does
// this before its first case and every 200 cases: state that survives in pools, caches or package-level variables of the
// engine then meets the cases of every check, not only of the checks that build such histories themselves.
var poisonTpls []*pongo2.Template

func enginePoison() {
	defer func() { recover() }() // a panic here belongs to C01's own workloads, not to every check
	if poisonTpls == nil {
		files := map[string]string{
			"/p_inc.tpl":    `head {% include "/p_bad.tpl" %} tail`,
			"/p_bad.tpl":    `POISON included text before the failure {{ pfail() }} after`,
			"/p_lazy.tpl":   `{% with pname="/p_bad.tpl" %}{% include pmissing if_exists with a="POISON-a" b="POISON-b" c="POISON-c" g="POISON-g" %}{% include pname %}{% endwith %}`,
			"/p_macro.tpl":  `{% macro pm(a) %}POISON macro text {{ a }}{{ pfail() }}{% endmacro %}x{{ pm(1) }}`,
			"/p_imp.tpl":    `{% import "/p_lib.tpl" plm %}{{ plm() }}`,
			"/p_lib.tpl":    `{% macro plm() export %}POISON imported macro {{ pfail() }}{% endmacro %}`,
			"/p_filter.tpl": `{% filter upper|lower|cut:"~" %}POISON filter body {{ pfail() }}{% endfilter %}`,
			"/p_misc.tpl":   `{% spaceless %}<a> POISON {{ pfail() }}</a>{% endspaceless %}{% autoescape off %}x{% endautoescape %}`,
			"/p_loop.tpl":   `{% for i in plist %}{% cycle "Pa" "Pb" as pc %}{% ifchanged %}{{ i }}{% endifchanged %}{% ifchanged i %}c{% endifchanged %}{% endfor %}{% widthratio 1 2 3 as pw %}{% set ps = "POISON" %}{{ pfail() }}`,
			"/p_base.tpl":   `base[{% block b %}b{% endblock %}]`,
			"/p_blk.tpl":    `{% extends "/p_base.tpl" %}{% block b %}POISON child {{ block.Super }}{{ pfail() }}{% endblock %}`,
			"/p_ferr.tpl":   "\n\n   {{ 1.5|floatformat:2000 }}",
			"/p_ferr2.tpl":  "\n {{ \"x\"|ljust:20000 }}",
			"/p_ferr3.tpl":  "\n\n\n      {{ 3|pluralize:\"a,b,c\" }}",
			"/p_ferr4.tpl":  "  {{ \"s\"|date:\"2006\" }}",
			"/p_ferr5.tpl":  "\n{{ \"abc\"|slice:\"x\" }}{{ \"x\"|center:20000 }}{{ \"x\"|rjust:20000 }}",
			"/p_ok.tpl":     `POISON page {% include "/p_okinc.tpl" %} end of a page that was never delivered completely`,
			"/p_okinc.tpl":  `POISON include body with a longer text, so that a writer which breaks in the middle leaves something over`,
		}
		set, _ := newSet(files)
		for name := range files {
			if t, err := set.FromFile(name); err == nil {
				poisonTpls = append(poisonTpls, t)
			}
		}
	}
	ctx := pongo2.Context{"plist": []int{1, 1, 2}, "pmissing": "/p_no_such_file.tpl", "pfail": func() (string, error) { return "", errPoison }}
	for i, t := range poisonTpls {
		t.Execute(ctx)
		t.ExecuteBytes(ctx)
		t.ExecuteWriter(ctx, &recWriter{failAt: 1, err: errPoison, short: i % 3})
		t.ExecuteWriterUnbuffered(ctx, &recWriter{failAt: 1 + i%3, err: errPoison, short: i % 4})
		t.ExecuteWriter(ctx, &recWriter{failAt: 1, err: errPoison, full: true})
	}
	// executions that are broken off by a panic which the caller recovers (net/http does that for its handlers):
	// a panicking context function after some output, and a writer that panics (http.ErrAbortHandler)
	pctx := pongo2.Context{"plist": []int{1, 1, 2}, "pmissing": "/p_no_such_file.tpl", "pfail": func() (string, error) { panic("poison: panic in a context function") }}
	for i, t := range poisonTpls {
		for ep := 0; ep < 5; ep++ {
			func() {
				defer func() { recover() }()
				switch ep {
				case 0:
					t.Execute(pctx)
				case 1:
					t.ExecuteBytes(pctx)
				case 2:
					t.ExecuteWriter(pctx, &bytes.Buffer{})
				case 3:
					t.ExecuteWriterUnbuffered(pctx, &bytes.Buffer{})
				default:
					if i%2 == 0 {
						t.ExecuteWriter(ctx, panicWriter{})
					} else {
						t.ExecuteWriterUnbuffered(ctx, panicWriter{})
					}
				}
			}()
		}
	}
	// last of all (nothing is rendered after it): deliveries of SUCCESSFUL renderings that the caller's writer breaks
	// off - taking nothing, a part, or everything together with an error. Whatever such a delivery leaves behind in a
	// pool or cache of the engine is still there when the next case starts.
	if poisonOK == nil {
		set, _ := newSet(map[string]string{"/p_ok.tpl": `POISON page {% include "/p_okinc.tpl" %} end of a page that was never delivered completely`,
			"/p_okinc.tpl": `POISON include body with a longer text, so that a writer which breaks in the middle leaves something over`})
		poisonOK, _ = set.FromFile("/p_ok.tpl")
	}
	if poisonOK != nil {
		for i := 0; i < 6; i++ {
			poisonOK.ExecuteWriter(ctx, &recWriter{failAt: 1, err: errPoison, short: []int{0, 3, 40, 0, 40, 3}[i], full: i == 2})
		}
	}
}

var poisonOK *pongo2.Template

type panicWriter struct{}

func (panicWriter) Write(p []byte) (int, error) { panic("poison: panic in the caller's writer") }

var errPoison = fmt.Errorf("poison: deliberate failure")

// execSpread executes through one of the four entry points, chosen by salt (results as Execute would give them: no
// output together with an error)
func execSpread(tpl *pongo2.Template, ctx pongo2.Context, salt uint64) (string, error) {
	out, err := c01Exec(tpl, ctx, int(salt%4))
	if err != nil {
		return "", err
	}
	return out, nil
}

func errStr(err error) string {
	if err == nil {
		return ""
	}
	return err.Error()
}

// recWriter records every Write call.
type recWriter struct {
	buf    bytes.Buffer
	writes []int
	failAt int // fail at the n-th Write call (1-based); 0 = never
	err    error
	short  int  // when failing: accept this many bytes first (short write)
	full   bool // when failing: accept ALL bytes of that call and return the error with the full count
}

func (w *recWriter) Write(p []byte) (int, error) {
	w.writes = append(w.writes, len(p))
	if w.failAt > 0 && len(w.writes) >= w.failAt {
		if w.full {
			w.buf.Write(p)
			return len(p), w.err
		}
		if w.short > 0 && len(p) > w.short {
			w.buf.Write(p[:w.short])
			return w.short, w.err
		}
		return 0, w.err
	}
	return w.buf.Write(p)
}

// chunkFS is an fs.FS whose files hand out at most `chunk` bytes per Read call (a legal io.Reader, like
// compressed archives or network file systems) and support Stat.
type chunkFS struct {
	files       map[string]string
	chunk       int
	eofWithData bool // the last bytes of a file are delivered together with io.EOF (legal for an io.Reader)
}

type chunkFile struct {
	name        string
	data        string
	off         int
	chunk       int
	eofWithData bool
}

type chunkInfo struct {
	name string
	size int64
}

func (i chunkInfo) Name() string       { return path.Base(i.name) }
func (i chunkInfo) Size() int64        { return i.size }
func (i chunkInfo) Mode() fs.FileMode  { return 0o444 }
func (i chunkInfo) ModTime() time.Time { return time.Time{} }
func (i chunkInfo) IsDir() bool        { return false }
func (i chunkInfo) Sys() any           { return nil }

func (f *chunkFile) Stat() (fs.FileInfo, error) { return chunkInfo{f.name, int64(len(f.data))}, nil }
func (f *chunkFile) Close() error               { return nil }
func (f *chunkFile) Read(p []byte) (int, error) {
	if f.off >= len(f.data) {
		return 0, io.EOF
	}
	n := len(p)
	if n > f.chunk {
		n = f.chunk
	}
	n = copy(p[:n], f.data[f.off:])
	f.off += n
	if f.eofWithData && f.off >= len(f.data) {
		return n, io.EOF
	}
	return n, nil
}

func (s *chunkFS) Open(name string) (fs.File, error) {
	txt, ok := s.files[name]
	if !ok {
		return nil, &fs.PathError{Op: "open", Path: name, Err: fs.ErrNotExist}
	}
	return &chunkFile{name: name, data: txt, chunk: s.chunk, eofWithData: s.eofWithData}, nil
}
