package main

import (
	"bytes"
	"fmt"
	"io"
	"io/fs"
	"path"
	"strings"
	"sync"
	"time"

	"github.com/flosch/pongo2/v6"
)

// memLoader is an in-memory, recording template loader with POSIX path semantics.
type memLoader struct {
	mu    sync.Mutex
	files map[string]string
	gets  []string // every Get attempt
	hits  []string // successful Gets
	abs   [][2]string
	// optional hook called inside Get (delays, failures)
	onGet func(p string) error
}

func newMemLoader(files map[string]string) *memLoader {
	return &memLoader{files: files}
}

func (l *memLoader) Abs(base, name string) string {
	var r string
	if strings.HasPrefix(name, "/") {
		r = path.Clean(name)
	} else if base == "" {
		r = path.Clean("/" + name)
	} else {
		r = path.Join(path.Dir(base), name)
	}
	l.mu.Lock()
	l.abs = append(l.abs, [2]string{base, name})
	l.mu.Unlock()
	return r
}

func (l *memLoader) Get(p string) (io.Reader, error) {
	l.mu.Lock()
	l.gets = append(l.gets, p)
	hook := l.onGet
	l.mu.Unlock()
	if hook != nil {
		if err := hook(p); err != nil {
			return nil, err
		}
	}
	l.mu.Lock()
	defer l.mu.Unlock()
	s, ok := l.files[p]
	if !ok {
		return nil, fmt.Errorf("memLoader: %s not found", p)
	}
	l.hits = append(l.hits, p)
	return strings.NewReader(s), nil
}

func (l *memLoader) reset() {
	l.mu.Lock()
	l.gets, l.hits, l.abs = nil, nil, nil
	l.mu.Unlock()
}

func (l *memLoader) snapshotGets() (gets, hits []string) {
	l.mu.Lock()
	defer l.mu.Unlock()
	return append([]string(nil), l.gets...), append([]string(nil), l.hits...)
}

func newSet(files map[string]string) (*pongo2.TemplateSet, *memLoader) {
	l := newMemLoader(files)
	return pongo2.NewSet("verif", l), l
}

var emptySetFiles = map[string]string{}

// renderString compiles src in a fresh set and executes it once.
func renderString(src string, ctx pongo2.Context) (out string, cerr error, xerr error) {
	set, _ := newSet(emptySetFiles)
	tpl, err := set.FromString(src)
	if err != nil {
		return "", err, nil
	}
	out, err = tpl.Execute(ctx)
	return out, nil, err
}

func errStr(err error) string {
	if err == nil {
		return ""
	}
	return err.Error()
}

// recWriter records every Write call.
type recWriter struct {
	buf    bytes.Buffer
	writes []int
	failAt int // fail at the n-th Write call (1-based); 0 = never
	err    error
	short  int  // when failing: accept this many bytes first (short write)
	full   bool // when failing: accept ALL bytes of that call and return the error with the full count
}

func (w *recWriter) Write(p []byte) (int, error) {
	w.writes = append(w.writes, len(p))
	if w.failAt > 0 && len(w.writes) >= w.failAt {
		if w.full {
			w.buf.Write(p)
			return len(p), w.err
		}
		if w.short > 0 && len(p) > w.short {
			w.buf.Write(p[:w.short])
			return w.short, w.err
		}
		return 0, w.err
	}
	return w.buf.Write(p)
}

// chunkFS is an fs.FS whose files hand out at most `chunk` bytes per Read call (a legal io.Reader, like
// compressed archives or network file systems) and support Stat.
type chunkFS struct {
	files       map[string]string
	chunk       int
	eofWithData bool // the last bytes of a file are delivered together with io.EOF (legal for an io.Reader)
}

type chunkFile struct {
	name        string
	data        string
	off         int
	chunk       int
	eofWithData bool
}

type chunkInfo struct {
	name string
	size int64
}

func (i chunkInfo) Name() string       { return path.Base(i.name) }
func (i chunkInfo) Size() int64        { return i.size }
func (i chunkInfo) Mode() fs.FileMode  { return 0o444 }
func (i chunkInfo) ModTime() time.Time { return time.Time{} }
func (i chunkInfo) IsDir() bool        { return false }
func (i chunkInfo) Sys() any           { return nil }

func (f *chunkFile) Stat() (fs.FileInfo, error) { return chunkInfo{f.name, int64(len(f.data))}, nil }
func (f *chunkFile) Close() error               { return nil }
func (f *chunkFile) Read(p []byte) (int, error) {
	if f.off >= len(f.data) {
		return 0, io.EOF
	}
	n := len(p)
	if n > f.chunk {
		n = f.chunk
	}
	n = copy(p[:n], f.data[f.off:])
	f.off += n
	if f.eofWithData && f.off >= len(f.data) {
		return n, io.EOF
	}
	return n, nil
}

func (s *chunkFS) Open(name string) (fs.File, error) {
	txt, ok := s.files[name]
	if !ok {
		return nil, &fs.PathError{Op: "open", Path: name, Err: fs.ErrNotExist}
	}
	return &chunkFile{name: name, data: txt, chunk: s.chunk, eofWithData: s.eofWithData}, nil
}
