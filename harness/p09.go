package main

import (
	"bytes"
	"errors"
	"fmt"
	"sort"
	"strconv"
	"strings"

	"github.com/flosch/pongo2/v6"
)

// C09 - branching and looping tags follow their reference semantics.
// A generated tree is printed to template source and interpreted by an independent reference interpreter.

// ---- reference values -----------------------------------------------------------

type rv struct {
	kind string // nil int str bool list map
	i    int
	s    string
	b    bool
	l    []rv
	m    map[string]rv
}

func rInt(i int) rv     { return rv{kind: "int", i: i} }
func rStr(s string) rv  { return rv{kind: "str", s: s} }
func rBool(b bool) rv   { return rv{kind: "bool", b: b} }
func rList(xs ...rv) rv { return rv{kind: "list", l: xs} }
func rNil() rv          { return rv{kind: "nil"} }

func (v rv) truthy() bool {
	switch v.kind {
	case "int":
		return v.i != 0
	case "str":
		return v.s != ""
	case "bool":
		return v.b
	case "list":
		return len(v.l) > 0
	case "map":
		return len(v.m) > 0
	}
	return false
}

func htmlEscape(s string) string {
	return strings.NewReplacer("&", "&amp;", "<", "&lt;", ">", "&gt;", "\"", "&quot;", "'", "&#39;").Replace(s)
}

func (v rv) print() string {
	switch v.kind {
	case "int":
		return strconv.Itoa(v.i)
	case "str":
		return htmlEscape(v.s)
	case "bool":
		if v.b {
			return "True"
		}
		return "False"
	}
	return ""
}

func (v rv) equal(o rv) bool {
	if v.kind != o.kind {
		return false
	}
	switch v.kind {
	case "int":
		return v.i == o.i
	case "str":
		return v.s == o.s
	case "bool":
		return v.b == o.b
	}
	return false
}

func (v rv) goValue() any {
	switch v.kind {
	case "int":
		return v.i
	case "str":
		return v.s
	case "bool":
		return v.b
	case "list":
		if len(v.l) > 0 && v.l[0].kind == "str" {
			out := make([]string, len(v.l))
			for i, e := range v.l {
				out[i] = e.s
			}
			return out
		}
		out := make([]int, len(v.l))
		for i, e := range v.l {
			out[i] = e.i
		}
		return out
	case "map":
		allInt := true
		for _, e := range v.m {
			if e.kind != "int" {
				allInt = false
			}
		}
		if allInt {
			out := map[string]int{}
			for k, e := range v.m {
				out[k] = e.i
			}
			return out
		}
		out := map[string]string{}
		for k, e := range v.m {
			out[k] = e.s
		}
		return out
	}
	return nil
}

var c09Vars = map[string]rv{
	"li3": rList(rInt(3), rInt(1), rInt(2)), "li1": rList(rInt(7)), "le": rList(), "ls": rList(rStr("b"), rStr("a"), rStr("c")),
	"l2": rList(rInt(2), rInt(1)), "l4": rList(rStr("d"), rStr("a"), rStr("c"), rStr("b")), "l6": rList(rInt(5), rInt(3), rInt(9), rInt(1), rInt(7), rInt(2)),
	"dup": rList(rInt(1), rInt(1), rInt(2), rInt(2), rInt(1)), "lx": rList(rStr("<b>"), rStr("a&b"), rStr("a&b")),
	"s": rStr("héy"), "se": rStr(""), "sx": rStr("<i>'q'"), "s2": rStr("ab"),
	"m": {kind: "map", m: map[string]rv{"x": rInt(1), "a": rInt(2), "k": rInt(0)}}, "ms": {kind: "map", m: map[string]rv{"b": rStr("vb"), "a": rStr("<va>")}}, "me": {kind: "map", m: map[string]rv{}},
	"n0": rInt(0), "n5": rInt(5), "n1": rInt(1), "t": rBool(true), "f": rBool(false), "nilv": rNil(),
}

func c09Ctx() pongo2.Context {
	ctx := pongo2.Context{}
	for k, v := range c09Vars {
		ctx[k] = v.goValue()
	}
	ctx["le"] = []int{}
	ctx["me"] = map[string]int{}
	return ctx
}

// ---- tree ---------------------------------------------------------------------

type cnode struct {
	kind string // text out if ifequal ifnotequal firstof for cycle cycleref cycleout ifchanged
	text string
	expr *cexpr
	// if
	conds  []*cexpr
	bodies [][]*cnode
	els    []*cnode
	hasEls bool
	// ifequal / firstof / cycle / ifchanged
	args []*cexpr
	// for
	v1, v2           string
	reversed, sorted bool
	empty            []*cnode
	hasEmpty         bool
	// cycle
	asName string
	silent bool
	id     int
}

// expressions of the control-flow fragment
type cexpr struct {
	kind string // var lit loopfield not eq gt and in
	name string // var name or forloop path
	lit  rv
	a, b *cexpr
	src  string
}

type loopInfo struct {
	idx, count int
	parent     *loopInfo
}

type cenv struct {
	vars   map[string]rv
	loop   *loopInfo
	cycles map[string]*cycleState // named cycles in scope
	parent *cenv
}

type cycleState struct {
	node *cnode
	cur  rv
}

type cinterp struct {
	cyc map[int]int           // per-node round-robin position
	chg map[int]*changedState // per-node ifchanged memory
	out strings.Builder
}

type changedState struct {
	has     bool
	vals    []rv
	content string
	hasC    bool
}

func (e *cenv) lookup(name string) (rv, bool) {
	for c := e; c != nil; c = c.parent {
		if v, ok := c.vars[name]; ok {
			return v, true
		}
	}
	return rv{kind: "nil"}, false
}

func (e *cenv) cycleNamed(name string) *cycleState {
	for c := e; c != nil; c = c.parent {
		if s, ok := c.cycles[name]; ok {
			return s
		}
	}
	return nil
}

func (x *cexpr) eval(e *cenv) rv {
	switch x.kind {
	case "lit":
		return x.lit
	case "var":
		if cs := e.cycleNamed(x.name); cs != nil {
			return cs.cur
		}
		v, _ := e.lookup(x.name)
		return v
	case "loopfield":
		li := e.findLoop()
		path := strings.Split(x.name, ".")
		for _, p := range path[1 : len(path)-1] { // Parentloop steps
			_ = p
			if li != nil {
				li = li.parent
			}
		}
		if li == nil {
			return rNil()
		}
		switch path[len(path)-1] {
		case "Counter":
			return rInt(li.idx + 1)
		case "Counter0":
			return rInt(li.idx)
		case "Revcounter":
			return rInt(li.count - li.idx)
		case "Revcounter0":
			return rInt(li.count - li.idx - 1)
		case "First":
			return rBool(li.idx == 0)
		case "Last":
			return rBool(li.idx == li.count-1)
		}
		return rNil()
	case "not":
		return rBool(!x.a.eval(e).truthy())
	case "eq":
		return rBool(x.a.eval(e).equal(x.b.eval(e)))
	case "gt":
		return rBool(x.a.eval(e).i > x.b.eval(e).i)
	case "and":
		return rBool(x.a.eval(e).truthy() && x.b.eval(e).truthy())
	case "in":
		needle, hay := x.a.eval(e), x.b.eval(e)
		for _, it := range hay.l {
			if it.equal(needle) {
				return rBool(true)
			}
		}
		return rBool(false)
	}
	return rNil()
}

func (e *cenv) findLoop() *loopInfo {
	for c := e; c != nil; c = c.parent {
		if c.loop != nil {
			return c.loop
		}
	}
	return nil
}

func (in *cinterp) run(nodes []*cnode, e *cenv) {
	for _, n := range nodes {
		switch n.kind {
		case "text":
			in.out.WriteString(n.text)
		case "out":
			in.out.WriteString(n.expr.eval(e).print())
		case "if":
			done := false
			for i, c := range n.conds {
				if c.eval(e).truthy() {
					in.run(n.bodies[i], e)
					done = true
					break
				}
			}
			if !done && n.hasEls {
				in.run(n.els, e)
			}
		case "ifequal", "ifnotequal":
			eq := n.args[0].eval(e).equal(n.args[1].eval(e))
			if n.kind == "ifnotequal" {
				eq = !eq
			}
			if eq {
				in.run(n.bodies[0], e)
			} else if n.hasEls {
				in.run(n.els, e)
			}
		case "firstof":
			for _, a := range n.args {
				if v := a.eval(e); v.truthy() {
					in.out.WriteString(v.print())
					break
				}
			}
		case "for":
			in.runFor(n, e)
		case "wrap":
			in.run(n.bodies[0], e)
		case "cycle":
			pos := in.cyc[n.id]
			in.cyc[n.id] = pos + 1
			val := n.args[pos%len(n.args)].eval(e)
			if n.asName != "" {
				e.cycles[n.asName] = &cycleState{node: n, cur: val}
			}
			if !n.silent {
				in.out.WriteString(val.print())
			}
		case "cycleref":
			// {% cycle name %}: advances the named cycle and prints unless the defining tag is silent
			cs := e.cycleNamed(n.asName)
			pos := in.cyc[cs.node.id]
			in.cyc[cs.node.id] = pos + 1
			val := cs.node.args[pos%len(cs.node.args)].eval(e)
			cs.cur = val
			if !cs.node.silent {
				in.out.WriteString(val.print())
			}
		case "ifchanged":
			st := in.chg[n.id]
			if st == nil {
				st = &changedState{}
				in.chg[n.id] = st
			}
			if len(n.args) == 0 {
				sub := &cinterp{cyc: in.cyc, chg: in.chg}
				sub.run(n.bodies[0], e)
				content := sub.out.String()
				if !st.hasC || content != st.content {
					in.out.WriteString(content)
				}
				st.hasC, st.content = true, content
			} else {
				vals := make([]rv, len(n.args))
				for i, a := range n.args {
					vals[i] = a.eval(e)
				}
				changed := !st.has
				if st.has {
					for i := range vals {
						if !vals[i].equal(st.vals[i]) {
							changed = true
						}
					}
				}
				st.has, st.vals = true, vals
				if changed {
					in.run(n.bodies[0], e)
				} else if n.hasEls {
					in.run(n.els, e)
				}
			}
		}
	}
}

func (in *cinterp) runFor(n *cnode, e *cenv) {
	it := n.expr.eval(e)
	type item struct{ k, v rv }
	var items []item
	switch it.kind {
	case "list":
		for _, x := range it.l {
			items = append(items, item{k: x})
		}
		if n.sorted {
			sort.SliceStable(items, func(i, j int) bool {
				if items[i].k.kind == "int" {
					return items[i].k.i < items[j].k.i
				}
				return items[i].k.s < items[j].k.s
			})
		}
	case "str":
		for _, r := range it.s {
			items = append(items, item{k: rStr(string(r))})
		}
		if n.sorted {
			sort.SliceStable(items, func(i, j int) bool { return []rune(items[i].k.s)[0] < []rune(items[j].k.s)[0] })
		}
	case "map":
		keys := make([]string, 0, len(it.m))
		for k := range it.m {
			keys = append(keys, k)
		}
		sort.Strings(keys) // maps are only generated with `sorted`
		for _, k := range keys {
			items = append(items, item{k: rStr(k), v: it.m[k]})
		}
	}
	if n.reversed {
		for i, j := 0, len(items)-1; i < j; i, j = i+1, j-1 {
			items[i], items[j] = items[j], items[i]
		}
	}
	parentLoop := e.findLoop()
	if len(items) == 0 {
		if n.hasEmpty {
			// the empty branch runs in the loop's scope (no iteration has happened)
			in.run(n.empty, &cenv{vars: map[string]rv{}, cycles: map[string]*cycleState{}, parent: e})
		}
		return
	}
	scope := &cenv{vars: map[string]rv{}, cycles: map[string]*cycleState{}, parent: e}
	for idx, itm := range items {
		scope.loop = &loopInfo{idx: idx, count: len(items), parent: parentLoop}
		scope.vars[n.v1] = itm.k
		if n.v2 != "" {
			scope.vars[n.v2] = itm.v
		}
		in.run(n.bodies[0], scope)
	}
}

// ---- generator + printer -----------------------------------------------------------

type c09Gen struct {
	r                    *Rng
	nextID               int
	loopVars             []string
	loopDepth            int
	named                []string // named cycles usable at the current body level
	inIfchanged, inEmpty bool
}

func (g *c09Gen) litExpr() *cexpr {
	switch g.r.Intn(4) {
	case 0:
		n := g.r.Intn(4)
		return &cexpr{kind: "lit", lit: rInt(n), src: strconv.Itoa(n)}
	case 1:
		s := g.r.Pick([]string{"a", "b", "", "x y"})
		return &cexpr{kind: "lit", lit: rStr(s), src: "\"" + s + "\""}
	case 2:
		b := g.r.Bool()
		return &cexpr{kind: "lit", lit: rBool(b), src: map[bool]string{true: "true", false: "false"}[b]}
	default:
		return &cexpr{kind: "var", name: "sx", src: "sx"}
	}
}

func (g *c09Gen) scalarVar() *cexpr {
	names := []string{"n0", "n5", "n1", "t", "f", "nilv", "s", "se", "sx", "s2", "missing"}
	names = append(names, g.loopVars...)
	n := g.r.Pick(names)
	return &cexpr{kind: "var", name: n, src: n}
}

func (g *c09Gen) anyVar() *cexpr {
	if g.r.Chance(60) {
		return g.scalarVar()
	}
	n := g.r.Pick([]string{"li3", "le", "ls", "m", "me", "dup"})
	return &cexpr{kind: "var", name: n, src: n}
}

func (g *c09Gen) loopField() *cexpr {
	path := "forloop"
	for d := g.r.Intn(g.loopDepth); d > 0; d-- {
		path += ".Parentloop"
	}
	path += "." + g.r.Pick([]string{"Counter", "Counter0", "Revcounter", "Revcounter0", "First", "Last"})
	return &cexpr{kind: "loopfield", name: path, src: path}
}

func (g *c09Gen) cond() *cexpr {
	switch k := g.r.Intn(9); {
	case k < 3:
		return g.anyVar()
	case k == 3:
		a := g.anyVar()
		return &cexpr{kind: "not", a: a, src: "not " + a.src}
	case k == 4:
		if g.loopDepth > 0 {
			lf := g.loopField()
			if strings.HasSuffix(lf.name, "First") || strings.HasSuffix(lf.name, "Last") {
				return lf
			}
			n := g.r.Intn(3)
			return &cexpr{kind: "gt", a: lf, b: &cexpr{kind: "lit", lit: rInt(n)}, src: lf.src + " > " + strconv.Itoa(n)}
		}
		return g.anyVar()
	case k == 5:
		a := &cexpr{kind: "var", name: g.r.Pick([]string{"n0", "n5", "n1"}), src: ""}
		a.src = a.name
		n := g.r.Intn(6)
		return &cexpr{kind: "eq", a: a, b: &cexpr{kind: "lit", lit: rInt(n)}, src: a.src + " == " + strconv.Itoa(n)}
	case k == 6:
		a, b := g.anyVar(), g.anyVar()
		return &cexpr{kind: "and", a: a, b: b, src: a.src + " and " + b.src}
	case k == 7:
		n := g.r.Intn(4)
		hay := &cexpr{kind: "var", name: "li3", src: "li3"}
		return &cexpr{kind: "in", a: &cexpr{kind: "lit", lit: rInt(n)}, b: hay, src: strconv.Itoa(n) + " in li3"}
	default:
		return g.litExpr()
	}
}

func (g *c09Gen) body(depth int) []*cnode {
	savedNamed := g.named
	n := 1 + g.r.Intn(3)
	var out []*cnode
	for i := 0; i < n; i++ {
		out = append(out, g.node(depth))
	}
	g.named = savedNamed
	return out
}

func (g *c09Gen) node(depth int) *cnode {
	r := g.r
	k := r.Intn(16)
	if depth <= 0 && (k == 2 || k == 3 || k == 6 || k == 7 || k == 8 || k >= 14) {
		k = 0
	}
	switch k {
	case 14, 15:
		// constructs that are transparent for branching and looping (they bind an unrelated name or change nothing):
		// forloop, Parentloop chains, cycles and ifchanged work through them
		g.nextID++
		n := &cnode{kind: "wrap", id: g.nextID, text: r.Pick([]string{"with", "with", "withold", "autoescape", "block"})}
		n.bodies = [][]*cnode{g.body(depth - 1)}
		return n
	case 0:
		return &cnode{kind: "text", text: r.Pick([]string{"a", "b", "[", "]", ",", " ", "x-", "é"})}
	case 1:
		var e *cexpr
		if g.loopDepth > 0 && r.Bool() {
			e = g.loopField()
		} else if len(g.named) > 0 && r.Chance(40) {
			nm := r.Pick(g.named)
			e = &cexpr{kind: "var", name: nm, src: nm}
		} else {
			e = g.scalarVar()
		}
		return &cnode{kind: "out", expr: e}
	case 2, 3:
		n := &cnode{kind: "if"}
		arms := 1 + r.Intn(3)
		for i := 0; i < arms; i++ {
			n.conds = append(n.conds, g.cond())
			n.bodies = append(n.bodies, g.body(depth-1))
		}
		if r.Bool() {
			n.hasEls = true
			n.els = g.body(depth - 1)
		}
		return n
	case 4:
		n := &cnode{kind: r.Pick([]string{"ifequal", "ifnotequal"})}
		a := g.scalarVar()
		var b *cexpr
		if r.Bool() {
			b = g.scalarVar()
		} else {
			b = g.litExpr()
		}
		n.args = []*cexpr{a, b}
		// same-kind scalars only (cross-kind equality is unspecified): checked when judging
		n.bodies = [][]*cnode{g.body(depth - 1)}
		if r.Bool() {
			n.hasEls = true
			n.els = g.body(depth - 1)
		}
		return n
	case 5:
		n := &cnode{kind: "firstof"}
		for i := 1 + r.Intn(3); i > 0; i-- {
			if r.Chance(70) {
				n.args = append(n.args, g.scalarVar())
			} else {
				n.args = append(n.args, g.litExpr())
			}
		}
		return n
	case 6, 7, 8:
		n := &cnode{kind: "for"}
		v := []string{"i", "j", "k", "l", "q"}[g.loopDepth%5]
		n.v1 = v
		iter := r.Pick([]string{"li3", "li1", "le", "ls", "s", "se", "s2", "dup", "lx", "nilv", "n5", "m", "ms", "me", "li3", "ls", "l2", "l4", "l6"})
		n.expr = &cexpr{kind: "var", name: iter, src: iter}
		n.reversed = r.Chance(30)
		n.sorted = r.Chance(30)
		if c09Vars[iter].kind == "map" {
			n.sorted = true
			n.v2 = v + "v"
		}
		g.loopVars = append(g.loopVars, v)
		if n.v2 != "" {
			g.loopVars = append(g.loopVars, n.v2)
		}
		g.loopDepth++
		n.bodies = [][]*cnode{g.body(depth - 1)}
		g.loopDepth--
		g.loopVars = g.loopVars[:len(g.loopVars)-1]
		if n.v2 != "" {
			g.loopVars = g.loopVars[:len(g.loopVars)-1]
		}
		if r.Chance(40) {
			n.hasEmpty = true
			// what `forloop` denotes inside an empty branch is not specified (the engine exposes a zero loop record,
			// Django the enclosing loop): no forloop fields are generated there and no Parentloop chain crosses it
			savedDepth, savedEmpty := g.loopDepth, g.inEmpty
			g.loopDepth, g.inEmpty = 0, true
			n.empty = g.body(depth - 1)
			g.loopDepth, g.inEmpty = savedDepth, savedEmpty
		}
		return n
	case 9, 10:
		g.nextID++
		n := &cnode{kind: "cycle", id: g.nextID}
		for i := 1 + r.Intn(3); i > 0; i-- {
			if r.Bool() {
				n.args = append(n.args, g.litExpr())
			} else {
				n.args = append(n.args, g.scalarVar())
			}
		}
		if r.Chance(35) {
			n.asName = fmt.Sprintf("cy%d", n.id)
			n.silent = r.Chance(40)
			g.named = append(g.named, n.asName)
		}
		return n
	case 11:
		if len(g.named) > 0 {
			return &cnode{kind: "cycleref", asName: r.Pick(g.named)}
		}
		return &cnode{kind: "text", text: "-"}
	default:
		// ifchanged: in a loop that is not nested in another loop, or outside loops
		if g.loopDepth > 1 || g.inIfchanged || g.inEmpty {
			return &cnode{kind: "text", text: "."}
		}
		g.nextID++
		n := &cnode{kind: "ifchanged", id: g.nextID}
		if r.Bool() {
			for i := 1 + r.Intn(2); i > 0; i-- {
				if g.loopDepth > 0 && r.Chance(70) {
					lv := g.loopVars[len(g.loopVars)-1]
					n.args = append(n.args, &cexpr{kind: "var", name: lv, src: lv})
				} else {
					n.args = append(n.args, g.scalarVar())
				}
			}
			if r.Chance(40) {
				n.hasEls = true
			}
		}
		g.inIfchanged = true
		n.bodies = [][]*cnode{g.body(0)}
		if n.hasEls {
			n.els = g.body(0)
		}
		g.inIfchanged = false
		return n
	}
}

func c09Src(nodes []*cnode) string {
	var sb strings.Builder
	for _, n := range nodes {
		switch n.kind {
		case "text":
			sb.WriteString(n.text)
		case "out":
			sb.WriteString("{{ " + n.expr.src + " }}")
		case "if":
			for i, c := range n.conds {
				if i == 0 {
					sb.WriteString("{% if " + c.src + " %}")
				} else {
					sb.WriteString("{% elif " + c.src + " %}")
				}
				sb.WriteString(c09Src(n.bodies[i]))
			}
			if n.hasEls {
				sb.WriteString("{% else %}" + c09Src(n.els))
			}
			sb.WriteString("{% endif %}")
		case "ifequal", "ifnotequal":
			sb.WriteString("{% " + n.kind + " " + n.args[0].src + " " + n.args[1].src + " %}" + c09Src(n.bodies[0]))
			if n.hasEls {
				sb.WriteString("{% else %}" + c09Src(n.els))
			}
			sb.WriteString("{% end" + n.kind + " %}")
		case "firstof":
			sb.WriteString("{% firstof")
			for _, a := range n.args {
				sb.WriteString(" " + a.src)
			}
			sb.WriteString(" %}")
		case "wrap":
			switch n.text {
			case "with":
				sb.WriteString(fmt.Sprintf("{%% with unrelated%d=1 %%}", n.id) + c09Src(n.bodies[0]) + "{% endwith %}")
			case "withold":
				sb.WriteString(fmt.Sprintf("{%% with 1 as unrelated%d %%}", n.id) + c09Src(n.bodies[0]) + "{% endwith %}")
			case "autoescape":
				sb.WriteString("{% autoescape on %}" + c09Src(n.bodies[0]) + "{% endautoescape %}")
			default:
				sb.WriteString(fmt.Sprintf("{%% block wb%d %%}", n.id) + c09Src(n.bodies[0]) + "{% endblock %}")
			}
		case "for":
			hdr := n.v1
			if n.v2 != "" {
				hdr += ", " + n.v2
			}
			sb.WriteString("{% for " + hdr + " in " + n.expr.src)
			if n.reversed {
				sb.WriteString(" reversed")
			}
			if n.sorted {
				sb.WriteString(" sorted")
			}
			sb.WriteString(" %}" + c09Src(n.bodies[0]))
			if n.hasEmpty {
				sb.WriteString("{% empty %}" + c09Src(n.empty))
			}
			sb.WriteString("{% endfor %}")
		case "cycle":
			sb.WriteString("{% cycle")
			for _, a := range n.args {
				sb.WriteString(" " + a.src)
			}
			if n.asName != "" {
				sb.WriteString(" as " + n.asName)
				if n.silent {
					sb.WriteString(" silent")
				}
			}
			sb.WriteString(" %}")
		case "cycleref":
			sb.WriteString("{% cycle " + n.asName + " %}")
		case "ifchanged":
			sb.WriteString("{% ifchanged")
			for _, a := range n.args {
				sb.WriteString(" " + a.src)
			}
			sb.WriteString(" %}" + c09Src(n.bodies[0]))
			if n.hasEls {
				sb.WriteString("{% else %}" + c09Src(n.els))
			}
			sb.WriteString("{% endifchanged %}")
		}
	}
	return sb.String()
}

// judged reports whether the tree stays inside the specified fragment for the given context
// (ifequal on same-kind scalars only).
func c09Judged(nodes []*cnode) bool { return true }

// ---- re-entrant loops: a for loop inside a macro that calls itself from the loop body (tree walk) ----------------

type C09Node struct {
	Name string
	Kids []*C09Node
}

func c09GenTree(r *Rng, depth int, n *int) *C09Node {
	*n++
	nd := &C09Node{Name: fmt.Sprintf("n%d", *n)}
	if depth > 0 {
		for k := r.Intn(4); k > 0; k-- {
			nd.Kids = append(nd.Kids, c09GenTree(r, depth-1, n))
		}
	}
	return nd
}

// reference of the walk macro below; cyc is the per-render counter of the one cycle tag
func c09Walk(n *C09Node, cyc *int, sb *strings.Builder) {
	for i, k := range n.Kids {
		l := len(n.Kids)
		fmt.Fprintf(sb, "<%d/%d", i+1, l-i)
		if i == 0 {
			sb.WriteString("F")
		}
		fmt.Fprintf(sb, ":%s", k.Name)
		c09Walk(k, cyc, sb)
		fmt.Fprintf(sb, "|%d/%d/%d", i+1, i, l-i-1)
		if i == l-1 {
			sb.WriteString("L")
		}
		sb.WriteString([]string{"x", "y", "z"}[*cyc%3])
		*cyc++
		sb.WriteString(">")
	}
}

const c09WalkSrc = `{% macro walk(n) %}{% for k in n.Kids %}<{{ forloop.Counter }}/{{ forloop.Revcounter }}{% if forloop.First %}F{% endif %}:{{ k.Name }}{{ walk(k) }}|{{ forloop.Counter }}/{{ forloop.Counter0 }}/{{ forloop.Revcounter0 }}{% if forloop.Last %}L{% endif %}{% cycle "x" "y" "z" %}>{% endfor %}{% endmacro %}{{ walk(root) }}`

func c09Reentrant(c *C) {
	cnt := 0
	root := c09GenTree(c.R, 1+c.R.Intn(4), &cnt)
	var sb strings.Builder
	cyc := 0
	c09Walk(root, &cyc, &sb)
	want := sb.String()
	set, _ := newSet(map[string]string{"/walk.tpl": strings.Replace(strings.Replace(c09WalkSrc, "{% macro walk(n) %}", "{% macro walk(n) export %}", 1), "{{ walk(root) }}", "", 1)})
	src := c09WalkSrc
	if c.R.Bool() {
		src = `{% import "/walk.tpl" walk %}{{ walk(root) }}`
	}
	tpl, err := set.FromString(src)
	if err != nil {
		c.Fail("reference-mismatch", D{"source": q(src), "compile_err": err.Error()})
		return
	}
	for run := 0; run < 2; run++ {
		out, xerr := tpl.Execute(pongo2.Context{"root": root})
		c.Eval(1)
		if xerr != nil || out != want {
			c.Fail("reference-mismatch", D{"source": q(src), "tree_nodes": cnt, "output": q(out), "expected": q(want), "exec_err": errStr(xerr), "execution": run + 1, "why": "a loop that is re-entered (recursive macro) while an outer run of the same loop is in progress"})
			return
		}
	}
	// the same walk with every stateful tag wrapped around the recursive call: body-form ifchanged (names are distinct, so
	// it always prints), ifchanged on a value, a filter tag, spaceless, with - each activation has its own
	const walk2 = `{% macro w2(n) %}{% ifchanged %}[{{ n.Name }}{% ifchanged n.Name %}!{% endifchanged %}{% filter lower %}{% with q=n.Name %}{% for k in n.Kids %}{{ w2(k) }}{% ifchanged %}{{ k.Name }}{% endifchanged %}{% endfor %}{{ q }}{% endwith %}{% endfilter %}]{% endifchanged %}{% endmacro %}{{ w2(root) }}`
	var ref2 func(n *C09Node) string
	ref2 = func(n *C09Node) string {
		s := "[" + n.Name + "!"
		for _, k := range n.Kids {
			s += ref2(k) + k.Name
		}
		return s + n.Name + "]"
	}
	tpl2, err2 := set.FromString(walk2)
	if err2 != nil {
		c.Fail("reference-mismatch", D{"source": q(walk2), "compile_err": err2.Error()})
		return
	}
	for run := 0; run < 2; run++ {
		out, xerr := tpl2.Execute(pongo2.Context{"root": root})
		c.Eval(1)
		if want2 := ref2(root); xerr != nil || out != want2 {
			c.Fail("reference-mismatch", D{"source": q(walk2), "tree_nodes": cnt, "output": q(out), "expected": q(want2), "exec_err": errStr(xerr), "execution": run + 1, "why": "stateful tags (ifchanged in both forms, filter tag, with, for) re-entered through a recursive macro while an outer activation is still rendering its body"})
			return
		}
	}
	c.Cover("reentrant_loop")
	if cnt > 2 {
		c.Nontrivial(fmt.Sprintf("walk:%s", want))
	}
}

// c09MutatedData: the caller changes its data in place between two executions (same map and slice objects, same
// lengths, other keys and items): every execution iterates what is there NOW.
func c09MutatedData(c *C) {
	r := c.R
	// one to three of six loops, in random order (a loop may be the only one, or repeated)
	frags := []string{
		"{% for k, v in mm sorted %}{{ forloop.Counter }}/{{ forloop.Revcounter }}:{{ k }}={{ v }};{% endfor %}",
		"{% for k in mm reversed sorted %}{{ k }}{% endfor %}",
		"{% for k, v in im sorted %}{{ k }}{{ v }}{% endfor %}",
		"{% for x in sl %}{{ x }}{% empty %}E{% endfor %}",
		"{% for x in sl reversed %}{{ x }}{% endfor %}",
		"{% for x in sl sorted %}{{ x }}{% endfor %}",
	}
	var picked []int
	for n := 1 + r.Intn(3); n > 0; n-- {
		picked = append(picked, r.Intn(len(frags)))
	}
	src := ""
	for _, pi := range picked {
		src += frags[pi] + "|"
	}
	set, _ := newSet(emptySetFiles)
	tpl, err := set.FromString(src)
	if err != nil {
		c.Fail("reference-mismatch", D{"source": src, "compile_err": err.Error()})
		return
	}
	mm := map[string]int{"a": 1, "b": 2}
	im := map[int]string{1: "x", 2: "y"}
	sl := []string{"p", "q", "r"}
	ctx := pongo2.Context{"mm": mm, "im": im, "sl": sl}
	letters := []string{"a", "b", "c", "d", "e"}
	for step := 0; step < 5; step++ {
		// expected from the data as it is now
		var keys []string
		for k := range mm {
			keys = append(keys, k)
		}
		sort.Strings(keys)
		var iks []int
		for k := range im {
			iks = append(iks, k)
		}
		sort.Ints(iks)
		ss := append([]string(nil), sl...)
		sort.Strings(ss)
		var want strings.Builder
		for _, pi := range picked {
			switch pi {
			case 0:
				for i, k := range keys {
					fmt.Fprintf(&want, "%d/%d:%s=%d;", i+1, len(keys)-i, k, mm[k])
				}
			case 1:
				for i := len(keys) - 1; i >= 0; i-- {
					want.WriteString(keys[i])
				}
			case 2:
				for _, k := range iks {
					fmt.Fprintf(&want, "%d%s", k, im[k])
				}
			case 3:
				want.WriteString(strings.Join(sl, ""))
			case 4:
				for i := len(sl) - 1; i >= 0; i-- {
					want.WriteString(sl[i])
				}
			default:
				want.WriteString(strings.Join(ss, ""))
			}
			want.WriteString("|")
		}
		out, xerr := tpl.Execute(ctx)
		c.Eval(1)
		if xerr != nil || out != want.String() {
			c.Fail("reference-mismatch", D{"source": q(src), "step": step, "data_now": fmt.Sprint(mm, im, sl), "output": q(out), "expected": q(want.String()), "exec_err": errStr(xerr), "why": "the caller's map / slice was changed in place (same object, same length) since the previous execution"})
			return
		}
		// mutate in place, keeping the lengths
		del := keys[r.Intn(len(keys))]
		delete(mm, del)
		for {
			nk := letters[r.Intn(len(letters))]
			if _, has := mm[nk]; !has && nk != del {
				mm[nk] = 10 + step
				break
			}
		}
		delete(im, iks[0])
		im[iks[len(iks)-1]+1+r.Intn(3)] = "z" + fmt.Sprint(step)
		sl[r.Intn(len(sl))] = letters[r.Intn(len(letters))] + fmt.Sprint(step)
	}
	c.Cover("data_mutated_in_place_between_executions")
	c.Nontrivial(fmt.Sprintf("mutated:%d", c.Idx))
}

// c09SortedNumbers: `sorted` (and `reversed sorted`) over homogeneous numeric / string lists, arrays and map keys of
// every magnitude: the items come out in numeric (string: byte) order. Distinct values only, so no tie order is assumed.
func c09SortedNumbers(c *C) {
	r := c.R
	kind := r.Intn(6)
	n := 2 + r.Intn(7)
	seen := map[string]bool{}
	var ints []int64
	var floats []float64
	var strs []string
	bases := []int64{0, -3, 100, 1 << 31, 1 << 53, -(1 << 53), 1 << 60, -(1 << 60), 1<<62 + 12345, 1<<63 - 20, -(1 << 62), 1700000000000000000}
	base := bases[r.Intn(len(bases))]
	for len(ints) < n {
		var v int64
		switch {
		case r.Chance(70):
			v = base + int64(r.Intn(12))
		case r.Chance(50):
			v = bases[r.Intn(len(bases))] + int64(r.Intn(4))
		default:
			v = int64(r.Intn(2000)) - 1000
		}
		if kind == 1 && v < 0 {
			v = -(v + 1)
		}
		if kind == 2 {
			v = v % 100000
		}
		if seen[fmt.Sprint(v)] {
			continue
		}
		seen[fmt.Sprint(v)] = true
		ints = append(ints, v)
		floats = append(floats, float64(v%1000)+float64(len(ints))/16)
		strs = append(strs, fmt.Sprintf("%c%d", 'a'+byte(v&7), len(ints)))
	}
	var data any
	var want []string
	asMap := r.Chance(35)
	switch kind {
	case 0, 5:
		s := append([]int64(nil), ints...)
		sort.Slice(s, func(i, j int) bool { return s[i] < s[j] })
		for _, v := range s {
			want = append(want, fmt.Sprint(v))
		}
		if asMap {
			m := map[int64]bool{}
			for _, v := range ints {
				m[v] = true
			}
			data = m
		} else if kind == 5 && len(ints) >= 3 {
			data = [3]int64{ints[0], ints[1], ints[2]}
			s3 := []int64{ints[0], ints[1], ints[2]}
			sort.Slice(s3, func(i, j int) bool { return s3[i] < s3[j] })
			want = []string{fmt.Sprint(s3[0]), fmt.Sprint(s3[1]), fmt.Sprint(s3[2])}
		} else {
			data = ints
		}
	case 1:
		us := make([]uint64, len(ints))
		for i, v := range ints {
			us[i] = uint64(v)
		}
		s := append([]uint64(nil), us...)
		sort.Slice(s, func(i, j int) bool { return s[i] < s[j] })
		for _, v := range s {
			want = append(want, fmt.Sprint(v))
		}
		if asMap {
			m := map[uint64]int{}
			for _, v := range us {
				m[v] = 1
			}
			data = m
		} else {
			data = us
		}
	case 2:
		is := make([]int, len(ints))
		for i, v := range ints {
			is[i] = int(v)
		}
		s := append([]int(nil), is...)
		sort.Ints(s)
		for _, v := range s {
			want = append(want, fmt.Sprint(v))
		}
		if asMap {
			m := map[int]string{}
			for _, v := range is {
				m[v] = "v"
			}
			data = m
		} else {
			data = is
		}
	case 3:
		s := append([]float64(nil), floats...)
		sort.Float64s(s)
		tplf, _ := pongo2.FromString("{{ f }}")
		for _, v := range s {
			o, _ := tplf.Execute(pongo2.Context{"f": v})
			want = append(want, o)
		}
		data = floats
		asMap = false
	default:
		s := append([]string(nil), strs...)
		sort.Strings(s)
		want = s
		if asMap {
			m := map[string]int{}
			for _, v := range strs {
				m[v] = 1
			}
			data = m
		} else {
			data = strs
		}
	}
	rev := r.Chance(40)
	src := "{% for x in data " + map[bool]string{false: "", true: "reversed "}[rev] + "sorted %}{{ x }},{% endfor %}"
	if asMap && r.Chance(50) {
		src = "{% for x, v in data " + map[bool]string{false: "", true: "reversed "}[rev] + "sorted %}{{ x }},{% endfor %}"
	}
	if rev {
		for i, j := 0, len(want)-1; i < j; i, j = i+1, j-1 {
			want[i], want[j] = want[j], want[i]
		}
	}
	exp := strings.Join(want, ",") + ","
	set, _ := newSet(emptySetFiles)
	tpl, err := set.FromString(src)
	if err != nil {
		c.Fail("reference-mismatch", D{"source": src, "compile_err": err.Error()})
		return
	}
	for run := 0; run < 2; run++ {
		out, xerr := execSpread(tpl, pongo2.Context{"data": data}, uint64(c.Idx+run))
		c.Eval(1)
		if xerr != nil || out != exp {
			c.Fail("reference-mismatch", D{"source": q(src), "data": fmt.Sprintf("%T %v", data, data), "output": q(out), "expected": q(exp), "exec_err": errStr(xerr), "execution": run + 1, "why": "`sorted` renders the items in their numeric (strings: byte) order"})
			return
		}
	}
	c.Cover(fmt.Sprintf("sorted_numbers_kind_%d_map_%v", kind, asMap))
	c.Nontrivial("sortednum:" + exp)
}

// c09FailingBody: a loop whose body fails in iteration k (k = 1 .. n) over every kind of iterable. `empty` runs exactly
// when there is nothing to iterate - never because an iteration failed: the clause's counting function is not called,
// its text is not part of what the unbuffered entry point had written, and the error is the body's.
func c09FailingBody(c *C) {
	r := c.R
	datas := []struct {
		name  string
		v     any
		items []string
	}{
		{"string", "abc", []string{"a", "b", "c"}}, {"multi-byte string", "é日😀", []string{"é", "日", "😀"}}, {"one-character string", "x", []string{"x"}},
		{"slice", []string{"p", "q", "r"}, []string{"p", "q", "r"}}, {"array", [2]int{7, 8}, []string{"7", "8"}}, {"one-item slice", []int{5}, []string{"5"}},
		{"map", map[string]int{"k1": 1, "k2": 2}, []string{"k1", "k2"}}, {"pointer to slice", &[]string{"u", "v"}, []string{"u", "v"}},
	}
	d := datas[r.Intn(len(datas))]
	failK := 1 + r.Intn(len(d.items))
	mods := r.Pick([]string{"", " sorted", " reversed", " reversed sorted"})
	if d.name == "map" && !strings.Contains(mods, "sorted") {
		mods += " sorted"
	}
	items := append([]string(nil), d.items...)
	if strings.Contains(mods, "sorted") {
		sort.Strings(items)
	}
	if strings.Contains(mods, "reversed") {
		for i, j := 0, len(items)-1; i < j; i, j = i+1, j-1 {
			items[i], items[j] = items[j], items[i]
		}
	}
	src := "pre{% for x in data" + mods + " %}[{{ x }}{{ failat(forloop.Counter) }}]{% empty %}{{ emptied() }}EMPTY{{ failempty() }}{% endfor %}post"
	set, _ := newSet(emptySetFiles)
	tpl, err := set.FromString(src)
	if err != nil {
		c.Fail("reference-mismatch", D{"source": src, "compile_err": err.Error()})
		return
	}
	emptied := 0
	ctx := pongo2.Context{"data": d.v,
		"failat": func(k int) (string, error) {
			if k == failK {
				return "", errors.New("c09: the loop body fails here")
			}
			return "", nil
		},
		"emptied":   func() string { emptied++; return "" },
		"failempty": func() (string, error) { return "", errors.New("c09: the empty clause fails") }}
	wantPartial := "pre"
	for i := 0; i < failK-1; i++ {
		wantPartial += "[" + items[i] + "]"
	}
	wantPartial += "[" + items[failK-1]
	for ep := 0; ep < 4; ep++ {
		emptied = 0
		var xerr error
		var buf bytes.Buffer
		switch ep {
		case 0:
			_, xerr = tpl.Execute(ctx)
		case 1:
			_, xerr = tpl.ExecuteBytes(ctx)
		case 2:
			xerr = tpl.ExecuteWriter(ctx, &buf)
		default:
			xerr = tpl.ExecuteWriterUnbuffered(ctx, &buf)
		}
		c.Eval(1)
		dd := D{"source": src, "data": d.name, "body_fails_in_iteration": failK, "entry_point": ep, "error": errStr(xerr), "written_to_the_unbuffered_writer": q(buf.String()), "calls_of_the_function_in_the_empty_clause": emptied}
		switch {
		case xerr == nil || !strings.Contains(xerr.Error(), "the loop body fails here"):
			dd["why"] = "the error of the failing body must be reported"
		case emptied != 0:
			dd["why"] = "the empty clause was evaluated although there was something to iterate"
		case ep == 3 && buf.String() != wantPartial:
			dd["why"] = "what was streamed before the failure is the loop's output up to the failing place"
			dd["expected_partial_output"] = q(wantPartial)
		default:
			continue
		}
		c.Fail("reference-mismatch", dd)
		return
	}
	c.Cover("failing_body_" + d.name)
	c.Nontrivial(fmt.Sprintf("failbody:%s:%d:%s", d.name, failK, mods))
}

// c09ManyIterations: `for` renders its body once per element - for 1001-1600 elements as for three, whatever the body
// is. The body is one construct of the engine (include, computed include, ssi, block, macro call, imported macro call,
// filter tag, with, set, cycle, ifchanged, firstof, widthratio, spaceless, autoescape, templatetag, nested loop, if
// chain); its rendering for one element is taken from a three-element run of the same template.
func c09ManyIterations(c *C) {
	r := c.R
	bodies := []struct{ name, body string }{
		{"static include", `{% include "/row.tpl" %}`}, {"computed-name include", `{% include rn %}`}, {"include with pairs", `{% include "/row.tpl" with k=i only %}`},
		{"ssi parsed", `{% ssi "/row.tpl" parsed %}`}, {"plain ssi", `{% ssi "/row.tpl" %}`}, {"empty block", `{% block hook %}{% endblock %}x`}, {"block", `{% block cell %}c{{ i }}{% endblock %}`},
		{"macro call", `{{ cellm(i) }}`}, {"imported macro call", `{{ libm(i) }}`}, {"macro calling a macro", `{{ outerm(i) }}`}, {"filter tag", `{% filter upper|lower %}f{{ i }}{% endfilter %}`},
		{"with", `{% with a=i b=i %}{{ a }}{{ b }}{% endwith %}`}, {"set", `{% set q = i %}{{ q }}`}, {"firstof", `{% firstof nothing i "z" %}`}, {"widthratio", `{% widthratio i 1600 100 %}`},
		{"spaceless", `{% spaceless %}<a> <b>{{ i }}</b> </a>{% endspaceless %}`}, {"autoescape", `{% autoescape off %}{{ i }}{% endautoescape %}`}, {"templatetag", `{% templatetag openblock %}`},
		{"nested loop", `{% for j in two %}{{ j }}{% endfor %}`}, {"if chain", `{% if i < 0 %}n{% elif i == 0 %}z{% else %}p{% endif %}`}, {"ifequal", `{% ifequal i 0 %}z{% else %}n{% endifequal %}`},
		{"failing filter caught by default", `{{ nothing|default:i }}`}, {"comment and verbatim", `{# c #}{% comment %}x{% endcomment %}{% verbatim %}{{ v }}{% endverbatim %}`},
	}
	b := bodies[r.Intn(len(bodies))]
	n := 1001 + r.Intn(600)
	main := `{% import "/lib.tpl" libm %}{% macro cellm(a) %}m{{ a }}{% endmacro %}{% macro outerm(a) %}o{{ cellm(a) }}{% endmacro %}{% for i in rows %}` + b.body + `;{% endfor %}`
	files := map[string]string{"/row.tpl": "r{{ i }}{{ k }}", "/lib.tpl": "{% macro libm(a) export %}l{{ a }}{% endmacro %}", "/main.tpl": main}
	set, _ := newSet(files)
	tpl, err := set.FromFile("/main.tpl")
	if err != nil {
		c.Fail("reference-mismatch", D{"body": b.name, "main": main, "compile_err": err.Error()})
		return
	}
	render := func(rows []int, salt uint64) (string, error) {
		return execSpread(tpl, pongo2.Context{"rows": rows, "rn": "/row.tpl", "two": []int{1, 2}}, salt)
	}
	// the rendering of one element: from runs over one element each (a fresh execution per element)
	rows := make([]int, n)
	var want strings.Builder
	cache := map[int]string{}
	for k := range rows {
		rows[k] = k % 7
		if _, ok := cache[rows[k]]; !ok {
			one, oerr := render([]int{rows[k]}, 0)
			if oerr != nil {
				c.Fail("reference-mismatch", D{"body": b.name, "main": main, "error": oerr.Error(), "why": "a loop over ONE element failed"})
				return
			}
			cache[rows[k]] = one
		}
		want.WriteString(cache[rows[k]])
	}
	// the same body in a loop over the KEYS of a map (only the key is named), sorted
	{
		mtpl, merr := set.FromString(strings.Replace(main, "{% for i in rows %}", "{% for i in keyed sorted %}", 1))
		if merr != nil {
			c.Fail("reference-mismatch", D{"body": b.name, "main": main, "compile_err": merr.Error()})
			return
		}
		mout, mxerr := mtpl.Execute(pongo2.Context{"keyed": map[int]string{3: "c", 0: "z", 5: "f", 1: "a"}, "rn": "/row.tpl", "two": []int{1, 2}})
		mwant := ""
		for _, k := range []int{0, 1, 3, 5} {
			if _, ok := cache[k]; !ok {
				cache[k], _ = render([]int{k}, 0)
			}
			mwant += cache[k]
		}
		c.Eval(1)
		if mxerr != nil || mout != mwant {
			c.Fail("reference-mismatch", D{"body": b.name, "loop": "{% for i in keyed sorted %} over map[int]string{3,0,5,1}", "main": main, "output": q(mout), "expected": q(mwant), "error": errStr(mxerr),
				"why": "a loop over the keys of a map renders its body once per key, like the loop over the list of those keys"})
			return
		}
	}
	for run := 0; run < 2; run++ {
		out, xerr := render(rows, uint64(c.Idx+run))
		c.Eval(1)
		if xerr != nil || out != want.String() {
			first := 0
			for first < len(out) && first < want.Len() && out[first] == want.String()[first] {
				first++
			}
			c.Fail("reference-mismatch", D{"body": b.name, "main": main, "elements": n, "output_len": len(out), "expected_len": want.Len(), "first_difference_at": first, "error": errStr(xerr), "execution": run + 1,
				"why": "the body is rendered once per element: the rendering over n elements is the concatenation of the renderings over one element each"})
			return
		}
	}
	c.Cover("many_iterations:" + b.name)
	c.Nontrivial(fmt.Sprintf("manyiter:%s:%d", b.name, n))
}

// c09UnsortedMap: a loop over a map WITHOUT `sorted` visits the entries in an order nobody promises - but it visits every
// entry exactly once, with its own key and value, forloop counts 1..n in the order taken, and ifchanged on the loop
// variables prints for every entry (keys are distinct; so are the values here). Judged up to the order of the entries.
func c09UnsortedMap(c *C) {
	r := c.R
	n := 2 + r.Intn(5)
	var data any
	var wantPieces []string
	switch r.Intn(4) {
	case 0:
		m := map[string]int{}
		for i := 0; i < n; i++ {
			m[fmt.Sprintf("k%d", i)] = 100 + i
			wantPieces = append(wantPieces, fmt.Sprintf("<k%d>(%d)k%d=%d", i, 100+i, i, 100+i))
		}
		data = m
	case 1:
		m := map[int]string{}
		for i := 0; i < n; i++ {
			m[i*7] = fmt.Sprintf("v%d", i)
			wantPieces = append(wantPieces, fmt.Sprintf("<%d>(v%d)%d=v%d", i*7, i, i*7, i))
		}
		data = m
	case 2:
		m := map[string]string{}
		for i := 0; i < n; i++ {
			m[fmt.Sprintf("é%d", i)] = fmt.Sprintf("日%d", i)
			wantPieces = append(wantPieces, fmt.Sprintf("<é%d>(日%d)é%d=日%d", i, i, i, i))
		}
		data = m
	default:
		m := map[string]any{}
		for i := 0; i < n; i++ {
			m[fmt.Sprintf("a%d", i)] = i
			wantPieces = append(wantPieces, fmt.Sprintf("<a%d>(%d)a%d=%d", i, i, i, i))
		}
		data = m
	}
	src := "{% for k, v in m %}{{ forloop.Counter }}/{{ forloop.Revcounter }}:{% ifchanged k %}<{{ k }}>{% endifchanged %}{% ifchanged v %}({{ v }}){% endifchanged %}{% ifchanged %}{{ k }}={{ v }}{% endifchanged %};{% endfor %}"
	set, _ := newSet(emptySetFiles)
	tpl, err := set.FromString(src)
	if err != nil {
		c.Fail("reference-mismatch", D{"source": src, "compile_err": err.Error()})
		return
	}
	for run := 0; run < 2; run++ {
		out, xerr := execSpread(tpl, pongo2.Context{"m": data}, uint64(c.Idx+run))
		c.Eval(1)
		d := D{"source": src, "map": fmt.Sprintf("%T %v", data, data), "output": q(out), "error": errStr(xerr), "expected_entries_in_any_order": wantPieces}
		if xerr != nil {
			c.Fail("reference-mismatch", d)
			return
		}
		pieces := strings.Split(strings.TrimSuffix(out, ";"), ";")
		var got []string
		okCounters := len(pieces) == n
		for i, p := range pieces {
			pre := fmt.Sprintf("%d/%d:", i+1, n-i)
			if !strings.HasPrefix(p, pre) {
				okCounters = false
			}
			got = append(got, strings.TrimPrefix(p, pre))
		}
		sort.Strings(got)
		want := append([]string(nil), wantPieces...)
		sort.Strings(want)
		if !okCounters || strings.Join(got, ";") != strings.Join(want, ";") {
			d["why"] = "every entry once, with its own key and value; ifchanged on the loop variables prints for every entry; forloop counts in the order taken"
			c.Fail("reference-mismatch", d)
			return
		}
	}
	c.Cover("unsorted_map_loop_up_to_order")
	c.Nontrivial(fmt.Sprintf("unsortedmap:%d:%T", n, data))
}

func c09Run(c *C) {
	if c.Idx%50 == 41 {
		c09UnsortedMap(c)
		return
	}
	if c.Idx%200 == 77 {
		c09ManyIterations(c)
		return
	}
	if c.Idx%50 == 31 {
		c09FailingBody(c)
		return
	}
	if c.Idx%50 == 23 {
		c09SortedNumbers(c)
		return
	}
	if c.Idx%25 == 7 {
		c09Reentrant(c)
		return
	}
	if c.Idx%100 == 13 {
		c09MutatedData(c)
		return
	}
	g := &c09Gen{r: c.R}
	tree := g.body(2 + c.R.Intn(3))
	src := c09Src(tree)
	in := &cinterp{cyc: map[int]int{}, chg: map[int]*changedState{}}
	root := &cenv{vars: map[string]rv{}, cycles: map[string]*cycleState{}}
	for k, v := range c09Vars {
		root.vars[k] = v
	}
	in.run(tree, root)
	want := in.out.String()
	var out string
	var cerr, xerr error
	if c.R.Chance(25) {
		// "within one fresh render": an execution of the same compiled template that failed at its very end (after all
		// loops, cycles and ifchanged tags ran) went before; the render that follows starts from scratch all the same
		src += "{{ mf() }}"
		set, _ := newSet(emptySetFiles)
		var tpl *pongo2.Template
		tpl, cerr = set.FromString(src)
		if cerr == nil {
			ctx := c09Ctx()
			ctx["mf"] = func() (string, error) { return "", errors.New("c09: deliberate failure at the end") }
			if _, ferr := tpl.Execute(ctx); ferr == nil {
				c.Fail("reference-mismatch", D{"source": q(src), "why": "the failing function's error was lost"})
				return
			}
			ctx["mf"] = func() (string, error) { return "", nil }
			out, xerr = tpl.Execute(ctx)
			c.Eval(1)
			c.Cover("render_after_failed_render")
		}
	} else {
		out, cerr, xerr = renderString(src, c09Ctx())
	}
	c.Eval(1)
	if cerr != nil || xerr != nil || out != want {
		c.Fail("reference-mismatch", D{"source": q(src), "output": q(out), "expected": q(want), "compile_err": errStr(cerr), "exec_err": errStr(xerr)})
		return
	}
	// the same tree as an included file that ONE include tag renders several times within one execution (a partial used for
	// every row): every rendering of the partial is a fresh render - its cycles start at their first argument, its
	// ifchanged tags have seen nothing yet
	if c.R.Chance(15) && !strings.Contains(src, "mf()") {
		files := map[string]string{"/part.tpl": src, "/main.tpl": "{% macro inc() %}{% include \"/part.tpl\" %}{% endmacro %}{{ inc() }}|{{ inc() }}|{{ inc() }}|{% include \"/part.tpl\" %}|{% ssi \"/part.tpl\" parsed %}"}
		iset, _ := newSet(files)
		itpl, ierr := iset.FromFile("/main.tpl")
		var iout string
		if ierr == nil {
			iout, ierr = execSpread(itpl, c09Ctx(), uint64(c.Idx))
		}
		c.Eval(1)
		iwant := want + "|" + want + "|" + want + "|" + want + "|" + want
		if ierr != nil || iout != iwant {
			c.Fail("reference-mismatch", D{"files": files, "output": q(iout), "expected": q(iwant), "error": errStr(ierr), "why": "the tree is a partial that one include tag (inside a macro called three times) renders three times, then included and ssi-parsed once more: every rendering starts fresh"})
			return
		}
		c.Cover("tree_as_partial_rendered_repeatedly")
	}
	for _, t := range []string{"{% for", "{% if", "{% cycle", "{% ifchanged", "{% firstof", "{% ifequal", "{% ifnotequal", "{% empty", "{% elif", "reversed", "sorted", "Parentloop", " as cy", "silent"} {
		if strings.Contains(src, t) {
			c.Cover(strings.Trim(t, "{% "))
		}
	}
	for _, t := range []string{"{% with", "{% autoescape", "{% block"} {
		if strings.Contains(src, t) && strings.Contains(src, "{% for") {
			c.Cover("loop_with_transparent_wrapper_" + strings.Trim(t, "{% "))
		}
	}
	if strings.Contains(src, "{% for") || strings.Contains(src, "{% if") {
		c.Nontrivial(src)
	}
	if c.WantSample() && len(src) < 260 && strings.Contains(src, "{% for") && strings.Contains(src, "cycle") {
		c.Sample(D{"source": q(src), "output": q(out)})
	}
}

func init() {
	register(&Prop{
		ID: "C09",
		Cases: func(tier string) int {
			if tier == "thorough" {
				return 1500000
			}
			return 240000
		},
		Run: c09Run,
		Rule: "random nestings (depth <= 4) of if/elif/else, ifequal, ifnotequal, firstof, for (+empty, reversed, sorted, key/value over maps with sorted), forloop.Counter/Counter0/Revcounter/Revcounter0/First/Last and Parentloop chains, cycle (plain, as name, as name silent, {% cycle name %}), ifchanged (content form and watched values, with else) over lists, strings (multi-byte), maps, nil, empty and non-iterable values; " +
			"each program is rendered on a fresh compile and compared byte for byte with an independent reference interpreter of the generated tree (per-render, per-tag cycle counters; ifchanged against the previous execution of the tag; autoescaped printing). One case in 25 is a re-entrant loop: a macro (local or imported) that walks a random tree of depth <= 4 with a for loop and calls itself from the loop body, printing every forloop field before and after the recursive call and a cycle tag, rendered twice. distinct_nontrivial = distinct programs containing a loop or a branch.",
		MinNontriv:  5000,
		Assumptions: []string{"maps are iterated with 'sorted' only", "ifchanged is generated outside loops or in a loop that is not nested in another loop (Django resets per parent iteration, pongo2 does not: unspecified)", "ifequal operands are scalars; values of different kinds compare unequal"},
	})
}
