package main

import (
	"fmt"
	"regexp"
	"sort"
)

var reNorm = regexp.MustCompile(`Line \d+ Col \d+ near '[^']*'|'[^']*'|\d+`)

var diagExprOnly = false

func gendiag() {
	c01Init()
	counts := map[string]int{}
	ex := map[string]string{}
	for i := 0; i < 4000; i++ {
		r := newRng(1, "diag", "q", i)
		g := newGen(r, GenOpts{Filters: c01Filters, OptOutFree: true, PlainText: true, MaxDepth: 4, ErrorRate: 0, CtxVars: c02CtxVars})
		main, files := g.program()
		if diagExprOnly {
			main, files = "{{ "+g.expr(3)+" }}", map[string]string{}
		}
		inc := files["#incname"]
		delete(files, "#incname")
		files["/main.tpl"] = main
		set, _ := newSet(files)
		tpl, err := set.FromFile("/main.tpl")
		key := "OK"
		if err != nil {
			key = "C: " + reNorm.ReplaceAllString(err.Error(), "#")
		} else {
			ctx := c02Ctx(false)
			ctx["incname"] = inc
			_, xerr := tpl.Execute(ctx)
			if xerr != nil {
				key = "X: " + reNorm.ReplaceAllString(xerr.Error(), "#")
			}
		}
		if len(key) > 150 {
			key = key[:150]
		}
		counts[key]++
		if ex[key] == "" {
			ex[key] = main
			if err != nil && len(main) < 400 {
				ex[key] = err.Error() + " <<< " + main
			}
		}
	}
	type kv struct {
		k string
		n int
	}
	var l []kv
	for k, n := range counts {
		l = append(l, kv{k, n})
	}
	sort.Slice(l, func(i, j int) bool { return l[i].n > l[j].n })
	for i, e := range l {
		if i > 25 {
			break
		}
		m := ex[e.k]
		if len(m) > 700 {
			m = m[:700]
		}
		fmt.Printf("%5d %s\n      %q\n", e.n, e.k, m)
	}
}
