package main

import (
	"errors"
	"fmt"
	"runtime"
	"strings"
	"sync/atomic"

	"github.com/flosch/pongo2/v6"
)

// C06 - literal text, verbatim blocks and comments are reproduced exactly.

var c06Alphabet = []string{"{", "}", "%", "#", "-", " ", "\n", "\"", "'", "\\", "a", "1", "|", "\x00", "\x01", "\xff", "é"}

const c06Batch = 4096

func c06MaxLen(tier string) int {
	if tier == "thorough" {
		return 6
	}
	return 5
}

func c06EnumTotal(tier string) int {
	n, pw := 0, 1
	for l := 0; l <= c06MaxLen(tier); l++ {
		n += pw
		pw *= len(c06Alphabet)
	}
	return n
}

func c06EnumString(i int) string {
	// index -> string: lengths in increasing order
	pw := 1
	l := 0
	for i >= pw {
		i -= pw
		pw *= len(c06Alphabet)
		l++
	}
	var sb strings.Builder
	for k := 0; k < l; k++ {
		sb.WriteString(c06Alphabet[i%len(c06Alphabet)])
		i /= len(c06Alphabet)
	}
	return sb.String()
}

func hasOpener(s string) bool {
	return strings.Contains(s, "{{") || strings.Contains(s, "{%") || strings.Contains(s, "{#")
}

func c06EnumBatches(tier string) int { return (c06EnumTotal(tier) + c06Batch - 1) / c06Batch }

func c06RandomCases(tier string) int {
	if tier == "thorough" {
		return 500000
	}
	return 72000
}

var c06Boom int64

func c06Ctx() pongo2.Context {
	return pongo2.Context{
		"v":    "val",
		"n":    7,
		"t":    true,
		"l":    []int{1, 2, 3},
		"boom": func() string { atomic.AddInt64(&c06Boom, 1); return "BOOM" },
		"fail": func() (string, error) { return "", errors.New("c06 failing function") },
	}
}

// random bytes without an opening delimiter
func c06RandText(r *Rng, maxLen int) string {
	n := r.Intn(maxLen + 1)
	b := make([]byte, 0, n)
	pool := []string{"{", "}", "%", "#", "-", " ", "\n", "\r\n", "\r", "\t", "\"", "'", "\\", "a", "b", "Z", "1", "|", "\x00", "\x01", "\x02", "\x7f", "\x80", "\xff", "\xc3", "é", "日本", "😀", "<", ">", "&", "}}", "%}", "#}", "endverbatim", "verbatim"}
	for len(b) < n {
		if r.Chance(30) {
			b = append(b, byte(r.Intn(256)))
		} else {
			b = append(b, pool[r.Intn(len(pool))]...)
		}
	}
	s := string(b)
	// remove openers
	for hasOpener(s) {
		s = strings.NewReplacer("{{", "{ {", "{%", "{ %", "{#", "{ #").Replace(s)
	}
	return s
}

type c06Frag struct {
	kind  string
	src   string
	want  string // expected rendering when known independently ("" + known=false otherwise)
	known bool
}

func c06VerbatimBody(r *Rng) string {
	pool := []string{"{{", "}}", "{%", "%}", "{#", "#}", " ", "\n", "x", "{{ v }}", "{% if %}", "{% endif %}", "{# c #}", "{% verbatim %}", "{% endverbatim", "endverbatim %}", "{%- -%}", "\x01", "\xff", "é", "{", "%", "{% comment %}", "\"", "'"}
	n := r.Intn(7)
	if r.Chance(15) {
		return r.Pick([]string{"%}", "{%", "{{", "}}", "{#", "#}", "-%}", "{%-"}) // a body that reads like a delimiter
	}
	var sb strings.Builder
	for i := 0; i < n; i++ {
		sb.WriteString(pool[r.Intn(len(pool))])
	}
	s := sb.String()
	for strings.Contains(s, "{% endverbatim %}") {
		s = strings.Replace(s, "{% endverbatim %}", "{% endverbatim  %}", -1)
	}
	return s
}

func c06CommentTagBody(r *Rng) string {
	// lexable, but full of things that must never be parsed or evaluated
	pool := []string{"text ", "{{ boom() }}", "{{ v|nosuchfilter }}", "{% nosuchtag %}", "{% if %}", "{% endfor %}", "{{ 1 + }}", "{{ boom()|upper }}",
		"{% include \"missing.tpl\" %}", "{% extends \"missing.tpl\" %}", "{% for %}", "{{ ( }}", "{% endif %}", "{# inner #}", "\n", "{% else %}", "{% block b %}", "{{ boom(boom()) }}"}
	n := r.Intn(6)
	var sb strings.Builder
	for i := 0; i < n; i++ {
		sb.WriteString(pool[r.Intn(len(pool))])
	}
	return sb.String()
}

func c06LineComment(r *Rng) string {
	pool := []string{" ", "c", "{{ boom() }}", "{% nosuchtag %}", "{{", "}}", "{%", "%}", "{#", "#", "}", "\"", "'", "\\", "\x01", "é", "{{ 1 +", "-"}
	n := r.Intn(6)
	var sb strings.Builder
	for i := 0; i < n; i++ {
		sb.WriteString(pool[r.Intn(len(pool))])
	}
	s := strings.Replace(sb.String(), "#}", "# }", -1)
	return s
}

var c06TemplateTags = map[string]string{
	"openblock": "{%", "closeblock": "%}", "openvariable": "{{", "closevariable": "}}",
	"openbrace": "{", "closebrace": "}", "opencomment": "{#", "closecomment": "#}",
}
var c06TemplateTagNames = []string{"openblock", "closeblock", "openvariable", "closevariable", "openbrace", "closebrace", "opencomment", "closecomment"}

// c06WsCtl: a delimiter with `-` markers between two texts. A marker trims the whitespace (" \n\r\t") of the text it
// touches and nothing else: a comment / verbatim block further away, and the text behind it, keep every byte.
func c06WsCtl(r *Rng) c06Frag {
	ws := func() string {
		return r.Pick([]string{"", " ", "  ", "\n", " \n\t ", "\r\n", "\t"})
	}
	const cut = " \n\r\t"
	t1 := strings.TrimRight(c06RandText(r, 6), "{") + r.Pick([]string{"a", "Z", "}", "-", "é"}) + ws()
	t2 := ws() + r.Pick([]string{"b", "1", "%", "-", "日"}) + strings.TrimRight(c06RandText(r, 6), "{")
	type core struct {
		src, out string
		l, rt    bool
	}
	cores := []core{{"{{- v }}", "val", true, false}, {"{{ v -}}", "val", false, true}, {"{{- v -}}", "val", true, true}, {"{{- n + 1 -}}", "8", true, true},
		{"{%- if t %}y{% endif -%}", "y", true, true}, {"{%- if t -%} y {%- endif %}", "y", true, false}, {"{% if t -%}\n y \n{%- endif -%}", "y", false, true},
		{"{%- for i in l -%} {{ i }} {%- endfor -%}", "123", true, true}, {"{%- templatetag openbrace -%}", "{", true, true}}
	k := cores[r.Intn(len(cores))]
	w1, w2 := t1, t2
	if k.l {
		w1 = strings.TrimRight(t1, cut)
	}
	if k.rt {
		w2 = strings.TrimLeft(t2, cut)
	}
	src, want := t1+k.src+t2, w1+k.out+w2
	// something the lexer swallows without a token (or a verbatim body) right behind / before the touched text,
	// followed / preceded by text that starts / ends with whitespace
	if r.Chance(60) {
		switch r.Intn(3) {
		case 0:
			tail := r.Pick([]string{" ", "  ", "\n", "\t "}) + "t" + ws()
			src, want = src+"{# c #}"+tail, want+tail
		case 1:
			b := r.Pick([]string{" ", "  ", "\n", "\t "}) + r.Pick([]string{"{{ raw }}", "x", "{% if %}", ""}) + ws()
			src, want = src+"{% verbatim %}"+b+"{% endverbatim %}", want+b
		default:
			tail := ws() + "t"
			src, want = src+"{#{{ boom() }}#}{# #}"+tail, want+tail
		}
	}
	if r.Chance(60) {
		switch r.Intn(2) {
		case 0:
			head := ws() + "h" + r.Pick([]string{" ", "  ", "\n", "\t "})
			src, want = head+"{# c #}"+src, head+want
		default:
			b := ws() + r.Pick([]string{"{{ raw }}", "x", "-%}", ""}) + r.Pick([]string{" ", "  ", "\n", "\t "})
			src, want = "{% verbatim %}"+b+"{% endverbatim %}"+src, b+want
		}
	}
	return c06Frag{"wsctl", src, want, true}
}

func c06GenFrag(r *Rng) c06Frag {
	if r.Chance(8) {
		return c06WsCtl(r)
	}
	switch r.Intn(9) {
	case 0, 1, 2:
		t := c06RandText(r, 12)
		if r.Chance(12) {
			// text that reads like a closing delimiter, or whitespace the block options care about
			t = r.Pick([]string{"%}", "}}", "#}", "-%}", "\n", " \t", "\nx", "x \t", "\n\n", "  "})
		}
		for strings.HasSuffix(t, "{") {
			t = t[:len(t)-1]
		}
		return c06Frag{"text", t, t, true}
	case 3:
		b := c06VerbatimBody(r)
		return c06Frag{"verbatim", "{% verbatim %}" + b + "{% endverbatim %}", b, true}
	case 4:
		return c06Frag{"linecomment", "{#" + c06LineComment(r) + "#}", "", true}
	case 5:
		// (the end tag may carry arguments - nobody reads them - also strings that spell a delimiter)
		endArgs := r.Pick([]string{"", "", "", " x", " \"%}\"", " \"}}\" y", " \"a b\" 1", " \"{%\"", " '%}'", " -"})
		return c06Frag{"commenttag", "{% comment %}" + c06CommentTagBody(r) + "{% endcomment" + endArgs + " %}", "", true}
	case 6:
		name := c06TemplateTagNames[r.Intn(8)]
		return c06Frag{"templatetag", "{% templatetag " + name + " %}", c06TemplateTags[name], true}
	case 7:
		vs := []string{"{{ v }}", "{{ n }}", "{{ n + 1 }}", "{{ v|upper }}", "{{ \"lit\" }}", "{{ missing }}"}
		return c06Frag{"variable", vs[r.Intn(len(vs))], "", false}
	default:
		bs := []string{"{% if t %}yes{% else %}no{% endif %}", "{% for i in l %}{{ i }},{% endfor %}", "{% if missing %}a{% endif %}",
			"{% with x=n %}[{{ x }}]{% endwith %}", "{% spaceless %}<a> <b>{% endspaceless %}", "{% filter upper %}abc{% endfilter %}"}
		return c06Frag{"tagblock", bs[r.Intn(len(bs))], "", false}
	}
}

// c06HugeFile: a delimiter-free file of 16, 32 or 48 MiB (and a few bytes) renders to itself - as the template itself and
// included - and nothing is cut off silently (one such case per quick run, three per thorough run).
func c06HugeFile(c *C) {
	nb := c06EnumBatches(c.Tier)
	size := []int{48<<20 + 5, 32<<20 + 28, 16<<20 + 1}[(c.Idx-nb-1)%3] // the quick tier renders the largest one
	unit := "line of literal text, no delimiters: } % # { - \n"
	big := strings.Repeat(unit, size/len(unit)+1)[:size-3] + "END"
	set, _ := newSet(map[string]string{"/huge.txt": big, "/inc.tpl": `{% include "/huge.txt" %}`})
	for _, name := range []string{"/huge.txt", "/inc.tpl"} {
		tpl, err := set.FromFile(name)
		var out string
		if err == nil {
			out, err = tpl.Execute(nil)
		}
		c.Eval(1)
		if err != nil || out != big {
			first := 0
			for first < len(out) && first < len(big) && out[first] == big[first] {
				first++
			}
			c.Fail("identity-via-route", D{"route": name, "file_bytes": len(big), "output_bytes": len(out), "first_difference_at": first, "error": errStr(err)})
			return
		}
	}
	c.Cover(fmt.Sprintf("huge_file_%d_MiB", size>>20))
	c.Nontrivial(fmt.Sprintf("huge:%d", size))
}

// c06ParkWriter: the caller's writer; its k-th Write waits (after having taken a copy of the bytes it was given at the
// time of the call: a slow network connection reads them while other requests are served).
type c06ParkWriter struct {
	got     []byte
	calls   int
	parkAt  int
	entered chan struct{}
	release chan struct{}
	late    []byte // the bytes of the parked call as they are when the writer finally consumes them
}

func (w *c06ParkWriter) Write(p []byte) (int, error) {
	w.calls++
	if w.calls == w.parkAt {
		close(w.entered)
		<-w.release
		w.late = append([]byte(nil), p...) // consumed only now: p is the writer's until Write returns
	}
	w.got = append(w.got, p...)
	return len(p), nil
}

// c06SlowWriter: one rendering is streamed (ExecuteWriterUnbuffered) into a writer that is slow to take a chunk; while
// it waits, other templates with literal texts of their own are rendered on the same OS thread. Every rendering
// delivers exactly its own texts.
func c06SlowWriter(c *C) {
	r := c.R
	old := runtime.GOMAXPROCS(1)
	defer runtime.GOMAXPROCS(old)
	t1, t2, t3 := c06RandText(r, 40)+"A", c06RandText(r, 200)+"B", c06RandText(r, 40)+"C"
	o1, o2 := strings.Repeat(r.Pick([]string{"x", "OTHER ", "\x00", "é"}), 1+r.Intn(300)), c06RandText(r, 300)+"D"
	for _, s := range []*string{&t1, &t2, &t3, &o1, &o2} {
		*s = strings.TrimRight(*s, "{")
		if *s == "" {
			*s = "z"
		}
	}
	files := map[string]string{"/main.tpl": t1 + "{% include \"/inc.tpl\" %}" + t3 + "{% include nm %}", "/inc.tpl": t2, "/o.tpl": "{% include \"/oinc.tpl\" %}" + o1 + "{% include onm %}{% include \"/oinc.tpl\" %}", "/oinc.tpl": o2}
	set, _ := newSet(files)
	tplA, errA := set.FromFile("/main.tpl")
	tplB, errB := set.FromFile("/o.tpl")
	if errA != nil || errB != nil {
		c.Fail("identity", D{"files": files, "compile_err": errStr(errA) + errStr(errB)})
		return
	}
	wantA, wantB := t1+t2+t3+t2, o2+o1+o2+o2
	w := &c06ParkWriter{parkAt: 1 + r.Intn(4), entered: make(chan struct{}), release: make(chan struct{})}
	done := make(chan error, 1)
	go func() { done <- tplA.ExecuteWriterUnbuffered(pongo2.Context{"nm": "/inc.tpl"}, w) }()
	parked := true
	select {
	case <-w.entered:
	case e := <-done: // fewer Write calls than parkAt: nothing to overlap with, the output is still checked
		parked = false
		done <- e
	}
	for k := 0; k < 3 && parked; k++ {
		out, xerr := c01Exec(tplB, pongo2.Context{"onm": "/oinc.tpl"}, r.Intn(4))
		c.Eval(1)
		if xerr != nil || out != wantB {
			close(w.release)
			<-done
			c.Fail("identity", D{"files": files, "rendered": "/o.tpl while a streamed rendering of /main.tpl waited in its writer", "output": q(out), "expected": q(wantB), "error": errStr(xerr)})
			return
		}
	}
	if parked {
		close(w.release)
	}
	xerr := <-done
	c.Eval(1)
	if xerr != nil || string(w.got) != wantA {
		c.Fail("identity", D{"files": files, "rendered": "/main.tpl through ExecuteWriterUnbuffered into a writer whose Write call number " + fmt.Sprint(w.parkAt) + " waited while /o.tpl was rendered three times", "writer_received": q(string(w.got)), "expected": q(wantA),
			"bytes_of_the_waiting_call_when_consumed": q(string(w.late)), "error": errStr(xerr), "why": "literal text is copied byte for byte; the bytes handed to the writer are the writer's until Write returns"})
		return
	}
	c.Cover(fmt.Sprintf("slow_writer_parked_%v", parked))
	c.Nontrivial("slowwriter:" + t2)
}

func c06Run(c *C) {
	nb := c06EnumBatches(c.Tier)
	if c.Idx < nb {
		c06RunEnum(c)
		return
	}
	if (c.Idx-nb)%50 == 17 {
		c06SlowWriter(c)
		return
	}
	if c.Idx == nb+1 || (c.Thorough() && (c.Idx == nb+2 || c.Idx == nb+3)) {
		c06HugeFile(c)
		return
	}
	r := c.R
	ctx := c06Ctx()
	switch r.Intn(4) {
	case 0:
		// (i) identity on random byte strings
		s := c06RandText(r, 200)
		if r.Intn(800) == 0 {
			// rarely a very long text: just beyond 64 KiB, 1 MiB, 4 MiB, 8 MiB
			size := []int{1<<16 + 1, 1<<20 + 1, 4<<20 + 1, 4<<20 + 4097, 8<<20 + 3}[r.Intn(5)]
			unit := c06RandText(r, 40) + "u"
			for hasOpener(unit + unit) {
				unit = strings.NewReplacer("{{", "{ {", "{%", "{ %", "{#", "{ #").Replace(unit + unit)
			}
			s = strings.Repeat(unit, size/len(unit)+1)[:size]
			s = strings.TrimRight(s, "{") + "END"
		}
		if r.Chance(5) {
			s = strings.Repeat(c06RandText(r, 40), 1+r.Intn(100))
			for hasOpener(s) {
				s = strings.NewReplacer("{{", "{ {", "{%", "{ %", "{#", "{ #").Replace(s)
			}
		}
		out, cerr, xerr := renderString(s, ctx)
		c.Eval(1)
		if cerr != nil || xerr != nil || out != s {
			c.Fail("identity", D{"source": q(s), "output": q(out), "compile_err": errStr(cerr), "exec_err": errStr(xerr)})
			return
		}
		if len(s) > 0 {
			// FromBytes: the caller's slice is the caller's - writing into it after compiling changes nothing
			bset, _ := newSet(emptySetFiles)
			buf := []byte(s)
			if btpl, berr := bset.FromBytes(buf); berr == nil {
				for i := range buf {
					buf[i] = 'X'
				}
				bout, bxerr := c01Exec(btpl, ctx, r.Intn(4))
				c.Eval(1)
				if bxerr != nil || bout != s {
					c.Fail("identity", D{"source": q(s), "output": q(bout), "exec_err": errStr(bxerr), "why": "compiled with FromBytes; the caller's byte slice was overwritten with X afterwards"})
					return
				}
			}
		}
		if len(s) > 0 {
			// the same through ExecuteBytes; the returned bytes are the caller's and must stay intact while other texts are rendered
			set, _ := newSet(emptySetFiles)
			if tpl, err := set.FromString(s); err == nil {
				kept, _ := tpl.ExecuteBytes(ctx)
				other := c06RandText(r, 300) + "|" + strings.Repeat("x", len(s))
				if t2, err2 := set.FromString(other); err2 == nil {
					t2.Execute(ctx)
					t2.ExecuteBytes(ctx)
				}
				c.Eval(3)
				if string(kept) != s {
					c.Fail("returned-bytes-changed-later", D{"source": q(s), "bytes_after_another_rendering": q(string(kept)), "other_source": q(other)})
					return
				}
			}
			c.Nontrivial("id:" + s)
			c.Cover("identity_random")
		}
		if c.WantSample() && len(s) > 0 && len(s) < 60 {
			c.Sample(D{"kind": "identity", "source": q(s), "output": q(out)})
		}
		if len(s) > 0 && (r.Chance(50) || len(s) > 1<<16) && !c06Routes(c, s) {
			return
		}
	default:
		// (ii)-(v) fragment sequences
		n := 1 + r.Intn(8)
		frags := make([]c06Frag, n)
		var src strings.Builder
		for i := range frags {
			frags[i] = c06GenFrag(r)
			// a seam must not create an opening delimiter
			if i > 0 && strings.HasSuffix(src.String(), "{") {
				f := frags[i].src
				if strings.HasPrefix(f, "{") || strings.HasPrefix(f, "%") || strings.HasPrefix(f, "#") {
					frags[i] = c06Frag{"text", " ", " ", true}
				}
			}
			src.WriteString(frags[i].src)
		}
		before := atomic.LoadInt64(&c06Boom)
		whole, cerr, xerr := renderString(src.String(), ctx)
		c.Eval(1)
		if cerr != nil || xerr != nil {
			c.Fail("fragments-error", D{"source": q(src.String()), "compile_err": errStr(cerr), "exec_err": errStr(xerr)})
			return
		}
		var want strings.Builder
		kinds := []string{}
		for _, f := range frags {
			kinds = append(kinds, f.kind)
			c.Cover("frag_" + f.kind)
			if f.known {
				want.WriteString(f.want)
				// the part alone must render to the same, too
				if r.Chance(30) {
					po, pc, px := renderString(f.src, ctx)
					c.Eval(1)
					if pc != nil || px != nil || po != f.want {
						c.Fail("fragment-alone", D{"kind": f.kind, "source": q(f.src), "output": q(po), "expected": q(f.want), "compile_err": errStr(pc), "exec_err": errStr(px)})
						return
					}
				}
				continue
			}
			po, pc, px := renderString(f.src, ctx)
			c.Eval(1)
			if pc != nil || px != nil {
				c.Fail("fragment-alone-error", D{"source": q(f.src), "compile_err": errStr(pc), "exec_err": errStr(px)})
				return
			}
			want.WriteString(po)
		}
		if whole != want.String() {
			c.Fail("concatenation", D{"source": q(src.String()), "output": q(whole), "expected": q(want.String()), "fragments": kinds})
			return
		}
		if atomic.LoadInt64(&c06Boom) != before {
			c.Fail("comment-evaluated", D{"source": q(src.String()), "calls": atomic.LoadInt64(&c06Boom) - before})
			return
		}
		// TrimBlocks / LStripBlocks concern text next to BLOCK TAGS only: a sequence without any block tag (text, verbatim
		// blocks, {# #} comments, variables) renders the same with the options switched on
		noBlockTag := true
		for _, f := range frags {
			if f.kind == "commenttag" || f.kind == "templatetag" || f.kind == "tagblock" || f.kind == "wsctl" {
				noBlockTag = false
			}
		}
		if noBlockTag {
			oset, _ := newSet(emptySetFiles)
			oset.Options.TrimBlocks, oset.Options.LStripBlocks = true, true
			if otpl, oerr := oset.FromString(src.String()); oerr == nil {
				oout, oxerr := otpl.Execute(ctx)
				c.Eval(1)
				if oxerr != nil || oout != whole {
					c.Fail("concatenation", D{"source": q(src.String()), "output_with_TrimBlocks_and_LStripBlocks": q(oout), "output_with_default_options": q(whole), "fragments": kinds, "why": "no block tag in the source: the options have nothing to act on", "error": errStr(oxerr)})
					return
				}
				c.Cover("options_without_block_tags")
			}
		}
		// a template compiled in a set with both options ON whose Options are then REPLACED by plain ones renders like
		// one compiled with default options (whatever tags it contains)
		{
			oset, _ := newSet(emptySetFiles)
			oset.Options.TrimBlocks, oset.Options.LStripBlocks = true, true
			if otpl, oerr := oset.FromString(src.String()); oerr == nil {
				otpl.Options = &pongo2.Options{}
				oout, oxerr := otpl.Execute(ctx)
				c.Eval(1)
				if oxerr != nil || oout != whole {
					c.Fail("concatenation", D{"source": q(src.String()), "output": q(oout), "output_with_default_options": q(whole), "fragments": kinds, "why": "compiled with TrimBlocks+LStripBlocks on the set, then tpl.Options = &pongo2.Options{} (all off)", "error": errStr(oxerr)})
					return
				}
				c.Cover("options_replaced_after_compile")
			}
		}
		// ... and a template that was EXECUTED with the options on renders like one compiled with default options as soon
		// as they are switched off again (fields changed in place, or the Options value replaced), and like its first
		// execution when they are switched on once more: what the options strip is decided per execution
		{
			oset, _ := newSet(emptySetFiles)
			if otpl, oerr := oset.FromString(src.String()); oerr == nil {
				tb, ls := r.Bool(), r.Bool()
				if !tb && !ls {
					tb = true
				}
				inPlace := r.Bool()
				otpl.Options.TrimBlocks, otpl.Options.LStripBlocks = tb, ls
				onOut, onErr := c01Exec(otpl, ctx, r.Intn(4))
				if inPlace {
					otpl.Options.TrimBlocks, otpl.Options.LStripBlocks = false, false
				} else {
					otpl.Options = &pongo2.Options{}
				}
				offOut, offErr := c01Exec(otpl, ctx, r.Intn(4))
				otpl.Options.TrimBlocks, otpl.Options.LStripBlocks = tb, ls
				on2Out, on2Err := c01Exec(otpl, ctx, r.Intn(4))
				c.Eval(3)
				if offErr != nil || offOut != whole || errStr(onErr) != errStr(on2Err) || onOut != on2Out {
					c.Fail("concatenation", D{"source": q(src.String()), "TrimBlocks": tb, "LStripBlocks": ls, "options_changed_in_place": inPlace, "output_options_on": q(onOut), "output_options_off_again": q(offOut), "output_options_on_again": q(on2Out),
						"output_with_default_options": q(whole), "fragments": kinds, "why": "one compiled template executed with the options on, off, on: off must equal a rendering with default options, the two on-renderings must be equal", "error": errStr(offErr)})
					return
				}
				c.Cover("options_toggled_between_executions")
			}
		}
		c.Nontrivial("seq:" + src.String())
		if c.WantSample() && len(src.String()) < 160 {
			c.Sample(D{"kind": "fragments", "source": q(src.String()), "output": q(whole), "fragments": kinds})
		}
	}
}

// c06Routes: literal text is copied byte for byte whichever way its file reaches the engine - as the template itself
// (memory loader, the built-in FSLoader over a file system with short reads, cache), included statically or by a
// computed name, inserted by ssi, inherited from a parent without blocks - and also when executions that failed
// half way through their output went before.
func c06Routes(c *C, s string) bool {
	r := c.R
	ctx := c06Ctx()
	ctx["incname"] = "/dir/s.txt"
	big := s
	if r.Chance(20) {
		big = strings.Repeat(s, 1+r.Intn(1+70000/len(s))) // larger than common buffer and chunk sizes
		for hasOpener(big) {                              // a seam may have formed one
			big = strings.NewReplacer("{{", "{ {", "{%", "{ %", "{#", "{ #").Replace(big)
		}
	}
	files := map[string]string{
		"/dir/s.txt":     big,
		"/inc.tpl":       `{% include "/dir/s.txt" %}`,
		"/dir/rel.tpl":   `{% include "s.txt" %}`,
		"/lazy.tpl":      `{% include incname %}`,
		"/ssi.tpl":       `{% ssi "/dir/s.txt" %}`,
		"/child.tpl":     `{% extends "/dir/s.txt" %}ignored{% block nosuch %}x{% endblock %}`,
		"/twice.tpl":     `{% include "/dir/s.txt" %}{% include incname %}`,
		"/bad_inc.tpl":   `{% include "/bad.tpl" %}`,
		"/bad.tpl":       "partial output " + c06RandText(r, 30) + "{{ fail() }}tail",
		"/bad_lazy.tpl":  `{% with incname="/bad.tpl" %}{% include incname %}{% endwith %}`,
		"/bad_misc.tpl":  `{% filter upper %}abc{{ fail() }}{% endfilter %}`,
		"/bad_macro.tpl": `{% macro m() %}in macro{{ fail() }}{% endmacro %}{% spaceless %}<a> {{ m() }}</a>{% endspaceless %}`,
	}
	routes := []struct {
		file string
		reps int
	}{{"/dir/s.txt", 1}, {"/inc.tpl", 1}, {"/dir/rel.tpl", 1}, {"/lazy.tpl", 1}, {"/ssi.tpl", 1}, {"/child.tpl", 1}, {"/twice.tpl", 2}}
	chunk := []int{1, 7, 64, 512, 4096, 32768}[r.Intn(6)]
	fsFiles := map[string]string{}
	for k, v := range files {
		fsFiles[strings.TrimPrefix(k, "/")] = v
	}
	memSet, _ := newSet(files)
	eofWithData := r.Bool()
	fsSet := pongo2.NewSet("chunkfs", pongo2.NewFSLoader(&chunkFS{files: fsFiles, chunk: chunk, eofWithData: eofWithData}))
	sets := []struct {
		name  string
		set   *pongo2.TemplateSet
		strip bool
	}{{"memory loader", memSet, false}, {fmt.Sprintf("FSLoader, reads of at most %d bytes, last bytes delivered together with io.EOF: %v", chunk, eofWithData), fsSet, true}}
	for round := 0; round < 2; round++ {
		for _, st := range sets {
			for _, rt := range routes {
				name := rt.file
				if st.strip {
					name = strings.TrimPrefix(name, "/")
				}
				var tpl *pongo2.Template
				var err error
				if r.Bool() {
					tpl, err = st.set.FromFile(name)
				} else {
					tpl, err = st.set.FromCache(name)
				}
				var out string
				entry := r.Intn(4)
				if err == nil {
					out, err = c01Exec(tpl, ctx, entry)
				}
				c.Eval(1)
				want := strings.Repeat(big, rt.reps)
				if err != nil || out != want {
					d := D{"route": rt.file, "loader": st.name, "entry_point": c14Entry[entry], "file_bytes": len(big), "output_bytes": len(out), "error": errStr(err), "after_failed_executions": round == 1}
					if len(big) < 400 {
						d["file"] = q(big)
						d["output"] = q(out)
					} else {
						i := 0
						for i < len(out) && i < len(want) && out[i] == want[i] {
							i++
						}
						d["first_difference_at"] = i
					}
					c.Fail("identity-via-route", d)
					return false
				}
				c.Cover("route_" + rt.file)
			}
			if round == 0 {
				// executions that fail after having produced output, through every buffering construct
				for _, bad := range []string{"/bad_inc.tpl", "/bad_lazy.tpl", "/bad_misc.tpl", "/bad_macro.tpl", "/bad.tpl"} {
					name := bad
					if st.strip {
						name = strings.TrimPrefix(name, "/")
					}
					for k := 0; k < 3; k++ {
						if tpl, err := st.set.FromFile(name); err == nil {
							if _, xerr := c01Exec(tpl, ctx, k+r.Intn(2)*2); xerr == nil {
								c.Fail("identity-via-route", D{"route": bad, "why": "the failing function's error was lost"})
								return false
							}
						}
					}
				}
			}
		}
	}
	// one template instance that first fails after having produced output and then succeeds
	files["/cond.tpl"] = `{% include "/dir/s.txt" %}{% if boomflag %}{{ fail() }}{% endif %}`
	for _, viaCache := range []bool{false, true} {
		var tpl *pongo2.Template
		var err error
		if viaCache {
			tpl, err = memSet.FromCache("/cond.tpl")
		} else {
			tpl, err = memSet.FromFile("/cond.tpl")
		}
		if err != nil {
			c.Fail("identity-via-route", D{"route": "/cond.tpl", "error": err.Error()})
			return false
		}
		ctx["boomflag"] = true
		for w := 0; w < 4; w++ {
			c01Exec(tpl, ctx, w)
		}
		ctx["boomflag"] = false
		out, xerr := c01Exec(tpl, ctx, r.Intn(4))
		c.Eval(3)
		if xerr != nil || out != big {
			c.Fail("identity-via-route", D{"route": "/cond.tpl (the same compiled template failed twice before)", "file_bytes": len(big), "output_bytes": len(out), "output_head": q(truncStr(out, 200)), "file_head": q(truncStr(big, 200)), "error": errStr(xerr)})
			return false
		}
	}
	c.Cover(fmt.Sprintf("route_chunk_%d", chunk))
	return true
}

func c06RunEnum(c *C) {
	total := c06EnumTotal(c.Tier)
	lo := c.Idx * c06Batch
	hi := lo + c06Batch
	if hi > total {
		hi = total
	}
	set, _ := newSet(emptySetFiles)
	for i := lo; i < hi; i++ {
		s := c06EnumString(i)
		tpl, err := set.FromString(s)
		c.Eval(1)
		if hasOpener(s) {
			// not in the identity fragment; still must not panic (recover in the worker) and
			// must return exactly one of template / error
			if (tpl == nil) == (err == nil) {
				c.Fail("compile-result-shape", D{"source": q(s)})
				return
			}
			continue
		}
		if err != nil {
			c.Fail("identity", D{"source": q(s), "compile_err": err.Error()})
			return
		}
		out, xerr := tpl.Execute(nil)
		if xerr != nil || out != s {
			c.Fail("identity", D{"source": q(s), "output": q(out), "exec_err": errStr(xerr)})
			return
		}
		if len(s) > 0 {
			c.Nontrivial("id:" + s)
		}
	}
	c.CoverN("identity_enumerated", hi-lo)
	if c.Idx == c06EnumBatches(c.Tier)-1 {
		c.AddExtra("enumerated_strings_max_len", int64(c06MaxLen(c.Tier)))
	}
}

func init() {
	register(&Prop{
		ID: "C06",
		Cases: func(tier string) int {
			return c06EnumBatches(tier) + c06RandomCases(tier)
		},
		Run: c06Run,
		Rule: "exhaustive: every string up to length 5 (quick) / 6 (thorough) over the 17-symbol lexer alphabet { } % # - space LF \" ' \\ a 1 | 0x00 0x01 0xff é " +
			"(strings without an opening delimiter must render to themselves; the others only have to compile-or-error without panic); " +
			"random: byte strings up to 200 bytes (4 KB repeats) without openers, and sequences of 1-8 fragments [text|verbatim|{# #}|comment tag|templatetag|variable|tag block] " +
			"whose rendering must equal the concatenation of the fragments' own renderings / known expected texts, with a counting context function inside every comment. " +
			"distinct_nontrivial = distinct non-empty opener-free strings rendered plus distinct fragment sequences.",
		MinNontriv:  1000,
		Assumptions: []string{"whitespace-control markers and TrimBlocks are excluded here (C15)", "comment-tag bodies are lexable token sequences (the lexer runs before the comment tag can skip them)"},
	})
}
