package main

import (
	"fmt"
	"sort"
	"strings"
	"sync"

	"github.com/flosch/pongo2/v6"
)

// Parked overlap: a deterministic way to make two executions of ONE compiled template overlap inside a chosen
// construct, without relying on the scheduler. Every construct below calls the context function park() somewhere
// INSIDE itself (in its body, between its arguments, in a file it pulls in). Execution A's park() waits - at its first
// call - until execution B (same compiled template, other context) has run from start to end; then A goes on. Both
// must return exactly what a fresh compile returns for their context when executed alone. State kept in the compiled
// template while a construct is "open" (a buffer on the node, an argument slice on the call site, a scratch list on the
// literal) is overwritten by B and shows in A's output - no race detector and no lucky timing needed.

type ovConstruct struct {
	fam   string
	src   string
	files map[string]string
}

var ovConstructs = []ovConstruct{
	// filter tag: the rendered body is handed to the chain (escaping filters: what comes out must be A's text, escaped)
	{"filtertag", `{% filter escape %}<{{ s }}{{ park() }}&{{ s }}>{% endfilter %}`, nil},
	{"filtertag", `{% autoescape off %}{% filter escape %}<{{ s }}{{ park() }}&{{ s }}>{% endfilter %}|{% filter escapejs %}{{ s }}{{ park() }}'{{ s }}{% endfilter %}|{% filter urlencode %}{{ s }}{{ park() }} {{ s }}{% endfilter %}{% endautoescape %}`, nil},
	{"filtertag", `{% autoescape off %}{% filter addslashes %}"{{ s }}{{ park() }}\{{ s }}{% endfilter %}|{% filter striptags %}<i>{{ s }}</i>{{ park() }}<b>{{ n }}</b>{% endfilter %}|{% filter removetags:"b" %}<b>{{ s }}</b>{{ park() }}<i>{{ n }}</i>{% endfilter %}|{% filter iriencode|safe %}{{ s }}{{ park() }} {{ s }}{% endfilter %}{% endautoescape %}`, nil},
	{"filtertag", `{% filter upper|cut:"~" %}a{{ s }}{% filter lower %}B{{ park() }}{{ s }}{% endfilter %}{{ n }}{% endfilter %}`, nil},
	{"filtertag", `{% for x in lst %}{% filter add:x %}[{{ x }}{{ park() }}{{ s }}]{% endfilter %}{% endfor %}`, nil},
	// spaceless
	{"spaceless", `{% spaceless %}<ul> <li> {{ s }} </li> {{ park() }} <li>x  y</li> </ul> {% endspaceless %}`, nil},
	{"spaceless", `{% for x in lst %}{% spaceless %}<a> {{ x }} </a> {{ park() }} <b> {{ s }}</b> {% endspaceless %}{% endfor %}`, nil},
	{"spaceless", `{% spaceless %} <p> {% spaceless %}<i> {{ s }}</i> {{ park() }} <i> </i>{% endspaceless %} </p> <p>{{ n }}</p>{% endspaceless %}`, nil},
	// includes: the nested execution's buffer
	{"include", `<{% include "/ov_inc.tpl" %}|{{ s }}>`, map[string]string{"/ov_inc.tpl": `head-{{ s }}{{ park() }}-{{ n }}-tail`}},
	{"include", `<{% include incname %}|{% include incname with n="w" %}>`, map[string]string{"/ov_inc.tpl": `head-{{ s }}{{ park() }}-{{ n }}-tail`}},
	{"include", `{% for x in lst %}<{% include "/ov_inc.tpl" with n=x %}>{% endfor %}`, map[string]string{"/ov_inc.tpl": `head-{{ s }}{{ park() }}-{{ n }}-tail`}},
	{"include", `<{% ssi "/ov_inc.tpl" parsed %}|{% include "/ov_outer.tpl" %}>`, map[string]string{"/ov_inc.tpl": `head-{{ s }}{{ park() }}-{{ n }}-tail`, "/ov_outer.tpl": `o[{% include "/ov_inc.tpl" %}]o`}},
	{"include", `<{% include "/ov_inc.tpl" with a=s b=park() c=n %}>`, map[string]string{"/ov_inc.tpl": `{{ a }}+{{ b }}+{{ c }}`}},
	// calls: the argument list of a call site
	{"call", `{{ join3(s, park(), n) }}|{{ join3(n, s, park()) }}|{{ join3(park(), s, s) }}`, nil},
	{"call", `{{ joinv(s, n, park(), s, n) }}|{{ joinv(park()) }}|{{ rec.Join(s, park(), n) }}`, nil},
	{"call", `{% for x in lst %}{{ join3(x, park(), s) }};{% endfor %}{{ join3(join3(s, park(), 1), join3(2, n, s), s) }}`, nil},
	{"call", `{% with w=join3(s, park(), n) %}{{ w }}{% endwith %}{% if join3(s, park(), s) == s + s %}eq{% else %}ne{% endif %}`, nil},
	// array literals and membership
	{"array", `{{ [s, park(), n]|join:"," }}|{% for x in [s, park(), n, s] %}{{ x }};{% endfor %}`, nil},
	{"array", `{% if s in [park(), s, "zz"] %}in{% else %}out{% endif %}|{% if n in [1, park(), n] %}in{% else %}out{% endif %}|{% if "nope" in [s, park(), n] %}in{% else %}out{% endif %}`, nil},
	{"array", `{{ ""|default:[s, park(), n]|join:"-" }}|{{ [[s, park()], [n]]|length }}{{ [s, [park(), n]|join:"+"]|join:"/" }}`, nil},
	// macros
	{"macro", `{% macro m(a, b="d") %}({{ a }}{{ park() }}{{ b }}{{ s }}){% endmacro %}{{ m(s) }}{{ m(n, s) }}`, nil},
	{"macro", `{% macro m(a, b="d") %}({{ a }}|{{ b }}){% endmacro %}{{ m(s, park()) }}{{ m(park(), n) }}{% macro k(a=park(), b=s) %}<{{ a }}{{ b }}>{% endmacro %}{{ k() }}`, nil},
	{"macro", `{% import "/ov_lib.tpl" lm %}{{ lm(s) }}{{ lm(n) }}`, map[string]string{"/ov_lib.tpl": `{% macro lm(a) export %}[{{ a }}{{ park() }}{{ a }}]{% endmacro %}`}},
	// inheritance
	{"block", `{% extends "/ov_base.tpl" %}{% block b %}c<{{ s }}{{ block.Super }}{{ n }}>{% endblock %}`, map[string]string{"/ov_base.tpl": `B[{% block b %}base-{{ s }}{{ park() }}-{{ n }}{% endblock %}|{% block c %}{{ s }}{% endblock %}]`}},
	{"block", `{% extends "/ov_base.tpl" %}{% block b %}c<{{ s }}{{ park() }}{{ block.Super }}{{ block.Super }}>{% endblock %}`, map[string]string{"/ov_base.tpl": `B[{% for x in lst %}{% block b %}base-{{ x }}{% endblock %}{% endfor %}]`}},
	// loops and their companions
	{"loop", `{% for x in lst %}{{ forloop.Counter }}{{ x }}{{ park() }}{% cycle "a" "b" %}{% ifchanged x %}c{% endifchanged %}{{ forloop.Revcounter }};{% endfor %}`, nil},
	{"loop", `{% for x in lst %}{% ifchanged %}{{ x }}{{ park() }}{% endifchanged %}{% cycle s park() n %}{% endfor %}|{% firstof park() s %}|{% firstof nothing park() n %}`, nil},
	{"loop", `{% for x in lst reversed %}{% for y in lst %}{{ forloop.Parentloop.Counter }}{{ y }}{{ park() }}{% endfor %}{% empty %}none{{ park() }}{% endfor %}{% ifequal s park() %}e{% else %}n{% endifequal %}{% widthratio n 3 100 %}`, nil},
	// scopes
	{"scope", `{% with a=s b=park() %}{{ a }}{{ b }}{{ n }}{% endwith %}{% set v = s|add:park() %}{{ v }}{% with a=n %}{{ a }}{{ park() }}{{ a }}{% endwith %}`, nil},
	{"scope", `{% autoescape off %}{{ s }}{{ park() }}{{ s }}{% endautoescape %}{{ s }}{% autoescape on %}{{ s }}{{ park() }}{% endautoescape %}`, nil},
	// filter chains
	{"chain", `{{ s|add:park()|upper|center:9 }}|{{ lst|join:park() }}|{{ s|default:park()|add:n }}|{{ park()|default:s|lower }}`, nil},
}

// overlapPlan: which checks run the monitor (in front of their case 1), over which families (none = all), and the
// violation kind they report for it. The constructs a property speaks about are judged by that property's check.
var overlapPlan = map[string]struct {
	kind string
	fams []string
}{
	"C04": {"history-dependent", nil},
	"C05": {"concurrent-result-differs", nil},
	"C02": {"overlapping-executions-interfere", []string{"scope", "filtertag"}},
	"C07": {"wrong-value", []string{"array"}},
	"C08": {"wrong-value", []string{"call"}},
	"C09": {"reference-mismatch", []string{"loop"}},
	"C10": {"inheritance-mismatch", []string{"block"}},
	"C11": {"composition-mismatch", []string{"include"}},
	"C12": {"scope-mismatch", []string{"scope", "loop"}},
	"C13": {"binding", []string{"macro"}},
	"C14": {"variants-disagree", nil},
	"C15": {"whitespace", []string{"spaceless"}},
	"C17": {"promise-broken", []string{"filtertag"}},
	"C19": {"precedence-or-scope", []string{"chain", "filtertag"}},
}

type ovRec struct{ P string }

func (r ovRec) Join(a, b, c *pongo2.Value) string { return r.P + a.String() + "," + b.String() + "," + c.String() }

func ovCtx(s string, lst []string, park func() string) pongo2.Context {
	return pongo2.Context{"s": s, "lst": lst, "n": len(lst), "incname": "/ov_inc.tpl", "park": park, "rec": ovRec{P: "r" + s},
		"join3": func(a, b, c *pongo2.Value) string { return a.String() + "," + b.String() + "," + c.String() },
		"joinv": func(vs ...*pongo2.Value) string {
			parts := []string{}
			for _, v := range vs {
				parts = append(parts, v.String())
			}
			return strings.Join(parts, ",")
		},
	}
}

// parkedOverlap runs every construct of the given families (all families when none is given). It reports the first
// violation through c.Fail(kind, ...) and returns false then.
func parkedOverlap(c *C, kind string, fams ...string) bool {
	want := map[string]bool{}
	for _, f := range fams {
		want[f] = true
	}
	noPark := func() string { return "" }
	lstA, lstB := []string{"1", "2", "2"}, []string{"7"}
	const sA, sB = `<A&"a">`, `'B'<b>`
	seen := map[string]int{}
	for ci, k := range ovConstructs {
		if len(want) > 0 && !want[k.fam] {
			continue
		}
		files := map[string]string{}
		for n, t := range k.files {
			files[n] = t
		}
		src := "pre:{{ s }}|" + k.src + "|post:{{ s }}{% for i in lst %}{% cycle \"x\" \"y\" %}{% endfor %}"
		files["/ov_main.tpl"] = src
		mk := func() (*pongo2.Template, error) {
			set, _ := newSet(files)
			return set.FromFile("/ov_main.tpl")
		}
		ref, err := mk()
		if err != nil {
			c.Fail("fresh-compile-failed", D{"construct": k.src, "error": err.Error()})
			return false
		}
		wantA, eA := ref.Execute(ovCtx(sA, lstA, noPark))
		ref2, _ := mk()
		wantB, eB := ref2.Execute(ovCtx(sB, lstB, noPark))
		if eA != nil || eB != nil {
			c.Fail("fresh-compile-failed", D{"construct": k.src, "error": errStr(eA) + errStr(eB), "why": "the sequential reference execution failed"})
			return false
		}
		tpl, _ := mk()
		for variant := 0; variant < 2; variant++ {
			// variant 0: the very first executions of the compiled template overlap; variant 1: after both ran alone once
			entered, release := make(chan struct{}), make(chan struct{})
			var once sync.Once
			parkA := func() string {
				once.Do(func() { close(entered); <-release })
				return ""
			}
			type res struct {
				out string
				err error
			}
			resA := make(chan res, 1)
			entry := (ci + variant) % 4
			go func() {
				out, xerr := c01Exec(tpl, ovCtx(sA, lstA, parkA), entry)
				resA <- res{out, xerr}
			}()
			var ra res
			ended := false
			select {
			case <-entered:
			case ra = <-resA:
				ended = true // park() was never called (a branch not taken): nothing overlapped, the results must still be right
			}
			outB, errB := c01Exec(tpl, ovCtx(sB, lstB, noPark), (entry+1)%4)
			if !ended {
				close(release)
				ra = <-resA
			}
			c.Eval(2)
			if errB != nil || outB != wantB || ra.err != nil || ra.out != wantA {
				c.Fail(kind, D{"construct_family": k.fam, "source": src, "files": k.files, "first_executions_of_the_template": variant == 0,
					"why": "two overlapping executions of ONE compiled template: the first waits inside park() - i.e. inside the construct - while the second runs from start to end, then goes on; each must return what it returns alone",
					"first_execution": D{"out": q(truncStr(ra.out, 400)), "err": errStr(ra.err), "alone": q(truncStr(wantA, 400))},
					"second_execution": D{"out": q(truncStr(outB, 400)), "err": errStr(errB), "alone": q(truncStr(wantB, 400))}})
				return false
			}
			if !ended {
				seen[k.fam]++
			}
		}
		c.Nontrivial("parked-overlap:" + k.src)
	}
	fs := []string{}
	total := 0
	for f, n := range seen {
		fs = append(fs, fmt.Sprintf("%s=%d", f, n))
		total += n
		c.Cover("parked_overlap_inside_" + f)
	}
	sort.Strings(fs)
	c.AddExtra("parked_overlaps_observed", int64(total))
	if total == 0 {
		c.Fail("fresh-compile-failed", D{"why": "no execution ever reached park(): the parked-overlap monitor observed nothing", "families": fams})
		return false
	}
	return true
}
