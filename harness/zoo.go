package main

import (
	"errors"
	"fmt"
	"math"
	"strings"
	"time"

	"github.com/flosch/pongo2/v6"
)

// The value zoo: the universe of context values of C01 (also used by C02, C04, C05, C08).
// All harness functions and methods are total (they never panic) and pure.

type ZInner struct {
	Title string
	Count int
	Tags  []string
}

type ZS struct {
	Name   string
	hidden string
	Num    int
	F      float64
	Ok     bool
	L      []int
	SL     []string
	M      map[string]string
	IM     map[int]string
	In     ZInner
	P      *ZS
	Any    any
	T      time.Time
	Fn     func(int) int
	NilP   *ZInner
	Iface  fmt.Stringer
}

func (z ZS) Hello() string { return "hello " + z.Name }
func (z *ZS) PHello() string {
	if z == nil {
		return "nil-receiver"
	}
	return "phello " + z.Name
}
func (z ZS) Add(a, b int) int       { return a + b }
func (z ZS) Fail() (string, error)  { return "", errors.New("zoo failure") }
func (z ZS) OkErr() (string, error) { return z.Name, nil }
func (z ZS) Variadic(xs ...int) int {
	s := 0
	for _, x := range xs {
		s += x
	}
	return s
}
func (z ZS) TakesValue(v *pongo2.Value) string { return "v:" + v.String() }
func (z ZS) Self() ZS                          { return z }
func (z ZS) Ptr() *ZS                          { return &z }
func (z ZS) NilPtr() *ZS                       { return nil }
func (z ZS) Two() (int, int)                   { return 1, 2 }

type ZEmbed struct {
	ZS
	Extra string
}

type ZStr string

func (s ZStr) String() string { return "ZStr(" + string(s) + ")" }

type ZPStr struct{ V string }

func (p *ZPStr) String() string {
	if p == nil {
		return "nil-ZPStr"
	}
	return p.V
}

type ZKey string

// ZEmbNil promotes the fields of two embedded pointers to method-less structs (a method promoted through a nil
// pointer would panic inside the method itself - not the engine's doing); at least one of them is nil in the zoo
type ZEmbNil struct {
	*ZInner
	*ZPlain
	Own string
}

type ZPlain struct {
	Name string
	B    string
	Num  int
	L    []string
}

type ZAnyHolder struct {
	A any
	B string
}

type zooEntry struct {
	name string
	val  any
	desc string
}

// zooContext builds the standard zoo. s is a string used for all string leaves (so that
// callers can plant markers); pass "" for the default.
func zooEntries(s string) []zooEntry {
	if s == "" {
		s = "str<&'\">é"
	}
	inner := ZInner{Title: s, Count: 3, Tags: []string{s, "t2"}}
	zs := ZS{Name: s, hidden: "hidden-" + s, Num: 42, F: 2.5, Ok: true, L: []int{1, 2, 3}, SL: []string{s, "b"},
		M: map[string]string{"k": s, "Name": "mapname"}, IM: map[int]string{1: s, 2: "two"}, In: inner,
		Any: s, T: time.Date(2024, 2, 29, 13, 14, 15, 0, time.UTC), Fn: func(i int) int { return i * 2 }, Iface: ZStr(s)}
	zs.P = &ZS{Name: "inner-" + s, Num: 7}
	var nilZS *ZS
	var nilPStr *ZPStr
	var nilMap map[string]int
	var nilSlice []string
	var nilFunc func() string
	var nilIface fmt.Stringer
	var nilErr error
	arr := [3]int{10, 20, 30}
	arrS := [2]string{s, "y"}
	es := []zooEntry{
		{"z_nil", nil, "nil"},
		{"z_str", s, "string"},
		{"z_empty", "", "empty string"},
		{"z_ascii", "plain ascii text 123", "ascii string"},
		{"z_multi", "日本語 テキスト 😀 é", "multi-byte string"},
		{"z_badutf", "bad\xff\xfeutf\xc3", "invalid UTF-8 string"},
		{"z_badhtml1", "<b>bold</b\xff> tail <i>x</i\xc3", "invalid UTF-8 inside closing tags"},
		{"z_badhtml2", "<a\xff href='x'>t</\xfea> &amp\xff; </\ufffdb> <p\xe2\x82>", "invalid UTF-8 inside opening tags, closing tags and entities"},
		{"z_mburl", "www." + strings.Repeat("日本語", 20) + ".jp and http://é" + strings.Repeat("ü", 40) + ".example/" + strings.Repeat("ß", 30) + " mail@" + strings.Repeat("ö", 25) + ".de", "URLs and an e-mail address made of many multi-byte characters"},
		{"z_badhtml3", "</\xff", "unterminated closing tag ending in an invalid byte"},
		{"z_numstr", "42", "numeric string"},
		{"z_hiddenkey", "hidden", "name of an unexported field"},
		{"z_floatstr", "-3.75", "float string"},
		{"z_long", string(make([]byte, 300)) + s, "long string with NULs"},
		{"z_int", 42, "int"},
		{"z_zero", 0, "int zero"},
		{"z_neg", -7, "negative int"},
		{"z_int8", int8(-128), "int8 min"},
		{"z_int16", int16(32767), "int16 max"},
		{"z_int32", int32(math.MinInt32), "int32 min"},
		{"z_int64", int64(math.MaxInt64), "int64 max"},
		{"z_minint", math.MinInt64, "int min"},
		{"z_uint", uint(7), "uint"},
		{"z_uint8", uint8(255), "uint8 max"},
		{"z_uint16", uint16(65535), "uint16"},
		{"z_uint32", uint32(math.MaxUint32), "uint32 max"},
		{"z_uint64", uint64(math.MaxUint64), "uint64 max"},
		{"z_f32", float32(1.5), "float32"},
		{"z_f64", 2.75, "float64"},
		{"z_fzero", 0.0, "float zero"},
		{"z_fneg", -0.5, "negative float"},
		{"z_fbig", 1e300, "huge float"},
		{"z_ftiny", 5e-324, "denormal float"},
		{"z_nan", math.NaN(), "NaN"},
		{"z_inf", math.Inf(1), "+Inf"},
		{"z_ninf", math.Inf(-1), "-Inf"},
		{"z_true", true, "true"},
		{"z_false", false, "false"},
		{"z_ints", []int{3, 1, 2}, "[]int"},
		{"z_strs", []string{s, "b", "a"}, "[]string"},
		{"z_anys", []any{1, s, nil, 2.5, []int{1}}, "[]any"},
		{"z_emptysl", []int{}, "empty slice"},
		{"z_nilsl", nilSlice, "nil slice"},
		{"z_structs", []ZInner{inner, {Title: "second"}}, "[]struct"},
		{"z_ptrs", []*ZS{&zs, nil}, "[]*struct with nil"},
		{"z_arr", arr, "array value (not addressable)"},
		{"z_parr", &arr, "pointer to array"},
		{"z_arrs", arrS, "array of strings"},
		{"z_map", map[string]any{"a": 1, "b": s, "c": nil, "d": []int{1, 2}}, "map[string]any"},
		{"z_mapss", map[string]string{"x": s, s: "keyed-by-s"}, "map[string]string"},
		{"z_imap", map[int]string{1: s, 2: "two"}, "map[int]string"},
		{"z_fmap", map[float64]string{1.5: s}, "map[float64]string"},
		{"z_bmap", map[bool]int{true: 1}, "map[bool]int"},
		{"z_kmap", map[ZKey]int{"a": 1}, "map[named string]int"},
		{"z_nilmap", nilMap, "nil map"},
		{"z_emptymap", map[string]int{}, "empty map"},
		{"z_struct", zs, "struct value"},
		{"z_pstruct", &zs, "pointer to struct"},
		{"z_embed", ZEmbed{ZS: zs, Extra: s}, "struct with embedded struct"},
		{"z_nilp", nilZS, "typed nil pointer"},
		{"z_ppstruct", func() **ZS { p := &zs; return &p }(), "pointer to pointer"},
		{"z_stringer", ZStr(s), "fmt.Stringer (value receiver)"},
		{"z_pstringer", &ZPStr{V: s}, "fmt.Stringer (pointer receiver)"},
		{"z_nilpstringer", nilPStr, "nil pointer Stringer"},
		{"z_niliface", nilIface, "nil interface"},
		{"z_time", time.Date(2023, 1, 2, 3, 4, 5, 6, time.UTC), "time.Time"},
		{"z_ptime", func() *time.Time { t := time.Date(2023, 1, 2, 3, 4, 5, 6, time.UTC); return &t }(), "*time.Time"},
		{"z_dur", 90 * time.Second, "time.Duration"},
		{"z_err", errors.New("an error value " + s), "error value"},
		{"z_nilerr", nilErr, "nil error"},
		{"z_value", pongo2.AsValue(s), "*pongo2.Value (unsafe)"},
		{"z_safevalue", pongo2.AsSafeValue("safe-" + "text"), "*pongo2.Value (safe)"},
		{"z_valuenil", pongo2.AsValue(nil), "*pongo2.Value(nil)"},
		{"z_anyarr", [2]any{[]int{1}, 2}, "array of interfaces holding an uncomparable value"},
		{"z_anyholder", ZAnyHolder{A: []int{1}, B: s}, "comparable struct type holding an uncomparable dynamic value"},
		{"z_anymap", map[any]int{1: 1, "a": 2, 2.5: 3}, "map[any]int"},
		{"z_nilvalueptr", (*pongo2.Value)(nil), "nil *pongo2.Value"},
		{"z_slicekeyarr", [1]any{[]int{1}}, "comparable array type holding an unhashable value"},
		{"z_embnil", ZEmbNil{Own: s}, "struct whose embedded pointers (promoting Title, Count, Tags, Name ...) are nil"},
		{"z_pembnil", &ZEmbNil{ZInner: &ZInner{Title: s}, Own: s}, "pointer to a struct with one nil and one non-nil embedded pointer"},
		{"z_chan", make(chan int), "channel"},
		{"z_complex", complex(1, 2), "complex"},
		{"z_rune", 'x', "rune"},
		{"z_bytes", []byte("by" + "tes"), "[]byte"},
		// functions
		{"f_none", func() string { return s }, "func() string"},
		{"f_int", func(i int) int { return i + 1 }, "func(int) int"},
		{"f_str2", func(a, b string) string { return a + b }, "func(string,string) string"},
		{"f_any", func(a any) any { return a }, "func(any) any"},
		{"f_variadic", func(xs ...int) int { return len(xs) }, "func(...int) int"},
		{"f_value", func(v *pongo2.Value) *pongo2.Value { return pongo2.AsValue(v.String() + "!") }, "func(*Value) *Value"},
		{"f_values", func(vs ...*pongo2.Value) *pongo2.Value { return pongo2.AsValue(len(vs)) }, "func(...*Value) *Value"},
		{"f_ctx", func(ctx *pongo2.ExecutionContext) string { return "ctx" }, "func(*ExecutionContext) string"},
		{"f_ctxarg", func(ctx *pongo2.ExecutionContext, i int) int { return i }, "func(*ExecutionContext,int) int"},
		{"f_ctx3", func(ctx *pongo2.ExecutionContext, a, b, c string) string { return a + "-" + b + "-" + c }, "func(*ExecutionContext, string, string, string) string"},
		{"f_ctx5", func(ctx *pongo2.ExecutionContext, a string, b, c, d, e int) string { return fmt.Sprint(a, b, c, d, e) }, "func(*ExecutionContext, string, int x4) string"},
		{"f_ctxv", func(ctx *pongo2.ExecutionContext, xs ...int) int { return len(xs) }, "func(*ExecutionContext, ...int) int"},
		{"f_err", func() (string, error) { return "", errors.New("deliberate " + s) }, "func() (string, error) failing"},
		{"f_okerr", func() (string, error) { return s, nil }, "func() (string, error) ok"},
		{"f_retnil", func() any { return nil }, "func() any returning nil"},
		{"f_retnilp", func() *ZS { return nil }, "func() *ZS returning nil"},
		{"f_retstruct", func() ZS { return zs }, "func() ZS"},
		{"f_retfunc", func() func() string { return func() string { return s } }, "func() func() string"},
		{"f_safe", func() *pongo2.Value { return pongo2.AsSafeValue("<safe>") }, "func() safe *Value"},
		{"f_retnilvalue", func() *pongo2.Value { return pongo2.AsValue(nil) }, "func() *Value(nil)"},
		{"f_retnilvalueptr", func() *pongo2.Value { return nil }, "func() *Value returning a nil pointer"},
		{"f_noresult", func() {}, "func() without result (rejected shape)"},
		{"f_three", func() (int, int, int) { return 1, 2, 3 }, "func() three results (rejected shape)"},
		{"f_badsecond", func() (int, string) { return 1, "x" }, "func() (int,string) (rejected shape)"},
		{"f_nil", nilFunc, "nil func"},
		{"f_float", func(f float64) float64 { return f * 2 }, "func(float64) float64"},
		{"f_bool", func(b bool) bool { return !b }, "func(bool) bool"},
		{"f_slice", func(xs []int) int { return len(xs) }, "func([]int) int"},
		{"f_iface", func(s fmt.Stringer) string {
			if s == nil {
				return "nil"
			}
			return s.String()
		}, "func(fmt.Stringer) string"},
		{"f_variface", func(xs ...fmt.Stringer) string { return fmt.Sprint(len(xs)) }, "func(...fmt.Stringer) string"},
		{"f_iface_variface", func(a fmt.Stringer, xs ...fmt.Stringer) string { return fmt.Sprint(a == nil, len(xs)) }, "func(fmt.Stringer, ...fmt.Stringer) string"},
		{"f_errarg", func(e error) string { return fmt.Sprint(e == nil) }, "func(error) string"},
		{"f_varerr", func(i int, es ...error) string { return fmt.Sprint(i, len(es)) }, "func(int, ...error) string"},
		{"f_varany", func(xs ...any) string { return fmt.Sprint(len(xs)) }, "func(...any) string"},
		{"f_varvalue", func(xs ...*pongo2.Value) string { return fmt.Sprint(len(xs)) }, "func(...*pongo2.Value) string"},
	}
	return es
}

func zooContext(s string) pongo2.Context {
	ctx := pongo2.Context{}
	for _, e := range zooEntries(s) {
		ctx[e.name] = e.val
	}
	return ctx
}

var zooNamesCache []string

func zooNames() []string {
	if zooNamesCache == nil {
		for _, e := range zooEntries("") {
			zooNamesCache = append(zooNamesCache, e.name)
		}
	}
	return zooNamesCache
}
