package main

import (
	"errors"
	"fmt"
	"net/url"
	"os"
	"reflect"
	"regexp"
	"runtime"
	"strings"
	"sync"
	"sync/atomic"
	"unicode/utf16"
	"unicode/utf8"

	"github.com/flosch/pongo2/v6"
)

// C17 - escaping filters neutralise exactly what they promise and lose nothing.

var c17Filters = []string{"escape", "e", "escapejs", "urlencode", "iriencode", "addslashes", "striptags", "removetags", "safe"}

var c17Small = []string{"<", ">", "&", "'", "\"", "\\", "/", "a", ";", "#", " ", "&amp", "&lt;", "&#39", "b", "r", "n"}

const c17Batch = 512

func c17SmallTotal() int {
	n, pw := 0, 1
	for l := 0; l <= 3; l++ {
		n += pw
		pw *= len(c17Small)
	}
	return n
}

func c17SmallString(i int) string {
	pw, l := 1, 0
	for i >= pw {
		i -= pw
		pw *= len(c17Small)
		l++
	}
	var sb strings.Builder
	for k := 0; k < l; k++ {
		sb.WriteString(c17Small[i%len(c17Small)])
		i /= len(c17Small)
	}
	return sb.String()
}

func c17Plan(tier string) (runeBatches, smallBatches, random int) {
	runeBatches = 0x10000 / c17Batch
	smallBatches = (c17SmallTotal() + c17Batch - 1) / c17Batch
	random = 3000
	if tier == "thorough" {
		random = 60000
	}
	return
}

var reEntityAmp = regexp.MustCompile(`&(amp;|lt;|gt;|quot;|#39;)?`)
var reEscapejsOut = regexp.MustCompile(`^([A-Za-z /]|\\u[0-9A-F]{4})*$`)
var reUrlencodeOut = regexp.MustCompile(`^[A-Za-z0-9_.~+%-]*$`)
var reCompleteTag = regexp.MustCompile(`<[^>]*>`)

const c17IRIReserved = "/#%[]=:;$&()+,!?*@'~"

func isUnreserved(r rune) bool {
	return r >= 'a' && r <= 'z' || r >= 'A' && r <= 'Z' || r >= '0' && r <= '9' || r == '-' || r == '_' || r == '.' || r == '~'
}

func htmlUnescape5(s string) string {
	return strings.NewReplacer("&amp;", "&", "&lt;", "<", "&gt;", ">", "&quot;", "\"", "&#39;", "'").Replace(s)
}

// c17Judge returns "" when the output satisfies the filter's promise for this input.
func c17Judge(filter, in, out, param string) (verdict string, judged bool) {
	switch filter {
	case "escape", "e":
		if strings.ContainsAny(out, "<>\"'") {
			return "output contains one of < > \" '", true
		}
		for _, m := range reEntityAmp.FindAllString(out, -1) {
			if m == "&" {
				return "output contains a bare &", true
			}
		}
		if htmlUnescape5(out) != in {
			return "unescaping the output does not give back the input", true
		}
		return "", true
	case "escapejs":
		if !reEscapejsOut.MatchString(out) {
			return "output leaves the promised alphabet ([A-Za-z /] and \\uXXXX)", true
		}
		if !utf8.ValidString(in) {
			return "", false
		}
		// decode the output
		var units []uint16
		var got []rune
		flush := func() {
			if len(units) > 0 {
				got = append(got, utf16.Decode(units)...)
				units = nil
			}
		}
		for i := 0; i < len(out); {
			if out[i] == '\\' {
				var u uint16
				fmt.Sscanf(out[i+2:i+6], "%04X", &u)
				units = append(units, u)
				i += 6
			} else {
				flush()
				got = append(got, rune(out[i]))
				i++
			}
		}
		flush()
		// expected characters: the input's, where the two-character sequences \r and \n stand for CR / LF (pinned by filters.tpl)
		var want []rune
		rs := []rune(in)
		for i := 0; i < len(rs); i++ {
			if rs[i] == '\\' && i+1 < len(rs) && (rs[i+1] == 'r' || rs[i+1] == 'n') {
				if rs[i+1] == 'r' {
					want = append(want, '\r')
				} else {
					want = append(want, '\n')
				}
				i++
				continue
			}
			want = append(want, rs[i])
		}
		if string(got) != string(want) {
			return fmt.Sprintf("decoded output %q differs from the input's characters %q", string(got), string(want)), true
		}
		return "", true
	case "urlencode":
		if !reUrlencodeOut.MatchString(out) {
			return "output is not query-safe", true
		}
		dec, err := url.QueryUnescape(out)
		if err != nil || dec != in {
			return "query-unescaping the output does not give back the input", true
		}
		return "", true
	case "iriencode":
		if !utf8.ValidString(in) {
			return "", false
		}
		var want strings.Builder
		for _, r := range in {
			if strings.ContainsRune(c17IRIReserved, r) || isUnreserved(r) {
				want.WriteRune(r)
			} else {
				want.WriteString(url.QueryEscape(string(r)))
			}
		}
		if out != want.String() {
			return fmt.Sprintf("expected %q", want.String()), true
		}
		// alphabet check
		for i := 0; i < len(out); i++ {
			ch := rune(out[i])
			if isUnreserved(ch) || strings.ContainsRune(c17IRIReserved, ch) || ch == '+' {
				continue
			}
			return "output character outside unreserved/reserved/%XX", true
		}
		return "", true
	case "addslashes":
		var want strings.Builder
		for i := 0; i < len(in); i++ {
			if in[i] == '\'' || in[i] == '"' || in[i] == '\\' {
				want.WriteByte('\\')
			}
			want.WriteByte(in[i])
		}
		if out != want.String() {
			return fmt.Sprintf("expected %q", want.String()), true
		}
		return "", true
	case "striptags":
		if reCompleteTag.MatchString(out) {
			return "output still contains a complete tag", true
		}
		// subsequence of the input
		j := 0
		for i := 0; i < len(in) && j < len(out); i++ {
			if in[i] == out[j] {
				j++
			}
		}
		if j != len(out) {
			return "output is not a subsequence of the input", true
		}
		// reference: drop every <...> (from a '<' to the next '>'), then trim
		var sb strings.Builder
		rest := in
		for {
			i := strings.IndexByte(rest, '<')
			if i < 0 {
				sb.WriteString(rest)
				break
			}
			k := strings.IndexByte(rest[i:], '>')
			if k < 0 {
				sb.WriteString(rest)
				break
			}
			sb.WriteString(rest[:i])
			rest = rest[i+k+1:]
		}
		if want := strings.TrimSpace(sb.String()); out != want {
			return fmt.Sprintf("expected %q", want), true
		}
		return "", true
	case "removetags":
		want := in
		for _, tag := range strings.Split(param, ",") {
			want = strings.NewReplacer("</"+tag+"/>", "", "</"+tag+">", "", "<"+tag+"/>", "", "<"+tag+">", "").Replace(want)
		}
		want = strings.TrimSpace(want)
		if out != want {
			return fmt.Sprintf("expected %q", want), true
		}
		return "", true
	case "safe":
		if out != in {
			return "safe altered its input", true
		}
		return "", true
	}
	return "", false
}

type c17Runner struct {
	tpls    map[string]*pongo2.Template
	tpls2   map[string]*pongo2.Template // the same filter inside with / for / macro regions of an autoescape-off region
	safeTpl *pongo2.Template
}

const c17SafeSrc = "{{ v|safe }}" + c17Sep + "{% firstof v|safe \"\" %}" + c17Sep + "{% cycle v|safe v|safe as c %}" + c17Sep + "{% cycle c %}" + c17Sep + "{% cycle c %}"

var errC17Writer = errors.New("c17: the caller's writer is broken")

const c17Sep = "\u27e6SEP\u27e7"

// c17Markup is a string-kinded type whose printed form differs from its underlying text
type c17Markup string

func (m c17Markup) String() string { return "<" + string(m) + ">&'" }

type c17PtrMarkup struct{ s string }

func (m *c17PtrMarkup) String() string { return m.s + "\"<p>" }

func newC17Runner() (*c17Runner, error) {
	r := &c17Runner{tpls: map[string]*pongo2.Template{}, tpls2: map[string]*pongo2.Template{}}
	set, _ := newSet(emptySetFiles)
	for _, f := range c17Filters {
		src := "{% autoescape off %}{{ v|" + f + " }}{% endautoescape %}"
		if f == "removetags" {
			src = "{% autoescape off %}{{ v|removetags:p }}{% endautoescape %}"
		}
		t, err := set.FromString(src)
		if err != nil {
			return nil, fmt.Errorf("%s: %v", src, err)
		}
		r.tpls[f] = t
		fp := f
		if f == "removetags" {
			fp = "removetags:p"
		}
		src2 := "{% autoescape off %}{% with q=1 %}{{ v|" + fp + " }}{% endwith %}" + c17Sep + "{% for i in one %}{{ v|" + fp + " }}{% endfor %}" + c17Sep +
			"{% macro m(a, p) %}{{ a|" + fp + " }}{% endmacro %}{{ m(v, p) }}" + c17Sep + "{% filter " + fp + " %}{{ v }}{% endfilter %}" + c17Sep +
			"{% macro id(a) %}{{ a }}{% endmacro %}{{ id(v)|" + fp + " }}" + c17Sep + "{% set sv = id(v) %}{{ sv|" + fp + " }}{% endautoescape %}"
		t2, err := set.FromString(src2)
		if err != nil {
			return nil, fmt.Errorf("%s: %v", src2, err)
		}
		r.tpls2[f] = t2
	}
	st, err := set.FromString(c17SafeSrc)
	if err != nil {
		return nil, fmt.Errorf("%s: %v", c17SafeSrc, err)
	}
	r.safeTpl = st
	return r, nil
}

var c17RemovetagsParams = []string{"a,b", "B", "b", "A,i", "a"}

func (r *c17Runner) check(c *C, filter, in string) bool {
	if filter == "removetags" {
		// the named tags are case-sensitive single letters; several parameter sets per input,
		// so that a result can never depend on an earlier call
		for _, p := range c17RemovetagsParams {
			if !r.checkP(c, filter, in, p) {
				return false
			}
		}
		return true
	}
	return r.checkP(c, filter, in, "")
}

func (r *c17Runner) checkP(c *C, filter, in, pstr string) bool {
	var param *pongo2.Value
	if filter == "removetags" {
		param = pongo2.AsValue(pstr)
	}
	v, err := pongo2.ApplyFilter(filter, pongo2.AsValue(in), param)
	c.Eval(1)
	if err != nil {
		c.Fail("filter-error", D{"filter": filter, "input": q(in), "error": err.Error()})
		return false
	}
	out := v.String()
	verdict, judged := c17Judge(filter, in, out, pstr)
	if !judged {
		c.Unjudged()
	} else if verdict != "" {
		c.Fail("promise-broken", D{"filter": filter, "param": pstr, "input": q(in), "output": q(out), "why": verdict, "route": "ApplyFilter"})
		return false
	}
	// template route must agree
	tout, xerr := r.tpls[filter].Execute(pongo2.Context{"v": in, "p": pstr})
	c.Eval(1)
	if xerr != nil || tout != out {
		c.Fail("routes-disagree", D{"filter": filter, "input": q(in), "ApplyFilter": q(out), "template": q(tout), "template_err": errStr(xerr)})
		return false
	}
	if c.R.Chance(12) {
		// the filter inside regions that run in child contexts of an autoescape-off region, and as a filter tag
		t2, xerr2 := r.tpls2[filter].Execute(pongo2.Context{"v": in, "p": pstr, "one": []int{1}})
		c.Eval(1)
		if want := out + c17Sep + out + c17Sep + out + c17Sep + out + c17Sep + out + c17Sep + out; xerr2 != nil || t2 != want {
			c.Fail("routes-disagree", D{"filter": filter, "input": q(in), "ApplyFilter": q(out), "with|for|macro|filter-tag|macro-result|set-macro-result under autoescape off": q(t2), "template_err": errStr(xerr2)})
			return false
		}
		// a value that Go code (or the engine: macro results, block.Super) marked safe is filtered like any other
		if sv, serr := pongo2.ApplyFilter(filter, pongo2.AsSafeValue(in), param); serr != nil || sv.String() != out {
			so := ""
			if sv != nil {
				so = sv.String()
			}
			c.Fail("promise-broken", D{"filter": filter, "input": q(in), "output_for_AsSafeValue": q(so), "output_for_AsValue": q(out), "why": "the filter treats a value marked safe differently"})
			return false
		}
		if filter == "safe" {
			// under autoescape ON: safe on the arguments of the printing tags leaves the text as it is
			if st, serr := r.safeTpl.Execute(pongo2.Context{"v": in}); serr != nil || st != in+c17Sep+in+c17Sep+in+c17Sep+in+c17Sep+in {
				c.Fail("promise-broken", D{"filter": "safe", "input": q(in), "template": c17SafeSrc, "output": q(st), "error": errStr(serr), "why": "safe returns its input unchanged: {{ v|safe }}, firstof, cycle and a named cycle advanced by name print v as it is"})
				return false
			}
		}
		// values that are not strings but print as text (a string-kinded Stringer, a pointer-receiver Stringer):
		// the filter works on the printed form
		for _, sv := range []any{c17Markup(in), &c17PtrMarkup{in}} {
			printed := sv.(fmt.Stringer).String()
			a, e1 := pongo2.ApplyFilter(filter, pongo2.AsValue(sv), param)
			b, e2 := pongo2.ApplyFilter(filter, pongo2.AsValue(printed), param)
			c.Eval(2)
			if e1 != nil || e2 != nil {
				c.Fail("filter-error", D{"filter": filter, "input": fmt.Sprintf("%T with String() = %s", sv, q(printed)), "error": fmt.Sprint(e1, e2)})
				return false
			}
			if a.String() != b.String() {
				c.Fail("promise-broken", D{"filter": filter, "input": fmt.Sprintf("%T with String() = %s", sv, q(printed)), "output": q(a.String()), "output_for_the_printed_form_as_plain_string": q(b.String()), "why": "a value that prints as text is filtered by its printed form"})
				return false
			}
			tv, xe := r.tpls[filter].Execute(pongo2.Context{"v": sv, "p": pstr})
			if xe != nil || tv != b.String() {
				c.Fail("routes-disagree", D{"filter": filter, "input": fmt.Sprintf("%T with String() = %s", sv, q(printed)), "ApplyFilter_on_printed_form": q(b.String()), "template": q(tv), "template_err": errStr(xe)})
				return false
			}
		}
		// the caller's writer breaks while the page is delivered; the next rendering is not affected
		for _, fw := range []*recWriter{{failAt: 1, err: errC17Writer}, {failAt: 1, err: errC17Writer, short: 1}} {
			r.tpls[filter].ExecuteWriter(pongo2.Context{"v": "UNDELIVERED<>&'\" tail " + in, "p": pstr}, fw)
			again, aerr := r.tpls[filter].Execute(pongo2.Context{"v": in, "p": pstr})
			c.Eval(2)
			if aerr != nil || again != out {
				c.Fail("routes-disagree", D{"filter": filter, "input": q(in), "ApplyFilter": q(out), "template_after_a_failed_delivery": q(again), "template_err": errStr(aerr)})
				return false
			}
		}
		c.Cover("child_context_routes_and_stringers")
	}
	if filter == "safe" {
		// safe must also leave non-strings alone
		for _, x := range []any{42, 1.5, true, nil, []int{1, 2}, map[string]int{"a": 1}, struct{ A int }{3}, []any{"x", 2}} {
			sv, _ := pongo2.ApplyFilter("safe", pongo2.AsValue(x), nil)
			if sv == nil || sv.String() != pongo2.AsValue(x).String() || !reflect.DeepEqual(sv.Interface(), x) {
				c.Fail("promise-broken", D{"filter": "safe", "input": fmt.Sprint(x), "why": "safe altered a non-string"})
				return false
			}
		}
	}
	return true
}

func c17RandString(r *Rng) string {
	pool := []string{"<", ">", "&", "'", "\"", "\\", "/", "a", "B", ";", "#", " ", "&amp;", "&lt;", "&gt", "&#39;", "&quot;", "<a>", "</a>", "<b>", "</b>", "<br>", "<br/>", "<a/>", "<ab>", "<A>", "</B>", "<B>", "<i>", "</i>", "<I/>", "<p class=\"x\">", "<<", ">>", "\\n", "\\r", "\\\\", "\\'", "\n", "\r", "\t", "é", "ß", "日本", "😀", "𝄞", " ", "�", "\xff", "\xc3", "\xed\xa0\x80", "%", "+", "?", "=", "x y", "%41", "~", "-", "_", ".", "@", "http://x.y/?a=b&c=d", "<script>alert(1)</script>", "\x00", "\x01"}
	n := r.Intn(12)
	var sb strings.Builder
	long := r.Intn(70) == 0
	for i := 0; i < n; i++ {
		if long && i == n/2 {
			// one very long tag (a data: URL, a long attribute) or a long run of stray brackets: sizes around every
			// plausible internal bound
			size := r.Pick2([]int{300, 999, 1000, 1001, 1024, 4095, 4097, 20000, 65535, 65537}) + r.Intn(3)
			switch r.Intn(4) {
			case 0:
				sb.WriteString("<img src=\"data:image/png;base64," + strings.Repeat(r.Pick([]string{"QUJD", "a/+9", "é", "x y"}), size/4) + "\">")
			case 1:
				sb.WriteString("<b " + strings.Repeat("x", size) + ">bold</b " + strings.Repeat(" ", size/2) + ">")
			case 2:
				sb.WriteString(strings.Repeat("<", size/8) + "a>")
			default:
				sb.WriteString("<a title='" + strings.Repeat("&", size/2) + strings.Repeat("\n", size/2) + "'>")
			}
			continue
		}
		if r.Chance(15) {
			// random rune incl. astral
			var ru rune
			if r.Chance(30) {
				ru = rune(0x10000 + r.Intn(0x100000))
			} else {
				ru = rune(r.Intn(0xD800))
			}
			sb.WriteRune(ru)
		} else {
			sb.WriteString(pool[r.Intn(len(pool))])
		}
	}
	return sb.String()
}

func c17Run(c *C) {
	if c17FirstUseFailure != nil {
		d := c17FirstUseFailure
		c17FirstUseFailure = nil
		c.Fail("promise-broken", d)
		return
	}
	rb, sb, _ := c17Plan(c.Tier)
	runner, err := newC17Runner()
	if err != nil {
		c.Fail("setup", D{"error": err.Error()})
		return
	}
	switch {
	case c.Idx < rb:
		lo := c.Idx * c17Batch
		for cp := lo; cp < lo+c17Batch; cp++ {
			var in string
			if cp >= 0xD800 && cp <= 0xDFFF {
				// surrogates cannot be encoded: use the invalid 3-byte form as an invalid-UTF-8 case
				in = string([]byte{0xED, byte(0x80 | (cp>>6)&0x3F), byte(0x80 | cp&0x3F)})
			} else {
				in = string(rune(cp))
			}
			for _, f := range c17Filters {
				if !runner.check(c, f, in) {
					return
				}
			}
			c.Nontrivial(in)
		}
		c.CoverN("bmp_runes", c17Batch)
	case c.Idx < rb+sb:
		lo := (c.Idx - rb) * c17Batch
		hi := lo + c17Batch
		if hi > c17SmallTotal() {
			hi = c17SmallTotal()
		}
		for i := lo; i < hi; i++ {
			in := c17SmallString(i)
			for _, f := range c17Filters {
				if !runner.check(c, f, in) {
					return
				}
			}
			c.Nontrivial(in)
		}
		c.CoverN("special_char_strings_len<=3", hi-lo)
	default:
		for k := 0; k < 100; k++ {
			in := c17RandString(c.R)
			for _, f := range c17Filters {
				if !runner.check(c, f, in) {
					return
				}
			}
			c.Nontrivial(in)
			if k == 0 && c.WantSample() {
				v, _ := pongo2.ApplyFilter("escapejs", pongo2.AsValue(in), nil)
				e, _ := pongo2.ApplyFilter("escape", pongo2.AsValue(in), nil)
				c.Sample(D{"input": q(in), "escape": q(e.String()), "escapejs": q(v.String())})
			}
		}
		c.CoverN("random_strings", 100)
	}
}

// c17FirstUse is the very first thing a worker process does with the filters: every filter is used for the first
// time in this process by 32 goroutines at once (tables or caches built lazily on first use must be complete before
// anyone reads them). The results are compared with sequential ones computed afterwards.
var c17FirstUseFailure D

func c17FirstUse() {
	const sample = "abcXYZ019 </script>'\"&\\/-_.~\u00e9\n"
	for _, f := range c17Filters {
		var param *pongo2.Value
		if f == "removetags" {
			param = pongo2.AsValue("b")
		}
		const n = 32
		outs := make([]string, n)
		start := make(chan struct{})
		// the first eight goroutines spin on a flag instead of sleeping on the channel, so that they really start within
		// the same microsecond (a table that takes ten microseconds to fill is the window to hit)
		var ready, gate int32
		var wg sync.WaitGroup
		for g := 0; g < n; g++ {
			wg.Add(1)
			go func(g int) {
				defer wg.Done()
				defer func() {
					if r := recover(); r != nil {
						outs[g] = fmt.Sprint("panic: ", r)
					}
				}()
				if g < 8 {
					atomic.AddInt32(&ready, 1)
					for atomic.LoadInt32(&gate) == 0 {
					}
				} else {
					<-start
				}
				v, err := pongo2.ApplyFilter(f, pongo2.AsValue(sample), param)
				if err != nil {
					outs[g] = "error: " + err.Error()
					return
				}
				outs[g] = v.String()
			}(g)
		}
		for spins := 0; atomic.LoadInt32(&ready) < 8 && spins < 1000000; spins++ {
			runtime.Gosched()
		}
		atomic.StoreInt32(&gate, 1)
		close(start)
		wg.Wait()
		want, _ := pongo2.ApplyFilter(f, pongo2.AsValue(sample), param)
		for g := 0; g < n; g++ {
			if outs[g] != want.String() && c17FirstUseFailure == nil {
				c17FirstUseFailure = D{"filter": f, "input": q(sample), "output_of_one_of_32_concurrent_first_uses": q(outs[g]), "sequential_output_afterwards": q(want.String()), "why": "the first use of the filter in this process happened on 32 goroutines at once"}
			}
		}
	}
	c17ConcurrentParams()
}

// c17ConcurrentParams: goroutines use the parameterised filter (removetags) with DIFFERENT parameters at the same
// time; each call removes the tags it names and only those. Fixed number of calls; the expected outputs are literal.
func c17ConcurrentParams() {
	const in = "<b>x</b><i>y</i><a>z</a><u>w</u><s>v</s><p>q</p>"
	letters := []string{"b", "i", "a", "u", "s", "p", "b,i", "u,a"}
	wants := make([]string, len(letters))
	for k, l := range letters {
		w := in
		for _, t := range strings.Split(l, ",") {
			w = strings.NewReplacer("<"+t+">", "", "</"+t+">", "").Replace(w)
		}
		wants[k] = w
	}
	iters := 2500
	if os.Getenv("VERIF_TIER") == "thorough" {
		iters = 40000
	}
	var wg sync.WaitGroup
	var mu sync.Mutex
	start := make(chan struct{})
	for g := range letters {
		wg.Add(1)
		go func(g int) {
			defer wg.Done()
			defer func() { recover() }()
			p := pongo2.AsValue(letters[g])
			<-start
			for it := 0; it < iters; it++ {
				v, err := pongo2.ApplyFilter("removetags", pongo2.AsValue(in), p)
				got := ""
				if err != nil {
					got = "error: " + err.Error()
				} else {
					got = v.String()
				}
				if got != wants[g] {
					mu.Lock()
					if c17FirstUseFailure == nil {
						c17FirstUseFailure = D{"filter": "removetags", "param": letters[g], "input": q(in), "output": q(got), "expected": q(wants[g]), "call_number": it,
							"why": fmt.Sprintf("%d goroutines were calling removetags with different tag lists at the same time; alone the call gives the expected output", len(letters))}
					}
					mu.Unlock()
					return
				}
			}
		}(g)
	}
	close(start)
	wg.Wait()
}

func init() {
	register(&Prop{
		ID:   "C17",
		Init: c17FirstUse,
		Cases: func(tier string) int {
			a, b, r := c17Plan(tier)
			return a + b + r
		},
		Run: c17Run,
		Rule: "every input is passed to each of escape, e, escapejs, urlencode, iriencode, addslashes, striptags, removetags:\"a,b\", safe through ApplyFilter and through {{ v|f }} under autoescape off; every worker process first uses each filter from 32 goroutines at once (lazily built tables); " +
			"inputs: exhaustively every BMP code point as a one-rune string (surrogates as invalid UTF-8), exhaustively all strings of up to 3 blocks over 17 special blocks, and random strings of specials/multi-byte/astral runes/invalid UTF-8/entities/backslash sequences; " +
			"the oracle decodes the output independently (HTML unescape of five entities, \\uXXXX decoding with surrogate pairs, url.QueryUnescape, reference functions for addslashes/striptags/removetags). distinct_nontrivial = distinct input strings.",
		MinNontriv:  5000,
		Assumptions: []string{"escapejs on invalid UTF-8 input is judged for its alphabet only", "iriencode on invalid UTF-8 is not judged"},
	})
}
