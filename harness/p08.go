package main

import (
	"errors"
	"fmt"
	"reflect"
	"strconv"
	"strings"
	"sync"

	"github.com/flosch/pongo2/v6"
)

// C08 - names resolve through maps, sequences, structs, pointers, methods, calls.
// The reference resolver follows the property's rules with Go's reflect on the real values,
// independently of the engine; unspecified combinations are classified as unjudged.

// C8Audit is embedded (by value) in C8Inner and C8User: its fields and method are promoted
type C8Audit struct {
	Author string
	Rev    int
}

func (a C8Audit) Stamp() string { return "stamp:" + a.Author }

type C8Inner struct {
	C8Audit
	Title string
	Depth int
	Items []C8Inner
	Flags map[string]bool
	note  string
}

func (i C8Inner) Label() string { return "inner:" + i.Title }

type C8User struct {
	C8Audit
	Name      string
	Age       int
	Score     float64
	Active    bool
	Small     uint8
	Tags      []string
	Nums      [3]int
	Meta      map[string]any
	ByID      map[int]string
	Friend    *C8User
	NilFriend *C8User
	Any       any
	Inner     C8Inner
	PInner    *C8Inner
	Fn        func() string
	Fn1       func(int) int
	secret    string
}

func (u C8User) Greeting() string { return "hi " + u.Name }
func (u *C8User) PGreeting() string {
	if u == nil {
		return "phi <nil>"
	}
	return "phi " + u.Name
}
func (u C8User) Add(a, b int) int            { return a + b }
func (u C8User) Echo(v *pongo2.Value) string { return "echo:" + v.String() }
func (u C8User) Sum(xs ...int) int {
	s := 0
	for _, x := range xs {
		s += x
	}
	return s
}
func (u C8User) Join(sep string, xs ...string) string { return strings.Join(xs, sep) }
func (u C8User) Maybe(fail bool) (string, error) {
	if fail {
		return "", errors.New("maybe-failed-" + u.Name)
	}
	return "maybe-ok", nil
}
func (u C8User) Self() C8User    { return u }
func (u C8User) Ptr() *C8User    { return &u }
func (u C8User) NilPtr() *C8User { return nil }
func (u C8User) Two() (int, int) { return 1, 2 }
func (u C8User) Nothing()        {}
func (u C8User) WithCtx(ctx *pongo2.ExecutionContext, s string) string {
	if ctx == nil {
		return "noctx"
	}
	return "ctx+" + s
}
func (u C8User) CtxJoin(ctx *pongo2.ExecutionContext, sep string, xs ...string) string {
	if ctx == nil {
		return "noctx"
	}
	return "cj:" + strings.Join(xs, sep)
}
func (u C8User) CtxSum(ctx *pongo2.ExecutionContext, xs ...int) int {
	s := 0
	for _, x := range xs {
		s += x
	}
	return s
}
func (u C8User) AnyArg(a any) string    { return fmt.Sprintf("any:%v", a) }
func (u C8User) Half(f float64) float64 { return f / 2 }
func (u C8User) Neg(b bool) bool        { return !b }
func (u C8User) Val() *pongo2.Value     { return pongo2.AsValue(u.Name + "-val") }
func (u C8User) NilVal() *pongo2.Value  { return pongo2.AsValue(nil) }
func (u C8User) Inn() C8Inner           { return u.Inner }

func c8Root(r *Rng) map[string]any {
	name := r.Pick([]string{"Ann", "Bob", "Zoë", "x<y"})
	inner := C8Inner{C8Audit: C8Audit{Author: "ia-" + name, Rev: 3}, Title: "T" + name, Depth: r.Intn(5), Items: []C8Inner{{Title: "i0"}, {Title: "i1", Depth: 1}}, Flags: map[string]bool{"on": true, "off": false}, note: "n"}
	friend := &C8User{Name: "Fr" + name, Age: 20 + r.Intn(30), Tags: []string{"f"}, Meta: map[string]any{"k": "fv"}, Inner: C8Inner{Title: "ft"}}
	u := C8User{C8Audit: C8Audit{Author: "ua-" + name, Rev: r.Intn(9)}, Name: name, Age: r.Intn(90), Score: float64(r.Intn(100)) / 4, Active: r.Bool(), Small: uint8(r.Intn(200)),
		Tags: []string{"t0", "t1", "t2"}[:r.Intn(4)], Nums: [3]int{r.Intn(9), 7, 9},
		Meta:   map[string]any{"k": "v", "n": 5, "nil": nil, "lst": []any{1, "x", nil, []int{4, 5}}, "sub": map[string]any{"deep": "dv"}, "user": friend, "Name": "meta-name"},
		ByID:   map[int]string{1: "one", 2: "two"},
		Friend: friend, Any: []string{"any0", "any1"}, Inner: inner, PInner: &inner,
		Fn: func() string { return "fn-result" }, Fn1: func(i int) int { return i * 2 }, secret: "s3cr3t"}
	return map[string]any{
		"u": u, "pu": &u, "ppu": func() **C8User { p := &u; return &p }(),
		"nums": []int{10, 20, 30}, "arr": [2]string{"p", "q"}, "empty": []int{}, "strs": []string{"s0", "s1"},
		"m": map[string]any{"a": 1, "b": "bee", "u": u, "l": []int{1, 2}, "f": func() string { return "mapfn" }}, "im": map[int]string{1: "one", 7: "seven"}, "fm": map[float64]string{1.5: "x"}, "bm": map[bool]string{true: "yes"},
		"nilmap": map[string]any(nil), "nilp": (*C8User)(nil), "nilv": nil, "num": 42, "flt": 2.5, "str": "text", "flag": true,
		"k": "b", "ik": 1, "idx": 2, "fk": 1.5, "bk": true, "neg": -1, "big": 99,
		"f0": func() string { return "f0r" }, "f1": func(i int) int { return i + 1 }, "f2": func(a, b string) string { return a + b },
		"fv": func(xs ...int) int { return len(xs) }, "fval": func(v *pongo2.Value) *pongo2.Value { return pongo2.AsValue("<" + v.String() + ">") },
		"ferr": func(fail bool) (int, error) {
			if fail {
				return 0, errors.New("ferr-failed")
			}
			return 5, nil
		},
		"fctx":  func(ctx *pongo2.ExecutionContext) string { return "implicit" },
		"fctxv": func(ctx *pongo2.ExecutionContext, xs ...int) int { return 100 + len(xs) }, "fctx2": func(ctx *pongo2.ExecutionContext, a int, b string) string { return fmt.Sprint(a, b) }, "fptr": func() *C8User { return &u }, "fnil": func() *C8User { return nil },
		"fstruct": func() C8User { return u }, "flist": func() []int { return []int{7, 8} }, "fmap": func() map[string]int { return map[string]int{"z": 26} },
	}
}

type c8Class int

const (
	c8Value c8Class = iota
	c8Empty
	c8Error
	c8Unjudged
)

type c8Result struct {
	class  c8Class
	val    reflect.Value
	errMsg string // must be contained in the engine's error (for (T, error) results)
}

type c8Step struct {
	kind string // name num sub call
	name string
	num  int
	sub  string // subscript source
	subV any    // its value
	args []c8Arg
	src  string
}

type c8Arg struct {
	src string
	val any
}

var typeOfValue = reflect.TypeOf((*pongo2.Value)(nil))
var typeOfCtx = reflect.TypeOf((*pongo2.ExecutionContext)(nil))
var typeOfError = reflect.TypeOf((*error)(nil)).Elem()

func c8Unwrap(v reflect.Value) reflect.Value {
	for v.IsValid() && v.Kind() == reflect.Interface {
		if v.IsNil() {
			return reflect.Value{}
		}
		v = v.Elem()
	}
	if v.IsValid() && v.Type() == typeOfValue {
		if v.IsNil() {
			return reflect.Value{}
		}
		pv := v.Interface().(*pongo2.Value)
		if pv.IsNil() {
			return reflect.Value{}
		}
		return c8Unwrap(reflect.ValueOf(pv.Interface()))
	}
	return v
}

// c8Call applies the call protocol of the property.
func c8Call(fn reflect.Value, args []c8Arg) c8Result {
	if fn.IsNil() {
		return c8Result{class: c8Error}
	}
	t := fn.Type()
	ins := []reflect.Type{}
	for i := 0; i < t.NumIn(); i++ {
		ins = append(ins, t.In(i))
	}
	implicit := len(ins) > 0 && ins[0] == typeOfCtx
	if implicit {
		ins = ins[1:]
	}
	if t.NumOut() != 1 && t.NumOut() != 2 {
		return c8Result{class: c8Error}
	}
	if t.NumOut() == 2 && !t.Out(1).Implements(typeOfError) {
		return c8Result{class: c8Unjudged} // only reported when the call happens with a non-nil second value
	}
	var params []reflect.Value
	if implicit {
		params = append(params, reflect.Zero(typeOfCtx)) // the harness functions only test for presence; see c8Apply
	}
	if t.IsVariadic() {
		if len(args) < len(ins)-1 {
			return c8Result{class: c8Error}
		}
	} else if len(args) != len(ins) {
		return c8Result{class: c8Error}
	}
	for i, a := range args {
		var pt reflect.Type
		if t.IsVariadic() && i >= len(ins)-1 {
			pt = ins[len(ins)-1].Elem()
		} else {
			pt = ins[i]
		}
		switch {
		case pt == typeOfValue:
			params = append(params, reflect.ValueOf(pongo2.AsValue(a.val)))
		case pt.Kind() == reflect.Interface:
			if a.val == nil {
				params = append(params, reflect.Zero(pt))
			} else if reflect.TypeOf(a.val).Implements(pt) {
				params = append(params, reflect.ValueOf(a.val))
			} else {
				return c8Result{class: c8Error}
			}
		default:
			if a.val == nil || reflect.TypeOf(a.val) != pt {
				return c8Result{class: c8Error}
			}
			params = append(params, reflect.ValueOf(a.val))
		}
	}
	if implicit {
		// call through a wrapper that supplies a non-nil context marker: the functions only look at ctx == nil
		params[0] = reflect.ValueOf(&pongo2.ExecutionContext{})
	}
	outs := fn.Call(params)
	if t.NumOut() == 2 && !outs[1].IsNil() {
		return c8Result{class: c8Error, errMsg: outs[1].Interface().(error).Error()}
	}
	return c8Result{class: c8Value, val: outs[0]}
}

// c8Resolve follows the steps from the root value.
func c8Resolve(root any, steps []c8Step) c8Result {
	cur := c8Unwrap(reflect.ValueOf(root))
	autoCall := func() *c8Result {
		// a function value reached without call syntax is called without arguments
		if cur.IsValid() && cur.Kind() == reflect.Func {
			res := c8Call(cur, nil)
			if res.class != c8Value {
				return &res
			}
			cur = c8Unwrap(res.val)
		}
		return nil
	}
	if len(steps) == 0 || steps[0].kind != "call" {
		if r := autoCall(); r != nil {
			return *r
		}
	}
	for si, st := range steps {
		if !cur.IsValid() {
			if st.kind == "call" {
				return c8Result{class: c8Unjudged} // calling a missing name
			}
			return c8Result{class: c8Empty}
		}
		switch st.kind {
		case "call":
			if cur.Kind() != reflect.Func {
				return c8Result{class: c8Error} // calling a non-function
			}
			res := c8Call(cur, st.args)
			if res.class != c8Value {
				return res
			}
			cur = c8Unwrap(res.val)
			continue
		case "name":
			// methods first (value receiver on values and pointers, pointer receiver on pointers)
			if m := cur.MethodByName(st.name); m.IsValid() {
				if cur.Kind() == reflect.Ptr && cur.IsNil() {
					if _, valueRecv := cur.Type().Elem().MethodByName(st.name); valueRecv {
						return c8Result{class: c8Empty}
					}
				}
				cur = m
			} else {
				for cur.Kind() == reflect.Ptr {
					if cur.IsNil() {
						return c8Result{class: c8Empty}
					}
					cur = cur.Elem()
					if cur.Kind() == reflect.Ptr {
						return c8Result{class: c8Unjudged} // pointer to pointer: one level per step (unspecified)
					}
				}
				switch cur.Kind() {
				case reflect.Struct:
					f, ok := cur.Type().FieldByName(st.name)
					if !ok || f.PkgPath != "" {
						return c8Result{class: c8Empty} // missing or unexported
					}
					cur = cur.FieldByName(st.name)
				case reflect.Map:
					if cur.Type().Key().Kind() != reflect.String {
						return c8Result{class: c8Empty} // wrong-typed key
					}
					cur = cur.MapIndex(reflect.ValueOf(st.name).Convert(cur.Type().Key()))
					if !cur.IsValid() {
						return c8Result{class: c8Empty}
					}
				case reflect.Int, reflect.Float64, reflect.Bool, reflect.Uint8:
					return c8Result{class: c8Error} // field access on a scalar
				default:
					return c8Result{class: c8Unjudged} // .name on strings, slices, arrays, funcs
				}
			}
		case "num":
			for cur.Kind() == reflect.Ptr {
				if cur.IsNil() {
					return c8Result{class: c8Empty}
				}
				cur = cur.Elem()
				if cur.Kind() == reflect.Ptr {
					return c8Result{class: c8Unjudged} // pointer to pointer (unspecified)
				}
			}
			switch cur.Kind() {
			case reflect.Slice, reflect.Array:
				if st.num < 0 || st.num >= cur.Len() {
					return c8Result{class: c8Empty}
				}
				cur = cur.Index(st.num)
			case reflect.Int, reflect.Float64, reflect.Bool, reflect.Uint8:
				return c8Result{class: c8Error}
			default:
				return c8Result{class: c8Unjudged} // .N on strings, maps, structs
			}
		case "sub":
			for cur.Kind() == reflect.Ptr {
				if cur.IsNil() {
					return c8Result{class: c8Empty}
				}
				cur = cur.Elem()
				if cur.Kind() == reflect.Ptr {
					return c8Result{class: c8Unjudged} // pointer to pointer (unspecified)
				}
			}
			switch cur.Kind() {
			case reflect.Slice, reflect.Array:
				i, ok := st.subV.(int)
				if !ok {
					return c8Result{class: c8Unjudged} // non-integer subscript of a sequence
				}
				if i < 0 || i >= cur.Len() {
					return c8Result{class: c8Empty}
				}
				cur = cur.Index(i)
			case reflect.Struct:
				s, ok := st.subV.(string)
				if !ok {
					return c8Result{class: c8Unjudged}
				}
				f, ok := cur.Type().FieldByName(s)
				if !ok || f.PkgPath != "" {
					return c8Result{class: c8Empty}
				}
				cur = cur.FieldByName(s)
			case reflect.Map:
				if st.subV == nil {
					return c8Result{class: c8Empty}
				}
				kv := reflect.ValueOf(st.subV)
				if kv.Type() != cur.Type().Key() {
					if cur.Type().Key().Kind() == reflect.Interface {
						return c8Result{class: c8Unjudged}
					}
					return c8Result{class: c8Empty} // wrong-typed key
				}
				cur = cur.MapIndex(kv)
				if !cur.IsValid() {
					return c8Result{class: c8Empty}
				}
			case reflect.Int, reflect.Float64, reflect.Bool, reflect.Uint8:
				return c8Result{class: c8Error}
			default:
				return c8Result{class: c8Unjudged}
			}
		}
		cur = c8Unwrap(cur)
		// auto-call of a function value unless the next step is an explicit call
		if si+1 < len(steps) && steps[si+1].kind == "call" {
			continue
		}
		if r := autoCall(); r != nil {
			return *r
		}
	}
	if !cur.IsValid() {
		return c8Result{class: c8Empty}
	}
	if cur.Kind() == reflect.Ptr && cur.IsNil() {
		return c8Result{class: c8Empty}
	}
	if cur.Kind() == reflect.Ptr && cur.Elem().Kind() == reflect.Ptr {
		return c8Result{class: c8Unjudged} // pointer to pointer (unspecified)
	}
	return c8Result{class: c8Value, val: cur}
}

// ---- path generation -----------------------------------------------------------------

func c8ArgPool() []c8Arg {
	return []c8Arg{{"1", 1}, {"2", 2}, {"0", 0}, {"\"s\"", "s"}, {"\"x y\"", "x y"}, {"true", true}, {"false", false}, {"2.5", 2.5}, {"num", 42}, {"str", "text"}, {"flag", true}, {"flt", 2.5}, {"nilv", nil}, {"idx", 2}}
}

func c8GenPath(r *Rng, root map[string]any) (string, []c8Step, string) {
	names := make([]string, 0, len(root))
	for k := range root {
		names = append(names, k)
	}
	sortStrings(names)
	rootName := names[r.Intn(len(names))]
	if r.Chance(4) {
		rootName = "nosuchroot"
	}
	var steps []c8Step
	src := rootName
	cur := c8Unwrap(reflect.ValueOf(root[rootName]))
	n := r.Intn(5)
	valid := []string{"Author", "Rev", "Stamp", "C8Audit", "Name", "Age", "Score", "Active", "Small", "Tags", "Nums", "Meta", "ByID", "Friend", "NilFriend", "Any", "Inner", "PInner", "Fn", "Title", "Depth", "Items", "Flags",
		"Greeting", "PGreeting", "Self", "Ptr", "NilPtr", "Val", "NilVal", "Inn", "Label", "k", "n", "nil", "lst", "sub", "deep", "user", "a", "b", "u", "l", "f", "on", "off"}
	invalid := []string{"secret", "note", "missing", "Nope", "name", "Fn1", "Two", "Nothing", "Add", "Sum", "Maybe", "Echo", "zz"}
	for i := 0; i < n; i++ {
		var st c8Step
		k := r.Intn(10)
		// prefer steps that make sense for the current value
		kind := reflect.Invalid
		if cur.IsValid() {
			kind = cur.Kind()
			if kind == reflect.Ptr && !cur.IsNil() {
				kind = cur.Elem().Kind()
			}
		}
		var real []string // names that really exist on the current value
		if cur.IsValid() {
			t := cur.Type()
			for m := 0; m < t.NumMethod(); m++ {
				real = append(real, t.Method(m).Name)
			}
			sv := cur
			if sv.Kind() == reflect.Ptr && !sv.IsNil() {
				sv = sv.Elem()
			}
			if sv.Kind() == reflect.Struct {
				for _, vf := range reflect.VisibleFields(sv.Type()) { // promoted fields included
					real = append(real, vf.Name)
				}
			}
			if sv.Kind() == reflect.Map && sv.Type().Key().Kind() == reflect.String {
				for _, mk := range sv.MapKeys() {
					real = append(real, mk.String())
				}
			}
		}
		if cur.IsValid() && cur.Kind() == reflect.Func {
			k = 9 // a function value: call it
		}
		switch {
		case k < 7 && len(real) > 0 && r.Chance(85):
			sortStrings(real)
			st = c8Step{kind: "name", name: r.Pick(real)}
		case k < 5 && (kind == reflect.Struct || kind == reflect.Map):
			if r.Chance(80) {
				st = c8Step{kind: "name", name: r.Pick(valid)}
			} else {
				st = c8Step{kind: "name", name: r.Pick(invalid)}
			}
		case k < 5 && (kind == reflect.Slice || kind == reflect.Array):
			st = c8Step{kind: "num", num: r.Intn(5)}
		case k < 7:
			st = c8Step{kind: "name", name: r.Pick(append(valid, invalid...))}
		case k < 8:
			st = c8Step{kind: "num", num: r.Pick2([]int{0, 1, 2, 3, 99})}
		default:
			// call with random arguments
			pool := c8ArgPool()
			st.kind = "call"
			if cur.IsValid() && cur.Kind() == reflect.Func && r.Chance(75) {
				// arguments that fit the signature, then possibly perturbed
				ft := cur.Type()
				for pi := 0; pi < ft.NumIn(); pi++ {
					pt := ft.In(pi)
					if pt == typeOfCtx {
						continue
					}
					reps := 1
					if ft.IsVariadic() && pi == ft.NumIn()-1 {
						pt = pt.Elem()
						reps = r.Intn(4)
					}
					for q := 0; q < reps; q++ {
						var fit []c8Arg
						for _, a := range pool {
							if pt == typeOfValue || pt.Kind() == reflect.Interface || (a.val != nil && reflect.TypeOf(a.val) == pt) {
								fit = append(fit, a)
							}
						}
						if len(fit) == 0 {
							fit = pool
						}
						st.args = append(st.args, fit[r.Intn(len(fit))])
					}
				}
				switch r.Intn(8) {
				case 0:
					if len(st.args) > 0 {
						st.args = st.args[:len(st.args)-1] // one too few
					}
				case 1:
					st.args = append(st.args, pool[r.Intn(len(pool))]) // one too many
				case 2:
					if len(st.args) > 0 {
						st.args[r.Intn(len(st.args))] = pool[r.Intn(len(pool))] // possibly a wrong type
					}
				}
			} else {
				na := r.Intn(4)
				for a := 0; a < na; a++ {
					st.args = append(st.args, pool[r.Intn(len(pool))])
				}
			}
		}
		switch st.kind {
		case "name":
			st.src = "." + st.name
		case "num":
			st.src = "." + strconv.Itoa(st.num)
		case "call":
			var as []string
			for _, a := range st.args {
				as = append(as, a.src)
			}
			st.src = "(" + strings.Join(as, ", ") + ")"
			if len(steps) > 0 && steps[len(steps)-1].kind == "call" {
				continue // f()() is not in the grammar
			}
			if len(steps) > 0 && steps[len(steps)-1].kind == "num" {
				continue
			}
		}
		steps = append(steps, st)
		src += st.src
		// advance the "sense" value loosely through the reference (only to bias the generation)
		cur = c8Peek(root[rootName], steps)
	}
	// a subscript may only be the last step of a name
	if r.Chance(35) && (len(steps) == 0 || steps[len(steps)-1].kind != "call") {
		subs := []struct {
			src string
			val any
		}{{"0", 0}, {"1", 1}, {"2", 2}, {"5", 5}, {"neg", -1}, {"\"k\"", "k"}, {"\"Name\"", "Name"}, {"\"a\"", "a"}, {"\"secret\"", "secret"}, {"\"missing\"", "missing"}, {"k", "b"}, {"ik", 1}, {"idx", 2}, {"fk", 1.5}, {"bk", true},
			{"nilv", nil}, {"1 + 1", 2}, {"idx - 1", 1}, {"\"de\" + \"ep\"", "deep"}, {"ik|add:6", 7}, {"\"NAME\"|lower|capfirst", "Name"}, {"big", 99}, {"str", "text"}, {"flt", 2.5}}
		s := subs[r.Intn(len(subs))]
		// on a struct (or pointer to one): mostly a name that really exists there, promoted fields and methods included
		if sv := cur; sv.IsValid() && r.Chance(70) {
			for sv.Kind() == reflect.Ptr && !sv.IsNil() {
				sv = sv.Elem()
			}
			if sv.Kind() == reflect.Struct {
				var real []string
				for _, vf := range reflect.VisibleFields(sv.Type()) {
					real = append(real, vf.Name)
				}
				for m := 0; m < cur.Type().NumMethod(); m++ {
					real = append(real, cur.Type().Method(m).Name)
				}
				sortStrings(real)
				nm := r.Pick(real)
				s.src, s.val = "\""+nm+"\"", nm
				if r.Chance(25) {
					s.src, s.val = "\""+strings.ToUpper(nm)+"\"|lower|capfirst", strings.ToUpper(nm[:1])+strings.ToLower(nm[1:])
				}
			}
		}
		st := c8Step{kind: "sub", sub: s.src, subV: s.val, src: "[" + s.src + "]"}
		steps = append(steps, st)
		src += st.src
	}
	return src, steps, rootName
}

// c8Peek returns the raw value reached by the steps (a function value is not called), only to bias the generation.
func c8Peek(root any, steps []c8Step) (out reflect.Value) {
	defer func() {
		if recover() != nil {
			out = reflect.Value{}
		}
	}()
	cur := c8Unwrap(reflect.ValueOf(root))
	for _, st := range steps {
		if !cur.IsValid() {
			return reflect.Value{}
		}
		switch st.kind {
		case "name":
			if m := cur.MethodByName(st.name); m.IsValid() {
				cur = m
				continue
			}
			for cur.Kind() == reflect.Ptr && !cur.IsNil() {
				cur = cur.Elem()
			}
			switch cur.Kind() {
			case reflect.Struct:
				cur = cur.FieldByName(st.name)
				if cur.IsValid() && !cur.CanInterface() {
					return reflect.Value{}
				}
			case reflect.Map:
				if cur.Type().Key().Kind() != reflect.String {
					return reflect.Value{}
				}
				cur = cur.MapIndex(reflect.ValueOf(st.name))
			default:
				return reflect.Value{}
			}
		case "num":
			for cur.Kind() == reflect.Ptr && !cur.IsNil() {
				cur = cur.Elem()
			}
			if (cur.Kind() == reflect.Slice || cur.Kind() == reflect.Array) && st.num < cur.Len() {
				cur = cur.Index(st.num)
			} else {
				return reflect.Value{}
			}
		case "call":
			if cur.Kind() != reflect.Func {
				return reflect.Value{}
			}
			res := c8Call(cur, st.args)
			if res.class != c8Value {
				return reflect.Value{}
			}
			cur = res.val
		}
		cur = c8Unwrap(cur)
	}
	return cur
}

func (r *Rng) Pick2(xs []int) int { return xs[r.Intn(len(xs))] }

func sortStrings(xs []string) {
	for i := 1; i < len(xs); i++ {
		for j := i; j > 0 && xs[j] < xs[j-1]; j-- {
			xs[j], xs[j-1] = xs[j-1], xs[j]
		}
	}
}

func c8Canonical(v reflect.Value) (string, bool) {
	switch v.Kind() {
	case reflect.String:
		return v.String(), true
	case reflect.Int, reflect.Int64:
		return strconv.FormatInt(v.Int(), 10), true
	case reflect.Uint8:
		return strconv.FormatUint(v.Uint(), 10), true
	case reflect.Float64:
		return fmt.Sprintf("%f", v.Float()), true
	case reflect.Bool:
		if v.Bool() {
			return "True", true
		}
		return "False", true
	}
	return "", false
}

func c8Truthy(v reflect.Value) bool {
	switch v.Kind() {
	case reflect.String, reflect.Slice, reflect.Array, reflect.Map:
		return v.Len() > 0
	case reflect.Int, reflect.Int64:
		return v.Int() != 0
	case reflect.Uint8:
		return v.Uint() != 0
	case reflect.Float64:
		return v.Float() != 0
	case reflect.Bool:
		return v.Bool()
	case reflect.Struct:
		return true
	case reflect.Ptr:
		return !v.IsNil() && c8Truthy(v.Elem())
	}
	return false
}

func c8Run(c *C) {
	r := c.R
	root := c8Root(r)
	set, _ := newSet(emptySetFiles)
	for n := 0; n < 20; n++ {
		src, steps, rootName := c8GenPath(r, root)
		res := c8Resolve(root[rootName], steps)
		if res.class == c8Unjudged {
			c.Unjudged()
			// still executed: must not panic (C01)
			if tpl, err := set.FromString("{{ " + src + " }}"); err == nil {
				tpl.Execute(pongo2.Context(root))
				c.Eval(1)
			}
			continue
		}
		tsrc := "{% autoescape off %}{{ " + src + " }}|{% if " + src + " %}T{% else %}F{% endif %}|{{ " + src + "|length }}{% endautoescape %}"
		tpl, cerr := set.FromString(tsrc)
		c.Eval(1)
		if cerr != nil {
			c.Fail("compile-error", D{"path": src, "error": cerr.Error()})
			return
		}
		// shadowing variants: the same root name also as a global and/or bound by a tag
		ctx := pongo2.Context{}
		for k, v := range root {
			ctx[k] = v
		}
		if rootName == "u" || rootName == "pu" {
			// the same compiled call site is first resolved against the other receiver kind (value <-> pointer)
			other := pongo2.Context{}
			for k, v := range root {
				other[k] = v
			}
			other["u"], other["pu"] = root["pu"], root["u"]
			tpl.Execute(other)
			c.Eval(1)
		}
		out, xerr := tpl.Execute(ctx)
		c.Eval(1)
		d := D{"path": src, "root_value": truncStr(fmt.Sprintf("%#v", root[rootName]), 300), "output": q(out), "error": errStr(xerr)}
		switch res.class {
		case c8Error:
			d["expected"] = "an execution error"
			if xerr == nil {
				c.Fail("missing-error", d)
				return
			}
			if res.errMsg != "" && !strings.Contains(xerr.Error(), res.errMsg) {
				d["expected_message"] = res.errMsg
				c.Fail("error-message-lost", d)
				return
			}
			c.Cover("class_error")
		case c8Empty:
			d["expected"] = "the empty value"
			if xerr != nil || out != "|F|0" {
				c.Fail("expected-empty", d)
				return
			}
			c.Cover("class_empty")
		case c8Value:
			if xerr != nil {
				d["expected"] = "a value"
				c.Fail("unexpected-error", d)
				return
			}
			parts := strings.SplitN(out, "|", 2)
			v := res.val
			for v.Kind() == reflect.Ptr && !v.IsNil() {
				v = v.Elem()
			}
			if canon, ok := c8Canonical(v); ok {
				tf := "F"
				if c8Truthy(v) {
					tf = "T"
				}
				ln := 0
				if v.Kind() == reflect.String {
					ln = len([]rune(v.String()))
				}
				want := fmt.Sprintf("%s|%s|%d", canon, tf, ln)
				if out != want {
					d["expected"] = q(want)
					c.Fail("wrong-value", d)
					return
				}
			} else {
				// composites: judged through truthiness and length only
				tf := "F"
				if c8Truthy(v) {
					tf = "T"
				}
				ln := 0
				switch v.Kind() {
				case reflect.Slice, reflect.Array, reflect.Map:
					ln = v.Len()
				}
				want := fmt.Sprintf("|%s|%d", tf, ln)
				if len(parts) != 2 || "|"+parts[1] != want {
					d["expected_suffix"] = want
					c.Fail("wrong-value", d)
					return
				}
			}
			c.Cover("class_value")
		}
		c.Nontrivial(rootName + fmt.Sprint(root[rootName] == nil) + src)
		if c.WantSample() && len(steps) >= 3 && res.class == c8Value {
			c.Sample(d)
		}
	}
	c8Shadowing(c, r)
	if !c.Failed() {
		c8TwinTypes(c, r)
	}
	if !c.Failed() && ((!c.Thorough() && c.Idx%100 == 57) || c.Idx%1000 == 57) {
		c8ConcurrentReceivers(c)
	}
}

// Receivers of different Go types behind ONE name, whose methods and fields of the same name sit at different
// positions of their method sets / field lists.
type C8RecvA struct {
	Zeta string
	Name string
}

func (r C8RecvA) Alpha() string { return "A.alpha" }
func (r C8RecvA) Label() string { return "A.label:" + r.Name }

type C8RecvB struct {
	Name string
	Zeta string
	More int
}

func (r C8RecvB) Label() string { return "B.label:" + r.Name }
func (r C8RecvB) Other() string { return "B.other" }
func (r C8RecvB) Zz() string    { return "B.zz" }

type C8RecvC struct{ Label, Name string }

// c8ConcurrentReceivers: eight goroutines execute ONE compiled template at the same time, each call with a receiver of
// another dynamic type behind the same name (a fixed number of calls; the expected texts are literals). A step resolves
// against the value it is given in THIS execution.
func c8ConcurrentReceivers(c *C) {
	const src = "{{ x.Label }};{{ x.Name }};{{ x.Zeta }};{% for i in two %}{{ x.Label }}{% endfor %};{{ l.0.Label }};{{ m.k.Name }}"
	set, _ := newSet(emptySetFiles)
	tpl, err := set.FromString(src)
	if err != nil {
		c.Fail("wrong-value", D{"source": src, "compile_err": err.Error()})
		return
	}
	mk := func(kind int) (pongo2.Context, string) {
		var x any
		var label string
		switch kind % 4 {
		case 0:
			x, label = C8RecvA{"za", "na"}, "A.label:na"
		case 1:
			x, label = C8RecvB{"nb", "zb", 1}, "B.label:nb"
		case 2:
			x, label = &C8RecvA{"zpa", "npa"}, "A.label:npa"
		default:
			x, label = C8RecvC{"C-field-label", "nc"}, "C-field-label"
		}
		name, zeta := map[int]string{0: "na", 1: "nb", 2: "npa", 3: "nc"}[kind%4], map[int]string{0: "za", 1: "zb", 2: "zpa", 3: ""}[kind%4]
		want := label + ";" + name + ";" + zeta + ";" + label + label + ";" + label + ";" + name
		return pongo2.Context{"x": x, "two": []int{1, 2}, "l": []any{x}, "m": map[string]any{"k": x}}, want
	}
	iters := 1500
	if c.Thorough() {
		iters = 4000
	}
	var wg sync.WaitGroup
	var mu sync.Mutex
	var failure D
	start := make(chan struct{})
	for g := 0; g < 8; g++ {
		wg.Add(1)
		go func(g int) {
			defer wg.Done()
			defer func() {
				if rec := recover(); rec != nil {
					mu.Lock()
					if failure == nil {
						failure = D{"source": src, "panic": fmt.Sprint(rec)}
					}
					mu.Unlock()
				}
			}()
			<-start
			for it := 0; it < iters; it++ {
				ctx, want := mk(g + it)
				out, xerr := tpl.Execute(ctx)
				if xerr != nil || out != want {
					mu.Lock()
					if failure == nil {
						failure = D{"source": src, "receiver_type": fmt.Sprintf("%T", ctx["x"]), "output": q(out), "expected": q(want), "error": errStr(xerr), "goroutine": g, "call": it,
							"why": "eight goroutines were executing the compiled template with receivers of four different Go types at the same time"}
					}
					mu.Unlock()
					return
				}
			}
		}(g)
	}
	close(start)
	wg.Wait()
	c.Eval(8 * iters)
	if failure != nil {
		c.Fail("wrong-value", failure)
		return
	}
	c.Cover("concurrent_receivers_of_different_types")
}

// Two DISTINCT struct types that print the same type name (function-local types, like model.User of two packages):
// the same field names at different positions, a different number of fields, different methods.
func c8TwinA(tag string) any {
	type Rec struct {
		Note string
		Name string
		N    int
	}
	return Rec{"note-" + tag, "name-" + tag, 1}
}

func c8TwinB(tag string) any {
	type Rec struct {
		Name string
		Note string
	}
	return &Rec{"name-" + tag, "note-" + tag}
}

func c8TwinC(tag string) any {
	type Rec struct{ N string }
	return Rec{"n-" + tag}
}

// c8TwinTypes resolves the same paths on the twins, in a random order, with one compiled template and with fresh ones.
func c8TwinTypes(c *C, r *Rng) {
	mk := []func(string) any{c8TwinA, c8TwinB, c8TwinC}
	want := []string{"name-%s|note-%s|1|note-%s", "name-%s|note-%s||note-%s", "||n-%s|"}
	set, _ := newSet(emptySetFiles)
	const src = "{{ rec.Name }}|{{ rec.Note }}|{{ rec.N }}|{{ rec[\"Note\"] }}"
	shared, err := set.FromString(src)
	if err != nil {
		c.Fail("compile-error", D{"source": src, "error": err.Error()})
		return
	}
	for k := 0; k < 6; k++ {
		i := r.Intn(3)
		tag := fmt.Sprint(k)
		tpl := shared
		if r.Bool() {
			tpl, _ = set.FromString(src)
		}
		out, xerr := tpl.Execute(pongo2.Context{"rec": mk[i](tag)})
		c.Eval(1)
		exp := strings.ReplaceAll(want[i], "%s", tag)
		if xerr != nil || out != exp {
			c.Fail("wrong-value", D{"path": src, "root_value": fmt.Sprintf("%#v", mk[i](tag)), "output": out, "expected": exp, "error": errStr(xerr), "why": "distinct struct types with the same printed type name (seen in this order in this process)"})
			return
		}
	}
	c.Cover("twin_type_names")
}

// c8Shadowing: tag-bound names shadow context keys, which shadow the set's globals.
func c8Shadowing(c *C, r *Rng) {
	set, _ := newSet(map[string]string{"/inc.tpl": "{{ v.Name }}"})
	inG, inC, inT := r.Bool(), r.Bool(), r.Bool()
	if inG {
		set.Globals["v"] = C8User{Name: "global"}
	}
	ctx := pongo2.Context{"t": C8User{Name: "tag"}, "incn": "/inc.tpl"}
	nilC := false
	if inC {
		ctx["v"] = &C8User{Name: "context"}
	} else if r.Chance(30) {
		ctx["v"] = nil // present with a nil value: still shadows the global
		nilC = true
	}
	want := ""
	switch {
	case inT:
		want = "tag"
	case inC:
		want = "context"
	case inG && !nilC:
		want = "global"
	}
	src := "{{ v.Name }}"
	wantAfter := ""
	if inC {
		wantAfter = "context"
	} else if inG && !nilC {
		wantAfter = "global"
	}
	if inT {
		src = r.Pick([]string{"{% with v=t %}{{ v.Name }}{% endwith %}", "{% for v in [t] %}{{ v.Name }}{% endfor %}", "{% macro m(v) %}{{ v.Name }}{% endmacro %}{{ m(t) }}", "{% include \"/inc.tpl\" with v=t %}",
			// the name is bound by a tag of the INCLUDING template; the template that prints it is included / ssi-parsed
			"{% with v=t %}{% include \"/inc.tpl\" %}{% endwith %}", "{% with v=t %}{% include incn %}{% endwith %}", "{% with v=t %}{% ssi \"/inc.tpl\" parsed %}{% endwith %}",
			"{% for v in [t] %}{% ssi \"/inc.tpl\" parsed %}{% endfor %}", "{% macro m(v) %}{% ssi \"/inc.tpl\" parsed %}{% endmacro %}{{ m(t) }}"})
	}
	src += "|{{ v.Name }}|{{ v.Greeting }}"
	tpl, err := set.FromString(src)
	if err != nil {
		c.Fail("compile-error", D{"source": src, "error": err.Error()})
		return
	}
	out, xerr := tpl.Execute(ctx)
	c.Eval(1)
	greet := ""
	if wantAfter != "" {
		greet = "hi " + wantAfter
	}
	exp := want + "|" + wantAfter + "|" + greet
	if xerr != nil || out != exp {
		c.Fail("shadowing", D{"source": src, "in_globals": inG, "in_context": inC, "tag_bound": inT, "output": out, "expected": exp, "error": errStr(xerr)})
		return
	}
	c.Cover("shadowing")
	// `only` keeps the includer's variables out of the included template - the set's globals are visible in every
	// template all the same (statically and lazily included, one and two levels deep)
	{
		oset, _ := newSet(map[string]string{"/inc.tpl": "{{ v.Name }}", "/outer.tpl": "<{% include \"/inc.tpl\" with r=2 only %}>"})
		if inG {
			oset.Globals["v"] = C8User{Name: "global"}
		}
		osrc := r.Pick([]string{"{% include \"/inc.tpl\" with q=1 only %}", "{% include incn with q=1 only %}", "{% with v=t %}{% include \"/inc.tpl\" with q=1 only %}{% endwith %}", "{% include \"/outer.tpl\" with q=1 only %}", "{% include \"/outer.tpl\" %}"})
		otpl, oerr := oset.FromString(osrc)
		if oerr != nil {
			c.Fail("compile-error", D{"source": osrc, "error": oerr.Error()})
			return
		}
		octx := pongo2.Context{"t": C8User{Name: "tag"}, "incn": "/inc.tpl"}
		if inC {
			octx["v"] = &C8User{Name: "context"}
		}
		oout, oxerr := otpl.Execute(octx)
		c.Eval(1)
		owant := ""
		if inG {
			owant = "global"
		}
		if strings.Contains(osrc, "outer") {
			owant = "<" + owant + ">"
		}
		if oxerr != nil || oout != owant {
			c.Fail("shadowing", D{"source": osrc, "files": "/inc.tpl = {{ v.Name }}; /outer.tpl = <{% include \"/inc.tpl\" with r=2 only %}>", "in_globals": inG, "in_context": inC, "output": oout, "expected": owant, "error": errStr(oxerr), "why": "inside an `only` include context entries are gone, globals stay"})
			return
		}
		c.Cover("globals_in_only_include")
	}
	// a name bound by a tag to nothing (an omitted macro parameter, an argument or with-value that is undefined or nil)
	// still shadows the context key and the global - directly and inside nested with/for regions of the binding construct
	inner := "[{{ v.Name }}{% with q=1 %}{{ v.Name }}{% for i in one %}{{ v.Name }}{{ v }}{% endfor %}{% endwith %}{% if v %}T{% endif %}]"
	src2 := r.Pick([]string{
		"{% macro m(v) %}" + inner + "{% endmacro %}{{ m() }}",
		"{% macro m(a, v) %}" + inner + "{% endmacro %}{{ m(1) }}",
		"{% macro m(v) %}" + inner + "{% endmacro %}{{ m(nothing) }}",
		"{% macro m(v) %}" + inner + "{% endmacro %}{{ m(nilval) }}",
		"{% macro m(v) %}{% for j in one %}" + inner + "{% endfor %}{% endmacro %}{% with w=2 %}{{ m() }}{% endwith %}",
		"{% with v=nothing %}" + inner + "{% endwith %}",
		"{% with v=nilval %}" + inner + "{% endwith %}",
		"{% for v in nils %}" + inner + "{% endfor %}",
	})
	ctx["one"] = []int{1}
	ctx["nilval"] = nil
	ctx["nils"] = []any{nil}
	tpl2, err := set.FromString(src2)
	if err != nil {
		c.Fail("compile-error", D{"source": src2, "error": err.Error()})
		return
	}
	out2, xerr2 := tpl2.Execute(ctx)
	c.Eval(1)
	if xerr2 != nil || out2 != "[]" {
		c.Fail("shadowing", D{"source": src2, "in_globals": inG, "in_context": inC, "output": out2, "expected": "[]", "error": errStr(xerr2), "why": "a name bound to nothing by a tag still shadows context and globals"})
		return
	}
	c.Cover("shadowing_by_empty_binding")
}

func init() {
	register(&Prop{
		ID: "C08",
		Cases: func(tier string) int {
			if tier == "thorough" {
				return 400000
			}
			return 16000
		},
		Run: c08RunWrapper,
		Rule: "per case a nested context (structs with exported/unexported fields, value- and pointer-receiver methods, pointers incl. nil and pointer-to-pointer, maps with string/int/float/bool keys, slices, arrays, interfaces, *Value results, functions of every accepted shape: fixed arity, variadic, *Value parameters, implicit *ExecutionContext, (T, error), rejected shapes) and 20 access paths of up to 5 steps (valid and invalid at every position; dot names, numeric steps, calls with 0-3 arguments of all kinds, a final subscript that is a literal, a variable, arithmetic or a filtered expression), " +
			"each observed through {{ path }}, {% if path %} and {{ path|length }} under autoescape off and compared with a reference resolver written against the property (value / empty / error, canonical printing, error message of a failing (T, error) function preserved); unspecified combinations (.name on sequences and strings, .N on maps/structs/strings, non-integer subscripts of sequences) are counted as unjudged but still executed; plus a shadowing probe (tag-bound > context > globals, through with/for/macro/include). distinct_nontrivial = distinct judged (context, path) pairs.",
		MinNontriv:  5000,
		Assumptions: []string{"a subscript is only generated as the last step of a name (the grammar accepts nothing after it)", "functions are pure"},
	})
}

func c08RunWrapper(c *C) { c8Run(c) }
