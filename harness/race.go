package main

import (
	"os"
	"regexp"
	"sort"
	"strings"
)

type raceReport struct {
	sig    string
	text   string
	engine bool
}

var reFrameFunc = regexp.MustCompile(`^\s{2}(\S+)\(`)

// parseRaceLogs extracts the race detector's reports, de-duplicated by the
// pair of innermost engine frames of the two conflicting accesses.
func parseRaceLogs(files []string) []raceReport {
	seen := map[string]bool{}
	var out []raceReport
	sort.Strings(files)
	for _, f := range files {
		b, err := os.ReadFile(f)
		if err != nil {
			continue
		}
		blocks := strings.Split(string(b), "WARNING: DATA RACE")
		for _, blk := range blocks[1:] {
			if i := strings.Index(blk, "=================="); i >= 0 {
				blk = blk[:i]
			}
			// stacks are separated by blank lines; take the first engine frame of the first two stacks
			var firsts []string
			engine := false
			for _, st := range strings.Split(blk, "\n\n") {
				lines := strings.Split(strings.TrimLeft(st, "\n"), "\n")
				if len(lines) == 0 {
					continue
				}
				head := strings.TrimSpace(lines[0])
				if !(strings.HasPrefix(head, "Read at") || strings.HasPrefix(head, "Write at") ||
					strings.HasPrefix(head, "Previous read at") || strings.HasPrefix(head, "Previous write at") ||
					strings.HasPrefix(head, "Atomic") || strings.HasPrefix(head, "Previous atomic")) {
					continue
				}
				first := ""
				for _, l := range lines[1:] {
					m := reFrameFunc.FindStringSubmatch(l)
					if m == nil {
						continue
					}
					if strings.Contains(m[1], "flosch/pongo2") {
						engine = true
						if first == "" {
							first = m[1]
						}
					}
				}
				if first == "" {
					for _, l := range lines[1:] {
						if m := reFrameFunc.FindStringSubmatch(l); m != nil {
							first = m[1]
							break
						}
					}
				}
				firsts = append(firsts, first)
			}
			sort.Strings(firsts)
			sig := strings.Join(firsts, " <-> ")
			if seen[sig] {
				continue
			}
			seen[sig] = true
			out = append(out, raceReport{sig: sig, text: "WARNING: DATA RACE" + blk, engine: engine})
		}
	}
	return out
}
