package main

import (
	"errors"
	"fmt"
	"os"
	"path/filepath"
	"regexp"
	"strconv"
	"strings"
	"unicode/utf8"

	"github.com/flosch/pongo2/v6"
)

// C16 - diagnostics point at the right place.

var c16Blocks = []string{"{{", "}}", "{%", "%}", "{#", "#}", "-", " ", "\n", "a", "1", "\"", "'", "\\", "|", ".", "é", "{% verbatim %}", "{% endverbatim %}"}

const c16Batch = 8192

func c16MaxLen(tier string) int {
	if tier == "thorough" {
		return 6
	}
	return 5
}

func c16EnumTotal(tier string) int {
	n, pw := 0, 1
	for l := 0; l <= c16MaxLen(tier); l++ {
		n += pw
		pw *= len(c16Blocks)
	}
	return n
}

func c16EnumString(i int) string {
	pw, l := 1, 0
	for i >= pw {
		i -= pw
		pw *= len(c16Blocks)
		l++
	}
	var sb strings.Builder
	for k := 0; k < l; k++ {
		sb.WriteString(c16Blocks[i%len(c16Blocks)])
		i /= len(c16Blocks)
	}
	return sb.String()
}

// offsetOf maps (line, col) to byte offsets in src: byte-based and rune-based column (either accepted).
func offsetsOf(src string, line, col int) (byteOff, runeOff int, ok bool) {
	if line < 1 || col < 1 {
		return 0, 0, false
	}
	off := 0
	for l := 1; l < line; l++ {
		i := strings.IndexByte(src[off:], '\n')
		if i < 0 {
			return 0, 0, false
		}
		off += i + 1
	}
	end := strings.IndexByte(src[off:], '\n')
	lineText := src[off:]
	if end >= 0 {
		lineText = src[off : off+end+1]
	}
	byteOff = -1
	if col-1 <= len(lineText) {
		byteOff = off + col - 1
	}
	runeOff = -1
	k := 0
	for i := range lineText {
		if k == col-1 {
			runeOff = off + i
			break
		}
		k++
	}
	if runeOff < 0 && k == col-1 {
		runeOff = off + len(lineText)
	}
	return byteOff, runeOff, byteOff >= 0 || runeOff >= 0
}

// tokenTextAt reports whether the raw text of the token starts at offset off of src.
func tokenTextAt(src string, off int, typ int, val string, trim bool) bool {
	if off < 0 || off > len(src) {
		return false
	}
	rest := src[off:]
	switch typ {
	case int(pongo2.TokenString):
		if len(rest) == 0 || (rest[0] != '"' && rest[0] != '\'') {
			return false
		}
		quote := rest[0]
		// unescape until the closing quote
		var sb strings.Builder
		i := 1
		for i < len(rest) && rest[i] != quote {
			if rest[i] == '\\' && i+1 < len(rest) && (rest[i+1] == '"' || rest[i+1] == '\\') {
				sb.WriteByte(rest[i+1])
				i += 2
				continue
			}
			sb.WriteByte(rest[i])
			i++
		}
		return sb.String() == val
	case int(pongo2.TokenSymbol):
		raw := val
		if trim {
			if strings.HasPrefix(val, "{") {
				raw = val + "-"
			} else {
				raw = "-" + val
			}
		}
		return strings.HasPrefix(rest, raw)
	default:
		return strings.HasPrefix(rest, val)
	}
}

func positionOK(src string, line, col int, typ int, val string, trim bool) bool {
	b, r, ok := offsetsOf(src, line, col)
	if !ok {
		return false
	}
	return (b >= 0 && tokenTextAt(src, b, typ, val, trim)) || (r >= 0 && tokenTextAt(src, r, typ, val, trim))
}

func c16CheckTokens(c *C, src string) bool {
	toks, err := pongo2.VerifLex("<string>", src)
	c.Eval(1)
	if err != nil {
		// lexer errors carry a position: it has to lie inside the source
		if err.Filename != "<string>" {
			c.Fail("lexer-error-filename", D{"source": q(src), "filename": err.Filename})
			return false
		}
		if err.Line > 0 {
			if _, _, ok := offsetsOf(src, err.Line, err.Column); !ok {
				c.Fail("lexer-error-position", D{"source": q(src), "line": err.Line, "col": err.Column, "error": err.Error()})
				return false
			}
		}
		return true
	}
	for i, t := range toks {
		if !positionOK(src, t.Line, t.Col, t.Typ, t.Val, t.TrimWhitespaces) {
			c.Fail("token-position", D{"source": q(src), "token_index": i, "token_val": q(t.Val), "token_type": t.Typ, "line": t.Line, "col": t.Col, "trim": t.TrimWhitespaces})
			return false
		}
	}
	if len(toks) > 1 {
		c.Nontrivial("lex:" + src)
	}
	return true
}

// ---- error programs -------------------------------------------------------------

type c16Prog struct {
	files map[string]string // loader files; entry point "/main.tpl" (or main = "" for FromString)
	src   string            // FromString source when files == nil
	exec  bool              // error expected at execution
	kind  string
}

var c16Broken = []struct {
	kind string
	src  string
	exec bool
}{
	{"unknown-tag", "{% nosuchtag x %}", false},
	{"unknown-filter", "{{ v|nosuchfilter }}", false},
	{"unknown-filter-in-chain", "{{ v|upper|nosuchfilter:1 }}", false},
	{"missing-endtag", "{% if v %}text", false},
	{"missing-operand", "{{ 1 + }}", false},
	{"missing-paren", "{{ (1 - 1 }}", false},
	{"unclosed-string", "{{ \"abc }}", false},
	{"unclosed-comment", "{# abc", false},
	{"unclosed-variable", "{{ v ", false},
	{"bad-escape", "{{ \"a\\qb\" }}", false},
	{"newline-in-tag", "{{ v\n }}", false},
	{"malformed-for", "{% for %}{% endfor %}", false},
	{"malformed-if", "{% if v v %}{% endif %}", false},
	{"malformed-set", "{% set %}", false},
	{"malformed-with", "{% with %}{% endwith %}", false},
	{"malformed-block", "{% block %}{% endblock %}", false},
	{"filter-param-missing", "{{ v|default: }}", false},
	{"duplicate-block", "{% block a %}{% endblock %}{% block a %}{% endblock %}", false},
	{"endblock-name", "{% block a %}{% endblock b %}", false},
	{"templatetag-arg", "{% templatetag nosuch %}", false},
	{"autoescape-mode", "{% autoescape maybe %}{% endautoescape %}", false},
	{"filter-tag-unknown", "{% filter nosuchfilter %}x{% endfilter %}", false},
	{"static-include-missing", "{% include \"nope/missing.tpl\" %}", false},
	{"import-missing", "{% import \"nope/missing.tpl\" m %}", false},
	{"ssi-missing", "{% ssi \"nope/missing.tpl\" parsed %}", false},
	{"ssi-plain-missing", "{% ssi \"nope/missing.tpl\" %}", false},
	{"extends-missing", "{% extends \"nope/missing.tpl\" %}", false},
	{"div-zero", "{{ 1 / zero }}", true},
	{"mod-zero", "{{ 7 % zero }}", true},
	{"failing-func", "{{ fail() }}", true},
	{"not-a-func", "{{ v() }}", true},
	{"wrong-argc", "{{ one(1, 2) }}", true},
	{"wrong-argtype", "{{ one(\"s\") }}", true},
	{"index-scalar", "{{ n.x }}", true},
	{"neg-string", "{{ -v }}", true},
	{"macro-too-many", "{% macro m(a) %}{{ a }}{% endmacro %}{{ m(1, 2) }}", true},
	{"filter-exec-error", "{{ n|pluralize:\"a,b,c\" }}", true},
	{"filter-exec-error2", "{{ v|date:\"2006\" }}", true},
	{"filter-exec-error3", "{{ v|yesno:\"only\" }}", true},
	// every built-in filter failure whose message does not depend on the place (a value that could be built once)
	{"filter-floatformat-limit", "{{ 1.5|floatformat:1001 }}", true},
	{"filter-floatformat-limit-neg", "{{ 2.25|floatformat:-2000 }}", true},
	{"filter-center-limit", "{{ v|center:10001 }}", true},
	{"filter-ljust-limit", "{{ v|ljust:10001 }}", true},
	{"filter-rjust-limit", "{{ v|rjust:10001 }}", true},
	{"filter-slice-format", "{{ v|slice:\"x\" }}", true},
	{"filter-pluralize-nan", "{{ v|pluralize }}", true},
	{"filter-removetags-invalid", "{{ v|removetags:\"b<\" }}", true},
	{"filter-yesno-four", "{{ t|yesno:\"a,b,c,d\" }}", true},
	{"filter-time-nontime", "{{ v|time:\"15\" }}", true},
	{"filter-tag-limit", "{% filter center:10001 %}x{% endfilter %}", true},
	// failures raised while a macro imported from another file runs, or by calling it wrongly
	{"imported-macro-too-many", "{% import \"/c16lib.tpl\" lm %}{{ lm(1, 2) }}", true},
	{"imported-macro-body-fails", "{% import \"/c16lib.tpl\" lfail %}{{ lfail() }}", true},
	{"imported-macro-filter-fails", "{% import \"/c16lib.tpl\" lfilter as lf %}{{ lf(3) }}", true},
	{"if-cond-error", "{% if 1 / zero %}x{% endif %}", true},
	{"for-error", "{% for i in fail() %}x{% endfor %}", true},
	{"lazy-include-missing", "{% include missingname %}", true},
}

func c16Ctx() pongo2.Context {
	return pongo2.Context{
		"v": "val", "n": 3, "zero": 0, "t": true, "l": []int{1, 2},
		"fail":        func() (string, error) { return "", fmt.Errorf("deliberate failure") },
		"one":         func(i int) int { return i },
		"missingname": "nope/missing.tpl",
	}
}

func c16Layout(r *Rng) string {
	pool := []string{"text ", "\n", "\r\n", "  ", "é ü ", "日本語", "{# comment #}", "{# é #}", "{% verbatim %}{{ raw }}\n{% endverbatim %}", "{{ \"s \\\" q\" }}", "{{ 'x' }}", "{{- v -}}", "{%- if t -%}ok{%- endif -%}", "{{ v|upper }}", "{% for i in l %}{{ i }}{% endfor %}", "\t", "line\nline\n", "<b>", "{% comment %}{% nosuch %}{% endcomment %}", "{{ n + 1 }}", "😀"}
	n := r.Intn(7)
	var sb strings.Builder
	for i := 0; i < n; i++ {
		sb.WriteString(pool[r.Intn(len(pool))])
	}
	return sb.String()
}

var c16ViaBlocks bool // execute through ExecuteBlocks (block "b") instead of Execute

type c16Obs struct {
	err     *pongo2.Error
	phase   string
	nonPErr error
}

// a macro library every program may import from (also present in the sources the judge knows)
const c16LibName = "/c16lib.tpl"
const c16LibSrc = "lib line 1\n  {% macro lm(a) export %}[{{ a }}]{% endmacro %}\nlib line 3 {% macro lfail() export %}{{ fail() }}{% endmacro %}{% macro lfilter(x) export %}\n  {{ x|pluralize:\"a,b,c\" }}{% endmacro %}"

func c16RunProg(files map[string]string, src string, ctx pongo2.Context) c16Obs {
	withLib := map[string]string{c16LibName: c16LibSrc}
	for k, v := range files {
		withLib[k] = v
	}
	set, _ := newSet(withLib)
	var tpl *pongo2.Template
	var err error
	if files != nil && src == "" {
		tpl, err = set.FromFile("/main.tpl")
	} else {
		tpl, err = set.FromString(src)
	}
	if err != nil {
		pe, ok := err.(*pongo2.Error)
		if !ok {
			return c16Obs{phase: "compile", nonPErr: err}
		}
		return c16Obs{err: pe, phase: "compile"}
	}
	if c16ViaBlocks {
		_, err = tpl.ExecuteBlocks(ctx, []string{"b"})
	} else {
		_, err = tpl.Execute(ctx)
	}
	if err != nil {
		pe, ok := err.(*pongo2.Error)
		if !ok {
			return c16Obs{phase: "execute", nonPErr: err}
		}
		return c16Obs{err: pe, phase: "execute"}
	}
	return c16Obs{phase: "none"}
}

// c16JudgeError checks the structured fields of an error against the sources involved.
// sources maps template names ("<string>", loader names) to their text.
func c16JudgeError(o c16Obs, sources map[string]string) (string, bool) {
	if _, has := sources[c16LibName]; !has {
		withLib := map[string]string{c16LibName: c16LibSrc}
		for k, v := range sources {
			withLib[k] = v
		}
		sources = withLib
	}
	why, known := c16JudgeOne(o, sources)
	if why != "" || o.err == nil {
		return why, known
	}
	// errors quoted inside the error (the failure of a macro body, of an included template ...) are errors with positions
	// too: each of them that names a template and a position must be right about both
	inner := o.err.OrigError
	for depth := 0; depth < 6 && inner != nil; depth++ {
		pe, ok := inner.(*pongo2.Error)
		if !ok || pe == nil {
			break
		}
		if pe.Line > 0 && (pe.Filename != "" || pe.Token != nil) {
			if w, _ := c16JudgeOne(c16Obs{err: pe, phase: "execute"}, sources); w != "" {
				return fmt.Sprintf("the error quoted inside (level %d: %s): %s", depth+1, truncStr(pe.Error(), 160), w), known
			}
		}
		inner = pe.OrigError
	}
	// the same for positions that are only QUOTED in the message (an inner error turned into text): "in F | Line L Col C
	// near 'T'" must be true of F wherever F is one of the templates involved
	for _, m := range reQuotedPos.FindAllStringSubmatch(o.err.Error(), -1) {
		src, isSource := sources[m[1]]
		if !isSource || m[4] == "" {
			continue
		}
		line, _ := strconv.Atoi(m[2])
		col, _ := strconv.Atoi(m[3])
		found := false
		for typ := 0; typ <= 10 && !found; typ++ {
			found = positionOK(src, line, col, typ, m[4], false) || positionOK(src, line, col, typ, m[4], true)
		}
		if !found {
			return fmt.Sprintf("the message says: in %s | Line %d Col %d near '%s' - that text is not at that place of %s", m[1], line, col, m[4], m[1]), known
		}
	}
	return "", known
}

var reQuotedPos = regexp.MustCompile(`in (\S+) \| Line (\d+) Col (\d+) near '(.*?)'\] `)

func c16JudgeOne(o c16Obs, sources map[string]string) (string, bool) {
	if o.nonPErr != nil {
		return "error is not a *pongo2.Error: " + o.nonPErr.Error(), false
	}
	e := o.err
	name := e.Filename
	knownShape := false
	if o.phase == "compile" {
		if name == "" {
			return "compile error without a file name", false
		}
	}
	if name == "" && e.Token != nil {
		name = e.Token.Filename // execution errors raised by filters carry no file name of their own
	}
	if e.Sender == "fromfile" && e.Line > 0 && e.Token != nil {
		// KNOWN FINDING (C16 missing-target): Filename is the missing file, position is the referrer's
		if _, isSource := sources[name]; !isSource {
			name = e.Token.Filename
			knownShape = true
		}
	}
	if e.Line <= 0 {
		if o.phase == "compile" && e.Sender != "fromfile" && e.Sender != "nesting" {
			if _, ok := sources[name]; !ok {
				return fmt.Sprintf("compile error names %q which is not a template involved", name), false
			}
		}
		return "", knownShape
	}
	src, ok := sources[name]
	if !ok {
		return fmt.Sprintf("error with a position names %q which is not a template involved", name), knownShape
	}
	if e.Token != nil {
		if !positionOK(src, e.Line, e.Column, int(e.Token.Typ), e.Token.Val, e.Token.TrimWhitespaces) {
			return fmt.Sprintf("token %q is not found at line %d col %d of %s", e.Token.Val, e.Line, e.Column, name), knownShape
		}
		if e.Token.Line != e.Line || e.Token.Col != e.Column {
			// the error carries its own position; it must still be inside the source (checked above through positionOK)
		}
	} else {
		if _, _, ok := offsetsOf(src, e.Line, e.Column); !ok {
			return fmt.Sprintf("position line %d col %d lies outside %s", e.Line, e.Column, name), knownShape
		}
	}
	if why := c16RawLineWrong(e, name, src); why != "" {
		return why, knownShape
	}
	return "", knownShape
}

// c16RawLineWrong: whenever (*Error).RawLine() says it has the affected line, it is line e.Line of the named source.
func c16RawLineWrong(e *pongo2.Error, name, src string) string {
	line, avail, _ := e.RawLine()
	if !avail {
		return ""
	}
	lines := strings.Split(src, "\n")
	want := ""
	if e.Line >= 1 && e.Line <= len(lines) {
		want = strings.TrimSuffix(lines[e.Line-1], "\r")
	}
	if line != want {
		return fmt.Sprintf("RawLine() returns %q, but line %d of %s is %q", truncStr(line, 120), e.Line, name, truncStr(want, 120))
	}
	return ""
}

// c16RawLineFiles: templates that are real files (LocalFilesystemLoader): compile and execution errors at known lines
// of an included file, of a child's block and of the base; RawLine() must be available and be that very line.
func c16RawLineFiles(c *C) {
	r := c.R
	dir := filepath.Join(workerScratch, fmt.Sprintf("c16raw-%d", c.Idx))
	os.MkdirAll(dir, 0o755)
	defer os.RemoveAll(dir)
	pad := func() string { return strings.Repeat("filler line\n", r.Intn(4)) }
	files := map[string]string{
		"base.tpl":    pad() + "base first {{ 1 }}\n" + pad() + "{% block content %}default{% endblock %}\n" + pad() + "{% block other %}{{ fail() }} in base{% endblock %}\nbase last\n",
		"child.tpl":   "{% extends \"base.tpl\" %}\n" + pad() + "{% block content %}\n" + pad() + "  child text {{ fail() }} after\n{% endblock %}\n" + pad() + "{% block other %}fine{% endblock %}\n",
		"incl.tpl":    pad() + "before {% include \"part.tpl\" %} after\n",
		"part.tpl":    pad() + "part line one\n" + pad() + "   part {{ \"x\"|pluralize:\"a,b,c\" }} tail\n",
		"broken.tpl":  pad() + "ok line\n" + pad() + "  {% if %}broken{% endif %}\n",
		"usebase.tpl": "{% extends \"base.tpl\" %}\n{% block content %}c{% endblock %}\n",
	}
	for n, t := range files {
		os.WriteFile(filepath.Join(dir, n), []byte(t), 0o644)
	}
	loader, err := pongo2.NewLocalFileSystemLoader(dir)
	if err != nil {
		c.Fail("error-position", D{"error": err.Error()})
		return
	}
	set := pongo2.NewSet("c16-raw", loader)
	ctx := pongo2.Context{"fail": func() (string, error) { return "", errors.New("c16: deliberate failure") }}
	seen := 0
	for _, entry := range []string{"child.tpl", "incl.tpl", "broken.tpl", "usebase.tpl"} {
		tpl, cerr := set.FromFile(entry)
		var e error = cerr
		if cerr == nil {
			_, e = tpl.Execute(ctx)
		}
		c.Eval(1)
		pe, ok := e.(*pongo2.Error)
		if !ok || pe == nil {
			c.Fail("error-position", D{"entry": entry, "files": files, "error": errStr(e), "why": "an error with a position was expected"})
			return
		}
		// walk the error and the errors quoted inside it
		for depth := 0; depth < 5 && pe != nil; depth++ {
			if pe.Line > 0 && pe.Filename != "" {
				src, isFile := files[filepath.Base(pe.Filename)]
				if isFile {
					line, avail, _ := pe.RawLine()
					if avail {
						seen++
					}
					if why := c16RawLineWrong(pe, pe.Filename, src); why != "" || (avail && pe.Token != nil && !strings.Contains(line, pe.Token.Val)) {
						c.Fail("error-position", D{"entry": entry, "files": files, "error": truncStr(pe.Error(), 300), "RawLine": q(line), "why": "RawLine(): " + why + " (the line must be the reported line of the named file and contain the reported token)"})
						return
					}
				}
			}
			next, _ := pe.OrigError.(*pongo2.Error)
			pe = next
		}
	}
	if seen == 0 {
		c.Fail("error-position", D{"files": files, "why": "RawLine() was never available for templates that are real files"})
		return
	}
	c.Cover("rawline_of_real_files")
	c.Nontrivial(fmt.Sprintf("rawline:%d", len(files["base.tpl"])+len(files["child.tpl"])))
}

var reLineCol = regexp.MustCompile(`Line \d+ Col \d+`)

// nested error messages embed their own positions, which shift as well
func c16NormPos(s string) string { return reLineCol.ReplaceAllString(s, "Line # Col #") }

func c16ErrSummary(e *pongo2.Error) D {
	if e == nil {
		return D{}
	}
	d := D{"filename": e.Filename, "line": e.Line, "col": e.Column, "sender": e.Sender, "message": e.Error()}
	if e.Token != nil {
		d["token"] = D{"val": q(e.Token.Val), "line": e.Token.Line, "col": e.Token.Col, "file": e.Token.Filename, "typ": int(e.Token.Typ)}
	}
	return d
}

func c16RunProgram(c *C) {
	r := c.R
	b := c16Broken[r.Intn(len(c16Broken))]
	prefix := c16Layout(r)
	suffix := c16Layout(r)
	if strings.HasSuffix(prefix, "{") {
		prefix += " "
	}
	body := prefix + b.src + suffix
	ctx := c16Ctx()
	route := r.Intn(7)
	var files map[string]string
	src := body
	sources := map[string]string{}
	bom := ""
	if r.Chance(25) {
		bom = "\xEF\xBB\xBF" // a file that starts with a byte order mark: three bytes of text like any other
	}
	switch route {
	case 0, 1:
		sources["<string>"] = body
		if bom != "" {
			files = map[string]string{"/main.tpl": bom + body}
			src = ""
			delete(sources, "<string>")
		}
	case 2: // error inside an included file (also one whose name differs from the includer's only in case, or extends it)
		nn := r.Pick([]string{"sub/inc.tpl", "sub/inc.tpl", "Main.tpl", "MAIN.TPL", "main.tpl.inc", "sub/main.tpl", "mäin.tpl"})
		how := r.Pick([]string{"{% include \"" + nn + "\" %}", "{% include \"" + nn + "\" %}", "{% ssi \"" + nn + "\" parsed %}", "{% include \"" + nn + "\" if_exists %}"})
		files = map[string]string{"/main.tpl": c16Layout(r) + how + c16Layout(r), "/" + nn: bom + body}
		src = ""
	case 3: // inside an extended parent's block / the parent itself
		files = map[string]string{"/main.tpl": "{% extends \"base.tpl\" %}{% block b %}child{% endblock %}", "/base.tpl": bom + c16Layout(r) + "{% block b %}x{% endblock %}" + body}
		src = ""
	case 5, 6: // inside a block of a child template (5: Execute, 6: ExecuteBlocks); base and child differ in every line
		files = map[string]string{"/main.tpl": "{% extends \"base.tpl\" %}" + c16Layout(r) + "{% block b %}" + body + "{% endblock %}", "/base.tpl": "base line 1\nbase line 2 " + c16Layout(r) + "{% block b %}x{% endblock %}" + c16Layout(r)}
		src = ""
		if strings.Contains(b.src, "{% macro") || strings.Contains(b.src, "{% block") || strings.Contains(b.src, "{% extends") {
			files = nil
			src = body
			sources["<string>"] = body
		}
	default: // inside an imported macro file / a macro body executed by the importer
		ln := r.Pick([]string{"lib.tpl", "lib.tpl", "Main.tpl", "MAIN.tpl", "main.TPL"})
		files = map[string]string{"/main.tpl": c16Layout(r) + "{% import \"" + ln + "\" mm %}{{ mm() }}", "/" + ln: bom + "{% macro mm() export %}" + body + "{% endmacro %}"}
		src = ""
		if strings.Contains(b.src, "{% macro") || strings.Contains(b.src, "{% block") {
			files = nil
			src = body
			sources["<string>"] = body
		}
	}
	for k, v := range files {
		sources[k] = v
	}
	c16ViaBlocks = route == 6
	o := c16RunProg(files, src, ctx)
	c16ViaBlocks = false
	c.Eval(1)
	if o.phase == "none" {
		// some broken constructs are swallowed by the layout (e.g. inside an unclosed comment): not judged
		c.Unjudged()
		return
	}
	why, known := c16JudgeError(o, sources)
	d := D{"kind": b.kind, "route": route, "sources": sources, "phase": o.phase, "error": c16ErrSummary(o.err)}
	if why != "" {
		d["why"] = why
		c.Fail("error-position", d)
		return
	}
	if known {
		c.AddExtra("known_finding_shape_seen", 1)
	}
	c.Cover("kind_" + b.kind)
	c.Cover("phase_" + o.phase)
	c.Nontrivial(fmt.Sprint(route) + body)
	if c.WantSample() && r.Chance(3) {
		c.Sample(d)
	}
	// (c) shift relation
	if o.err != nil && o.err.Line > 0 && route <= 1 && files == nil {
		a, bcols := r.Intn(4), r.Intn(6)
		ins := strings.Repeat("pad line\n", a) + strings.Repeat("x", bcols)
		o2 := c16RunProg(nil, ins+body, ctx)
		c.Eval(1)
		if o2.err == nil {
			d["shifted_source"] = q(ins + body)
			c.Fail("shift", d)
			return
		}
		wantLine := o.err.Line + a
		wantCol := o.err.Column
		if o.err.Line == 1 {
			wantCol += bcols
		}
		same := o2.err.Line == wantLine && o2.err.Column == wantCol && o2.err.Sender == o.err.Sender &&
			c16NormPos(o2.err.OrigError.Error()) == c16NormPos(o.err.OrigError.Error()) && (o2.err.Token == nil) == (o.err.Token == nil)
		if same && o.err.Token != nil {
			same = o2.err.Token.Val == o.err.Token.Val
		}
		if !same {
			d["inserted"] = q(ins)
			d["shifted_error"] = c16ErrSummary(o2.err)
			d["expected_line_col"] = []int{wantLine, wantCol}
			c.Fail("shift", d)
			return
		}
		c.Cover("shift_checked")
	}
}

func c16Plan(tier string) (enumBatches, lexRandom, progs int) {
	enumBatches = (c16EnumTotal(tier) + c16Batch - 1) / c16Batch
	lexRandom, progs = 4000, 30000
	if tier == "thorough" {
		lexRandom, progs = 100000, 800000
	}
	return
}

// c16DeepNesting: composition chains that run into the engine's nesting limit (distinct templates, cycles, through
// include / extends / import / ssi parsed, at compile time and at execution time). The error names a template that was
// really loaded, and a position it carries lies in that template's source at the reported token.
func c16DeepNesting(c *C) {
	r := c.R
	kind := r.Pick([]string{"include", "lazy-include", "extends", "import", "ssi"})
	cycle := r.Intn(3) // 0: chain of distinct templates, 1: a <-> b, 2: a -> b -> c -> a
	n := 1100
	if cycle > 0 {
		n = cycle + 1
	}
	files := map[string]string{}
	name := func(i int) string { return fmt.Sprintf("/d/t%d.tpl", i) }
	for i := 0; i < n; i++ {
		next := name((i + 1) % n)
		if cycle == 0 && i == n-1 {
			files[name(i)] = "end of the chain"
			break
		}
		pad := strings.Repeat("pad\n", i%3) + strings.Repeat(" ", i%5)
		switch kind {
		case "include":
			files[name(i)] = pad + `{% include "` + next + `" %}`
		case "lazy-include":
			files[name(i)] = pad + `{% include nextname` + fmt.Sprint((i+1)%n) + ` %}`
		case "extends":
			files[name(i)] = `{% extends "` + next + `" %}` + pad
		case "import":
			files[name(i)] = pad + `{% import "` + next + `" mm %}{% macro mm() export %}{% endmacro %}`
		default:
			files[name(i)] = pad + `{% ssi "` + next + `" parsed %}`
		}
	}
	ctx := pongo2.Context{}
	for i := 0; i < n; i++ {
		ctx["nextname"+fmt.Sprint(i)] = name(i)
	}
	set, loader := newSet(files)
	var pe *pongo2.Error
	phase := "compile"
	tpl, err := set.FromFile(name(0))
	c.Eval(1)
	if err == nil {
		phase = "execute"
		_, err = tpl.Execute(ctx)
	}
	if err == nil {
		c.Fail("error-position", D{"kind": "nesting-limit/" + kind, "why": "no error although the chain is deeper than any plausible limit (or cyclic)"})
		return
	}
	pe, ok := err.(*pongo2.Error)
	if !ok {
		c.Fail("error-position", D{"kind": "nesting-limit/" + kind, "why": "error is not a *pongo2.Error: " + err.Error()})
		return
	}
	_, hits := loader.snapshotGets()
	loaded := map[string]bool{}
	for _, h := range hits {
		loaded[h] = true
	}
	d := D{"kind": "nesting-limit/" + kind, "shape": []string{"chain of 1100 distinct templates", "cycle of 2", "cycle of 3"}[cycle], "phase": phase, "error": c16ErrSummary(pe), "templates_loaded": len(loaded)}
	if pe.Filename == "" || !loaded[pe.Filename] {
		d["why"] = fmt.Sprintf("the error names %q, a template that was never loaded", pe.Filename)
		c.Fail("error-position", d)
		return
	}
	if why, _ := c16JudgeError(c16Obs{err: pe, phase: phase}, files); why != "" {
		d["why"] = why
		c.Fail("error-position", d)
		return
	}
	c.Cover("nesting_limit_" + kind)
	c.Nontrivial(fmt.Sprint("nest", kind, cycle))
}

func c16Run(c *C) {
	eb, lr, _ := c16Plan(c.Tier)
	if c.Idx >= eb+lr && (c.Idx-eb-lr)%400 == 7 {
		c16DeepNesting(c)
		return
	}
	if c.Idx >= eb+lr && (c.Idx-eb-lr)%400 == 9 {
		c16RawLineFiles(c)
		return
	}
	switch {
	case c.Idx < eb:
		lo := c.Idx * c16Batch
		hi := lo + c16Batch
		if t := c16EnumTotal(c.Tier); hi > t {
			hi = t
		}
		for i := lo; i < hi; i++ {
			if !c16CheckTokens(c, c16EnumString(i)) {
				return
			}
		}
		c.CoverN("lexer_block_sequences_enumerated", hi-lo)
	case c.Idx < eb+lr:
		// random realistic token streams: layouts and valid programs, CRLF, multibyte
		src := c16Layout(c.R) + c16Broken[c.R.Intn(len(c16Broken))].src + c16Layout(c.R)
		if !c16CheckTokens(c, src) {
			return
		}
		if c.R.Chance(20) && utf8.ValidString(src) {
			c16CheckTokens(c, strings.ReplaceAll(src, "\n", "\r\n"))
		}
		c.Cover("lexer_random_layouts")
	default:
		c16RunProgram(c)
	}
}

func c16Finding(c *C, spec map[string]any) bool {
	files := map[string]string{}
	for k, v := range spec["files"].(map[string]any) {
		files[k] = v.(string)
	}
	o := c16RunProg(files, "", c16Ctx())
	if o.err == nil {
		return false
	}
	_, isSource := files[o.err.Filename]
	return o.err.Sender == "fromfile" && o.err.Line > 0 && !isSource
}

func init() {
	register(&Prop{
		ID: "C16",
		Cases: func(tier string) int {
			a, b, p := c16Plan(tier)
			return a + b + p
		},
		Run:     c16Run,
		Finding: c16Finding,
		Rule: "tokens: exhaustively all sequences of up to 5 (quick) / 6 (thorough) lexer-significant blocks from {{ }} {% %} {# #} - space LF a 1 \" ' \\ | . é {% verbatim %} {% endverbatim %}, plus random layouts; every token's (line, col) must be the byte (or rune) position at which its raw text starts in the source. " +
			"errors: 42 kinds of deliberately broken programs (compile and execution errors) in random multi-line/CRLF/multi-byte layouts, as the top-level source or inside an included, extended or imported file: every compile error names a template involved, every position lies in the named source and the token text is found there; " +
			"shift: inserting a lines and b columns of plain text shifts the reported position by exactly (a, b). distinct_nontrivial = distinct multi-token sources lexed plus distinct broken programs judged.",
		MinNontriv:  5000,
		Assumptions: []string{"columns may be byte- or rune-based (both accepted)", "known finding quarantine: for errors of sender 'fromfile' that carry the referring tag's position the position is checked against the referring template (see KNOWN_FINDINGS.txt)"},
	})
}
