package main

import (
	"bytes"
	"errors"
	"fmt"
	"io"
	"os"
	"os/exec"
	"path"
	"path/filepath"
	"sort"
	"strings"
	"sync"
	"testing/iotest"

	"github.com/flosch/pongo2/v6"
)

// C11 - templates are composed only through the set's loaders, by the names written.

// recording path-like loader over a virtual tree
type vLoader struct {
	id    int
	files map[string]string
	mu    sync.Mutex
	gets  []string
	hits  []string
	// mark: this loader has a name space of its own (like a loader with its own root directory): Abs answers with
	// names carrying the loader's mark and Get knows only such names. Names are recorded without the mark.
	mark    bool
	foreign []string // names Get was asked for that this loader's Abs did not produce
}

func vUnmark(p string) string {
	if i := strings.Index(p, "#L"); i >= 0 {
		return p[:i]
	}
	return p
}

func (l *vLoader) Abs(base, name string) string {
	base, name = vUnmark(base), vUnmark(name)
	var r string
	switch {
	case strings.HasPrefix(name, "/"):
		r = path.Clean(name)
	case base == "":
		r = path.Clean("/" + name)
	default:
		r = path.Join(path.Dir(base), name)
	}
	if l.mark {
		r += fmt.Sprintf("#L%d", l.id)
	}
	return r
}

func (l *vLoader) Get(p string) (io.Reader, error) {
	l.mu.Lock()
	defer l.mu.Unlock()
	if l.mark {
		suffix := fmt.Sprintf("#L%d", l.id)
		if !strings.HasSuffix(p, suffix) {
			l.foreign = append(l.foreign, p)
			return nil, &os.PathError{Op: "open", Path: p, Err: os.ErrNotExist}
		}
		p = strings.TrimSuffix(p, suffix)
	} else if strings.Contains(p, "#L") {
		l.foreign = append(l.foreign, p)
		return nil, &os.PathError{Op: "open", Path: p, Err: os.ErrNotExist}
	}
	l.gets = append(l.gets, p)
	s, ok := l.files[p]
	if !ok {
		if len(l.gets)%2 == 0 {
			return nil, fmt.Errorf("vLoader%d: no such template %q", l.id, p) // a plain error ...
		}
		return nil, &os.PathError{Op: "open", Path: p, Err: os.ErrNotExist} // ... or one wrapping fs.ErrNotExist
	}
	l.hits = append(l.hits, p)
	// the reader is whatever the loader likes: every legal io.Reader behaviour delivers the same template
	switch (len(l.gets) + l.id + len(s)) % 8 {
	case 0:
		return iotest.DataErrReader(strings.NewReader(s)), nil // the last bytes arrive together with io.EOF (tar entries ...)
	case 1:
		return iotest.OneByteReader(strings.NewReader(s)), nil
	case 2:
		return iotest.HalfReader(bytes.NewBufferString(s)), nil
	case 3:
		return bytes.NewBufferString(s), nil // has Len(), no Size()/Stat()
	case 4:
		return &vSizedReader{Reader: iotest.DataErrReader(bytes.NewReader([]byte(s))), n: len(s)}, nil // Len() + data with EOF
	case 5:
		return io.MultiReader(strings.NewReader(s[:len(s)/2]), iotest.DataErrReader(strings.NewReader(s[len(s)/2:]))), nil
	}
	return readerOfKind(s, (len(l.gets)+len(s))%3), nil // partly consumed sized readers, section readers
}

// vSizedReader: a reader that knows its size up front and delivers its last chunk together with io.EOF.
type vSizedReader struct {
	io.Reader
	n int
}

func (v *vSizedReader) Len() int    { return v.n }
func (v *vSizedReader) Size() int64 { return int64(v.n) }

var c11Root string // real directory holding the canary files; all virtual names live below it
var c11RelNames = []string{"m.tpl", "x1.tpl", "x2.tpl", "a/y1.tpl", "a/y2.tpl", "a/b/z1.tpl", "a/b/z2.tpl", "c/w1.tpl", "c/w2.tpl", "base.tpl", "a/base2.tpl", "lib.tpl", "a/lib2.tpl", "missing.tpl", "a/missing2.tpl"}

func c11Init() {
	c11Root = filepath.Join(workerScratch, "canary")
	for i, n := range c11RelNames {
		p := filepath.Join(c11Root, n)
		os.MkdirAll(filepath.Dir(p), 0o755)
		os.WriteFile(p, []byte(fmt.Sprintf("CANARY-%d {{ 1 }}", i)), 0o644)
	}
}

type c11Ref struct {
	kind     string // include lazy extends import ssi ssiparsed
	written  string // the name as written in the template
	target   string // resolved absolute name
	withWho  string // with who="..." ("" = none)
	only     bool
	ifExists bool
	missing  bool
	shadow   string // the includer binds cv locally around the reference ("" = not)
}

type c11File struct {
	name    string
	id      string
	refs    []c11Ref
	extends *c11Ref
	isLib   bool
	isBase  bool
}

type c11World struct {
	files   map[string]*c11File // by absolute name
	owner   map[string]int      // which loader serves the winning copy
	loaders []*vLoader
}

func c11Written(r *Rng, from, target string) string {
	// rooted, relative or via ..
	switch r.Intn(3) {
	case 0:
		return target
	default:
		rel, err := filepath.Rel(path.Dir(from), target)
		if err != nil {
			return target
		}
		if r.Chance(25) {
			// a detour through a sibling directory name
			rel = path.Join("zz", "..", rel)
			if strings.HasPrefix(rel, "/") {
				return target
			}
		}
		return rel
	}
}

func (w *c11World) source(f *c11File) string {
	var sb strings.Builder
	if f.isLib {
		return "ignored" + f.id + "{% macro mm() export %}[" + f.id + ":macro {{ who }}]{% endmacro %}"
	}
	if f.extends != nil {
		sb.WriteString("{% extends \"" + f.extends.written + "\" %}outside" + f.id + "{% block blk %}[" + f.id + ":blk {{ who }}{{ cv }}]")
		for _, r := range f.refs {
			sb.WriteString(w.refSrc(r))
		}
		sb.WriteString("{% endblock %}")
		return sb.String()
	}
	sb.WriteString("[" + f.id + " {{ who }}{{ cv }}]")
	if f.isBase {
		sb.WriteString("{% block blk %}[" + f.id + ":baseblk]{% endblock %}")
	}
	for _, r := range f.refs {
		sb.WriteString(w.refSrc(r))
	}
	sb.WriteString("[/" + f.id + "]")
	return sb.String()
}

func (w *c11World) refSrc(r c11Ref) string {
	if r.shadow != "" {
		r2 := r
		r2.shadow = ""
		return "{% with cv=\"" + r.shadow + "\" %}" + w.refSrc(r2) + "{% endwith %}"
	}
	tail := ""
	if r.ifExists {
		tail += " if_exists"
	}
	if r.withWho != "" {
		tail += " with who=\"" + r.withWho + "\""
		if r.only {
			tail += " only"
		}
	}
	switch r.kind {
	case "include":
		return "{% include \"" + r.written + "\"" + tail + " %}"
	case "lazy":
		return "{% include (\"" + r.written + "\")" + tail + " %}" // not a leading string literal: resolved at run time
	case "import":
		return "{% import \"" + r.written + "\" mm %}{{ mm() }}"
	case "ssi":
		return "{% ssi \"" + r.written + "\" %}"
	case "ssiparsed":
		return "{% ssi \"" + r.written + "\" parsed %}"
	}
	return ""
}

// ---- reference composition ----------------------------------------------------------

type c11Sim struct {
	w         *c11World
	hits      map[string]int // expected successful fetches per absolute name
	out       strings.Builder
	failed    string // name of a missing template that makes the rendering fail ("" = none)
	failAt    string // "compile" or "execute"
	executing bool
}

func (s *c11Sim) compile(name string) bool {
	f := s.w.files[name]
	if f == nil {
		return false
	}
	s.hits[name]++
	if f.extends != nil {
		if !s.compile(f.extends.target) {
			s.fail(f.extends.target, "compile")
			return true
		}
	}
	for _, r := range f.refs {
		switch r.kind {
		case "include", "import", "ssiparsed":
			if !s.compile(r.target) {
				if r.ifExists && r.kind == "include" {
					continue
				}
				s.fail(r.target, "compile")
			}
		case "ssi":
			if s.w.files[r.target] == nil {
				s.fail(r.target, "compile")
			} else {
				s.hits[r.target]++
			}
		}
	}
	return true
}

func (s *c11Sim) fail(name, at string) {
	if s.failed == "" {
		s.failed, s.failAt = name, at
		if s.executing {
			s.failAt = "execute" // compiling a lazily included file happens while executing
		}
	}
}

type c11Scope struct{ who, cv string }

func (s *c11Sim) execute(name string, sc c11Scope) {
	f := s.w.files[name]
	if f.extends != nil {
		// the parent's document with this template's block
		p := s.w.files[f.extends.target]
		s.out.WriteString("[" + p.id + " " + sc.who + sc.cv + "]")
		s.out.WriteString("[" + f.id + ":blk " + sc.who + sc.cv + "]")
		for _, r := range f.refs {
			s.execRef(r, sc)
		}
		for _, r := range p.refs {
			s.execRef(r, sc)
		}
		s.out.WriteString("[/" + p.id + "]")
		return
	}
	s.out.WriteString("[" + f.id + " " + sc.who + sc.cv + "]")
	if f.isBase {
		s.out.WriteString("[" + f.id + ":baseblk]")
	}
	for _, r := range f.refs {
		s.execRef(r, sc)
	}
	s.out.WriteString("[/" + f.id + "]")
}

func (s *c11Sim) execRef(r c11Ref, sc c11Scope) {
	if s.failed != "" {
		return
	}
	if r.shadow != "" {
		sc.cv = r.shadow // a tag-bound name of the includer shadows the context entry, also for the included template
	}
	inner := sc
	if r.withWho != "" {
		inner.who = r.withWho
		if r.only {
			inner.cv = ""
		}
	}
	switch r.kind {
	case "include":
		if s.w.files[r.target] == nil {
			return // if_exists
		}
		s.execute(r.target, inner)
	case "lazy":
		if !s.compile(r.target) {
			if r.ifExists {
				return
			}
			s.fail(r.target, "execute")
			return
		}
		if s.failed != "" {
			return
		}
		s.execute(r.target, inner)
	case "import":
		s.out.WriteString("[" + s.w.files[r.target].id + ":macro " + sc.who + "]")
	case "ssi":
		s.out.WriteString(s.w.source(s.w.files[r.target]))
	case "ssiparsed":
		s.execute(r.target, sc)
	}
}

// ---- generation --------------------------------------------------------------------

func c11Gen(r *Rng) (*c11World, string) {
	w := &c11World{files: map[string]*c11File{}, owner: map[string]int{}}
	nl := 1 + r.Intn(3)
	for i := 0; i < nl; i++ {
		w.loaders = append(w.loaders, &vLoader{id: i, files: map[string]string{}})
	}
	if nl > 1 && r.Bool() {
		// loaders with name spaces of their own (every loader but, sometimes, the first)
		for i, l := range w.loaders {
			l.mark = i > 0 || r.Bool()
		}
	}
	abs := func(rel string) string { return path.Join(c11Root, rel) }
	// plain content files, ordered: a file refers only to later ones (acyclic)
	names := []string{"m.tpl", "x1.tpl", "a/y1.tpl", "a/b/z1.tpl", "c/w1.tpl", "x2.tpl", "a/y2.tpl", "a/b/z2.tpl", "c/w2.tpl"}
	n := 3 + r.Intn(len(names)-2)
	var order []*c11File
	for i := 0; i < n; i++ {
		f := &c11File{name: abs(names[i]), id: fmt.Sprintf("F%d", i)}
		w.files[f.name] = f
		order = append(order, f)
	}
	base := &c11File{name: abs("base.tpl"), id: "B1", isBase: true}
	base2 := &c11File{name: abs("a/base2.tpl"), id: "B2", isBase: true}
	lib := &c11File{name: abs("lib.tpl"), id: "L1", isLib: true}
	lib2 := &c11File{name: abs("a/lib2.tpl"), id: "L2", isLib: true}
	for _, f := range []*c11File{base, base2, lib, lib2} {
		w.files[f.name] = f
	}
	missingUsed := false
	nlazy := 0
	for i, f := range order {
		if i > 0 && r.Chance(20) {
			b := []*c11File{base, base2}[r.Intn(2)]
			f.extends = &c11Ref{kind: "extends", target: b.name, written: c11Written(r, f.name, b.name)}
		}
		nrefs := r.Intn(4)
		if i == 0 {
			nrefs = 1 + r.Intn(4)
		}
		for k := 0; k < nrefs; k++ {
			var ref c11Ref
			switch r.Intn(9) {
			case 0:
				l := []*c11File{lib, lib2}[r.Intn(2)]
				ref = c11Ref{kind: "import", target: l.name}
				if r.Chance(8) && !missingUsed {
					ref.target, ref.missing, missingUsed = abs("a/missing2.tpl"), true, true
				}
			case 1, 2:
				if i+1 >= len(order) {
					continue
				}
				t := order[i+1+r.Intn(len(order)-i-1)]
				ref = c11Ref{kind: r.Pick([]string{"ssi", "ssiparsed"}), target: t.name}
				if ref.kind == "ssi" && (f.extends != nil) {
					ref.kind = "ssiparsed"
				}
				if r.Chance(8) && !missingUsed {
					ref.target, ref.missing, missingUsed = abs("missing.tpl"), true, true
				}
			default:
				if i+1 >= len(order) {
					continue
				}
				t := order[i+1+r.Intn(len(order)-i-1)]
				ref = c11Ref{kind: "include", target: t.name}
				if r.Chance(35) && nlazy < 6 {
					ref.kind = "lazy"
				}
				if r.Chance(15) {
					ref.ifExists = true
				}
				if r.Chance(12) && !missingUsed {
					ref.target = abs([]string{"missing.tpl", "a/missing2.tpl"}[r.Intn(2)])
					ref.missing = true
					if !r.Chance(40) {
						ref.ifExists = true
					} else {
						missingUsed = true
					}
				}
				if r.Chance(45) || ref.kind == "lazy" {
					nlazy++
					ref.withWho = fmt.Sprintf("w%d_%d", i, k)
					ref.only = r.Chance(40)
				}
			}
			ref.written = c11Written(r, f.name, ref.target)
			if (ref.kind == "include" || ref.kind == "lazy" || ref.kind == "ssiparsed") && r.Chance(25) {
				ref.shadow = fmt.Sprintf("SH%d_%d", i, k)
			}
			f.refs = append(f.refs, ref)
		}
	}
	// distribute the files over the loaders; earlier loaders may hold a shadowing copy that must win
	for name, f := range w.files {
		own := r.Intn(nl)
		w.owner[name] = own
		w.loaders[own].files[name] = w.source(f)
		for j := own + 1; j < nl; j++ {
			if r.Chance(40) {
				w.loaders[j].files[name] = "SHADOWED-COPY-IN-LATER-LOADER " + f.id
			}
		}
	}
	return w, order[0].name
}

// c11LazySequences: one lazy include node executed with a sequence of names (existing, missing, repeated),
// on one compiled template executed several times.
// c11BrokenReader: the first loader has the name but its reader fails while being read; a later loader holds a copy
// under the same name. The first loader that HAS the name wins: the outcome is the read error, never the later copy.
type c11FailingReader struct {
	data string
	off  int
	at   int
}

func (f *c11FailingReader) Read(p []byte) (int, error) {
	if f.off >= f.at {
		return 0, errors.New("c11: read error half way through the file")
	}
	n := copy(p, f.data[f.off:f.at])
	f.off += n
	return n, nil
}

type c11ReadFailLoader struct {
	vLoader
	failing map[string]bool
}

func (l *c11ReadFailLoader) Get(p string) (io.Reader, error) {
	rd, err := l.vLoader.Get(p)
	if err == nil && l.failing[p] {
		return &c11FailingReader{data: l.files[p], at: len(l.files[p]) / 2}, nil
	}
	return rd, err
}

func c11BrokenReader(c *C) {
	r := c.R
	first := &c11ReadFailLoader{vLoader: vLoader{id: 0, files: map[string]string{"/part.tpl": "FIRST-LOADER-COPY of part {{ 1 }} with a longer text", "/lib.tpl": "{% macro m() export %}FIRST-LIB{% endmacro %} and more text", "/base.tpl": "FIRST-BASE{% block b %}{% endblock %} and more text"}}, failing: map[string]bool{}}
	second := &vLoader{id: 1, files: map[string]string{"/part.tpl": "SHADOWED-COPY part", "/lib.tpl": "{% macro m() export %}SHADOWED-COPY lib{% endmacro %}", "/base.tpl": "SHADOWED-COPY base{% block b %}{% endblock %}"}}
	routes := []struct{ name, main, target string }{
		{"static include", `<{% include "/part.tpl" %}>`, "/part.tpl"}, {"include if_exists", `<{% include "/part.tpl" if_exists %}>`, "/part.tpl"}, {"computed-name include", `<{% include pn %}>`, "/part.tpl"},
		{"computed-name include if_exists", `<{% include pn if_exists %}>`, "/part.tpl"}, {"ssi", `<{% ssi "/part.tpl" %}>`, "/part.tpl"}, {"ssi parsed", `<{% ssi "/part.tpl" parsed %}>`, "/part.tpl"},
		{"import", `{% import "/lib.tpl" m %}<{{ m() }}>`, "/lib.tpl"},
		{"ssi inside an existing template that is included with if_exists (holder)", `<{% include "/holder.tpl" if_exists %}>`, "/part.tpl"},
		{"ssi inside an existing template that is included by a computed name with if_exists (holder)", `<{% include hn if_exists %}>`, "/part.tpl"},
		{"include inside an existing template that is included with if_exists (holder2)", `<{% include "/holder2.tpl" if_exists %}>`, "/part.tpl"}, {"extends", `{% extends "/base.tpl" %}{% block b %}x{% endblock %}`, "/base.tpl"}, {"FromFile", ``, "/part.tpl"},
	}
	rt := routes[r.Intn(len(routes))]
	first.failing[rt.target] = true
	first.files["/main.tpl"] = rt.main
	first.files["/holder.tpl"] = `holder[{% ssi "/part.tpl" %}]`
	first.files["/holder2.tpl"] = `holder2[{% include "/part.tpl" %}]`
	entry := "/main.tpl"
	if rt.name == "FromFile" {
		entry = "/part.tpl"
	}
	set := pongo2.NewSet("c11-broken-reader", first, second)
	var out string
	tpl, err := set.FromFile(entry)
	if err == nil {
		out, err = tpl.Execute(pongo2.Context{"pn": "/part.tpl", "hn": "/holder.tpl"})
	}
	c.Eval(1)
	d := D{"route": rt.name, "main": rt.main, "loader0": "has " + rt.target + " but its reader fails half way", "loader1": "holds a SHADOWED-COPY of " + rt.target, "output": q(out), "error": errStr(err), "loader1_get_calls": second.gets}
	if strings.Contains(out, "SHADOWED-COPY") || strings.Contains(errStr(err), "SHADOWED-COPY") {
		c.Fail("later-loader-won", d)
		return
	}
	if err == nil && !(strings.Contains(rt.name, "if_exists") && !strings.Contains(rt.name, "holder") && out == "<>") {
		// (with if_exists a file that cannot be read may count as absent: the property does not say; it renders nothing then)
		c.Fail("read-error-lost", d)
		return
	}
	for _, g := range second.gets {
		if g == rt.target {
			c.Fail("later-loader-won", d)
			return
		}
	}
	c.Cover("broken_reader_" + strings.ReplaceAll(rt.name, " ", "_"))
	c.Nontrivial("brokenreader:" + rt.name)
}

func c11LazySequences(c *C) {
	r := c.R
	files := map[string]string{"/dir/a.tpl": "[A {{ n }}]", "/dir/b.tpl": "[B]", "/other/a.tpl": "[OTHER-A]", "/dir/main.tpl": "", "/a.tpl": "[ROOT-A]"}
	ifExists := r.Chance(60)
	tail := ""
	if ifExists {
		tail = " if_exists"
	}
	files["/dir/main.tpl"] = "{% for n in names %}<{% include n" + tail + " %}>{% endfor %}"
	set, loader := newSet(files)
	tpl, err := set.FromFile("/dir/main.tpl")
	if err != nil {
		c.Fail("compile-error", D{"files": files, "error": err.Error()})
		return
	}
	content := map[string]string{"a.tpl": "[A a.tpl]", "b.tpl": "[B]", "/other/a.tpl": "[OTHER-A]", "../a.tpl": "[ROOT-A]", "./a.tpl": "[A ./a.tpl]"}
	pool := []string{"a.tpl", "b.tpl", "missing.tpl", "/other/a.tpl", "../a.tpl", "gone/x.tpl", "./a.tpl", "missing.tpl"}
	var deployed []string
	for ex := 0; ex < 5; ex++ {
		// between two executions of the compiled template the tree changes: a file that was missing is deployed, a file is
		// removed, a second loader (AddLoader) starts serving a name nobody had: a name means what the loaders say NOW
		if ex > 0 && r.Chance(50) {
			loader.mu.Lock()
			switch r.Intn(4) {
			case 0:
				loader.files["/dir/missing.tpl"] = "[DEPLOYED-LATER]"
				content["missing.tpl"] = "[DEPLOYED-LATER]"
				deployed = append(deployed, "before execution "+fmt.Sprint(ex)+": /dir/missing.tpl deployed")
			case 1:
				delete(loader.files, "/dir/b.tpl")
				delete(content, "b.tpl")
				deployed = append(deployed, "before execution "+fmt.Sprint(ex)+": /dir/b.tpl removed")
			case 2:
				loader.files["/dir/b.tpl"] = "[B-NEW-VERSION]"
				content["b.tpl"] = "[B-NEW-VERSION]"
				deployed = append(deployed, "before execution "+fmt.Sprint(ex)+": /dir/b.tpl replaced")
			default:
				if _, has := content["gone/x.tpl"]; !has {
					set.AddLoader(newMemLoader(map[string]string{"/dir/gone/x.tpl": "[FROM-THE-ADDED-LOADER]"}))
					content["gone/x.tpl"] = "[FROM-THE-ADDED-LOADER]"
					deployed = append(deployed, "before execution "+fmt.Sprint(ex)+": AddLoader(loader serving /dir/gone/x.tpl)")
				}
			}
			loader.mu.Unlock()
		}
		var names []string
		for i := 1 + r.Intn(6); i > 0; i-- {
			names = append(names, pool[r.Intn(len(pool))])
		}
		var want strings.Builder
		wantErr := ""
		for _, n := range names {
			if txt, ok := content[n]; ok {
				want.WriteString("<" + txt + ">")
			} else if ifExists {
				want.WriteString("<>")
			} else {
				wantErr = n
				break
			}
		}
		loader.reset()
		out, xerr := tpl.Execute(pongo2.Context{"names": names})
		c.Eval(1)
		d := D{"files": files, "names": names, "execution": ex, "output": q(out), "error": errStr(xerr), "changes_of_the_tree": deployed}
		if wantErr != "" {
			if xerr == nil {
				d["expected"] = "an error naming " + wantErr
				c.Fail("missing-template-not-reported", d)
				return
			}
			continue
		}
		if xerr != nil || out != want.String() {
			d["expected"] = q(want.String())
			c.Fail("composition-mismatch", d)
			return
		}
		_, hits := loader.snapshotGets()
		existing := 0
		for _, n := range names {
			if _, ok := content[n]; ok && n != "gone/x.tpl" { // (gone/x.tpl is served by the loader added later, not by this one)
				existing++
			}
		}
		if len(hits) != existing {
			d["successful_fetches"] = hits
			d["expected_fetches"] = existing
			c.Fail("fetch-accounting", d)
			return
		}
	}
	c.Cover("lazy_name_sequences")
	c.Nontrivial("lazyseq:" + files["/dir/main.tpl"] + fmt.Sprint(r.U64()%1000))
}

// c11ManyIncludes: a page that includes existing, shallow partials very many times (rows of a table): each of them is
// the template its name says, the 1st like the 1500th - by a literal or a computed name, in one loop, in nested loops,
// as siblings at the top level and inside an included partial.
func c11ManyIncludes(c *C) {
	r := c.R
	n := 1001 + r.Intn(600)
	rows := make([]int, n)
	for i := range rows {
		rows[i] = i
	}
	var sib strings.Builder
	for i := 0; i < n; i++ {
		sib.WriteString(r.Pick([]string{`{% include "/row.tpl" %}`, `{% include rn %}`, `{% include "/row.tpl" with k=1 %}`}))
	}
	forms := []struct{ name, src, want string }{
		{"static include in one loop", `{% for i in rows %}{% include "/row.tpl" %}{% endfor %}`, strings.Repeat("[row]", n)},
		{"computed-name include in one loop", `{% for i in rows %}{% include rn %}{% endfor %}`, strings.Repeat("[row]", n)},
		{"include if_exists in one loop", `{% for i in rows %}{% include "/row.tpl" if_exists %}{% include "/nope.tpl" if_exists %}{% endfor %}`, strings.Repeat("[row]", n)},
		{"siblings at the top level", sib.String(), strings.Repeat("[row]", n)},
		{"include of a partial that includes, in one loop", `{% for i in rows %}{% include "/outer.tpl" %}{% endfor %}`, strings.Repeat("<[row]>", n)},
		{"loop inside an included partial", `{% include "/loop.tpl" %}|{% include "/loop.tpl" %}`, strings.Repeat("[row]", n) + "|" + strings.Repeat("[row]", n)},
		{"macro called in one loop, including", `{% macro m() %}{% include "/row.tpl" %}{% endmacro %}{% for i in rows %}{{ m() }}{% endfor %}`, strings.Repeat("[row]", n)},
		{"ssi parsed in one loop", `{% for i in rows %}{% ssi "/row.tpl" parsed %}{% endfor %}`, strings.Repeat("[row]", n)},
	}
	f := forms[r.Intn(len(forms))]
	set, _ := newSet(map[string]string{"/row.tpl": "[row]", "/outer.tpl": `<{% include "/row.tpl" %}>`, "/loop.tpl": `{% for i in rows %}{% include "/row.tpl" %}{% endfor %}`, "/main.tpl": f.src})
	tpl, err := set.FromFile("/main.tpl")
	if err != nil {
		c.Fail("composition-mismatch", D{"form": f.name, "includes": n, "compile_err": err.Error()})
		return
	}
	for run := 0; run < 2; run++ {
		out, xerr := execSpread(tpl, pongo2.Context{"rows": rows, "rn": "/row.tpl"}, uint64(c.Idx+run))
		c.Eval(1)
		if xerr != nil || out != f.want {
			c.Fail("composition-mismatch", D{"form": f.name, "source": truncStr(f.src, 300), "includes_executed": n, "output": q(truncStr(out, 200)), "output_len": len(out), "expected_len": len(f.want), "exec_err": errStr(xerr), "execution": run + 1,
				"why": "every include names an existing, acyclic, one-level partial; the number of includes a page executes is not a nesting depth"})
			return
		}
	}
	c.Cover("many_includes:" + f.name)
	c.Nontrivial(fmt.Sprintf("many:%s:%d", f.name, n))
}

// c11BigFiles: the file a reference names is obtained completely, whatever its size: targets just beyond 64 KiB,
// 1 MiB, 4 MiB, 8 MiB and 16 MiB reached through plain ssi, ssi parsed, static and computed-name include and extends.
func c11BigFiles(c *C) {
	r := c.R
	size := r.Pick2([]int{1<<16 + 1, 1<<20 + 1, 4<<20 + 1, 4<<20 + 4097, 8<<20 + 3, 16<<20 + 1})
	unit := r.Pick([]string{"0123456789abcdef", "line of plain text\n", "é日本😀 ", "x"})
	big := strings.Repeat(unit, size/len(unit)+1)[:size-3] + "END"
	files := map[string]string{"/big.txt": big, "/base.tpl": "<{% block b %}{% endblock %}>" + big}
	forms := []struct{ name, src, want string }{
		{"plain ssi", `[{% ssi "/big.txt" %}]`, "[" + big + "]"},
		{"ssi parsed", `[{% ssi "/big.txt" parsed %}]`, "[" + big + "]"},
		{"static include", `[{% include "/big.txt" %}]`, "[" + big + "]"},
		{"computed-name include", `[{% include nm %}]`, "[" + big + "]"},
		{"extends", `{% extends "/base.tpl" %}{% block b %}x{% endblock %}`, "<x>" + big},
		{"plain ssi twice", `{% ssi "/big.txt" %}|{% ssi "/big.txt" %}`, big + "|" + big},
	}
	f := forms[r.Intn(len(forms))]
	files["/main.tpl"] = f.src
	set, _ := newSet(files)
	tpl, err := set.FromFile("/main.tpl")
	var out string
	if err == nil {
		out, err = execSpread(tpl, pongo2.Context{"nm": "/big.txt"}, uint64(c.Idx))
	}
	c.Eval(1)
	if err != nil || out != f.want {
		first := 0
		for first < len(out) && first < len(f.want) && out[first] == f.want[first] {
			first++
		}
		c.Fail("composition-mismatch", D{"form": f.name, "main": f.src, "size_of_the_named_file": len(big), "output_len": len(out), "expected_len": len(f.want), "first_difference_at": first, "error": errStr(err),
			"why": "the reference obtains exactly the file it names, all of it"})
		return
	}
	c.Cover("big_file_via_" + f.name)
	c.Nontrivial(fmt.Sprintf("big:%s:%d:%s", f.name, size, unit))
}

// c11GateLoader: a memory loader in which the first fetch of one name waits until it is let go.
type c11GateLoader struct {
	files   map[string]string
	mu      sync.Mutex
	gated   string
	entered chan struct{}
	release chan struct{}
}

func (l *c11GateLoader) Abs(base, name string) string { return name }
func (l *c11GateLoader) Get(p string) (io.Reader, error) {
	l.mu.Lock()
	hit := l.gated != "" && l.gated == p
	if hit {
		l.gated = ""
	}
	l.mu.Unlock()
	if hit {
		close(l.entered)
		<-l.release
	}
	s, ok := l.files[p]
	if !ok {
		return nil, fmt.Errorf("c11GateLoader: no template %q", p)
	}
	return strings.NewReader(s), nil
}

// c11OverlappingDeepLoads: while one load of a set is fetching the file at the bottom of a 400-900 deep chain of
// includes / extends, other loads of the same set - the same chain, another deep chain, shallow files - obtain what they
// name. The depth of a composition is counted per composition.
func c11OverlappingDeepLoads(c *C) {
	r := c.R
	dA, dB := []int{400, 600, 900}[r.Intn(3)], []int{300, 600, 900}[r.Intn(3)]
	kind := r.Pick([]string{"include", "extends", "ssi parsed", "import"})
	l := &c11GateLoader{files: map[string]string{"/shallow.tpl": "shallow"}, entered: make(chan struct{}), release: make(chan struct{})}
	link := func(next string) string {
		switch kind {
		case "extends":
			return `{% extends "` + next + `" %}`
		case "ssi parsed":
			return `{% ssi "` + next + `" parsed %}`
		case "import":
			return `{% import "` + next + `" m %}{% macro m() export %}{{ m() }}{% endmacro %}`
		}
		return `{% include "` + next + `" %}`
	}
	bottom := "bottom"
	if kind == "import" {
		bottom = `{% macro m() export %}bottom{% endmacro %}`
	}
	for _, ch := range []struct {
		pre string
		d   int
	}{{"/a", dA}, {"/b", dB}} {
		for i := 0; i < ch.d; i++ {
			l.files[fmt.Sprintf("%s%d.tpl", ch.pre, i)] = link(fmt.Sprintf("%s%d.tpl", ch.pre, i+1))
		}
		l.files[fmt.Sprintf("%s%d.tpl", ch.pre, ch.d)] = bottom
	}
	l.gated = fmt.Sprintf("/a%d.tpl", dA)
	set := pongo2.NewSet("c11-deep-overlap", l)
	type res struct {
		tpl *pongo2.Template
		err error
	}
	done := make(chan res, 1)
	go func() {
		t, e := set.FromFile("/a0.tpl")
		done <- res{t, e}
	}()
	select {
	case <-l.entered:
	case rs := <-done:
		c.Fail("composition-mismatch", D{"kind": kind, "depth": dA, "why": "the first load ended before reaching the bottom of its chain", "error": errStr(rs.err)})
		return
	}
	d := D{"kind": kind, "depth_of_the_load_in_progress": dA, "depth_of_the_second_chain": dB, "why": "one load of the set was waiting for the file at the bottom of its chain while the others ran; alone each of them succeeds"}
	for _, name := range []string{"/b0.tpl", "/shallow.tpl", "/a0.tpl", fmt.Sprintf("/a%d.tpl", dA/2)} {
		var t *pongo2.Template
		var err error
		if r.Bool() {
			t, err = set.FromFile(name)
		} else {
			t, err = set.FromCache(name)
		}
		c.Eval(1)
		if err != nil || t == nil {
			d["load_that_failed"], d["error"] = name, errStr(err)
			close(l.release)
			<-done
			c.Fail("composition-mismatch", d)
			return
		}
	}
	close(l.release)
	rs := <-done
	c.Eval(1)
	if rs.err != nil {
		d["load_that_failed"], d["error"] = "/a0.tpl (the load that had been waiting)", errStr(rs.err)
		c.Fail("composition-mismatch", d)
		return
	}
	if kind == "include" || kind == "ssi parsed" || kind == "extends" {
		if out, xerr := rs.tpl.Execute(nil); xerr != nil || out != "bottom" {
			d["output"], d["error"] = q(truncStr(out, 100)), errStr(xerr)
			c.Fail("composition-mismatch", d)
			return
		}
	}
	c.Cover("overlapping_deep_loads_" + kind)
	c.Nontrivial(fmt.Sprintf("deepoverlap:%s:%d:%d", kind, dA, dB))
}

func c11Run(c *C) {
	r := c.R
	if c.Idx%1500 == 177 {
		c11OverlappingDeepLoads(c)
		return
	}
	if c.Idx%1500 == 77 {
		c11BigFiles(c)
		return
	}
	if c.Idx%300 == 7 {
		c11ManyIncludes(c)
		return
	}
	if c.Idx%20 == 14 {
		c11BuiltinLoaders(c)
		return
	}
	if c.Idx%6 == 5 {
		c11LazySequences(c)
		return
	}
	if c.Idx%24 == 3 {
		c11BrokenReader(c)
		return
	}
	if c11Root == "" {
		c11Init()
	}
	if r.Chance(12) {
		// another page was being streamed (ExecuteWriterUnbuffered) when its writer broke inside an include's output
		pset, _ := newSet(map[string]string{"/pg.tpl": `head {% include "/card.tpl" %} tail`, "/card.tpl": "CARD-NUMBER-OF-ANOTHER-PAGE 4111 1111 1111 1111 and a longer text so that something is left over"})
		if pt, perr := pset.FromFile("/pg.tpl"); perr == nil {
			pt.ExecuteWriterUnbuffered(nil, &recWriter{failAt: 2, err: errors.New("c11: connection lost"), short: 5})
			pt.ExecuteWriterUnbuffered(nil, &recWriter{failAt: 2, err: errors.New("c11: connection lost")})
		}
		c.Cover("after_a_failed_streaming_of_another_page")
	}
	w, entry := c11Gen(r)
	var tls []pongo2.TemplateLoader
	for _, l := range w.loaders {
		tls = append(tls, l)
	}
	set := pongo2.NewSet("c11", tls...)
	// reference
	sim := &c11Sim{w: w, hits: map[string]int{}}
	sim.compile(entry)
	compileFailed := sim.failed != ""
	if !compileFailed {
		sim.executing = true
		sim.execute(entry, c11Scope{who: "", cv: "CV"})
	}
	// engine
	ctx := pongo2.Context{"cv": "CV"}
	for _, f := range w.files {
		for _, ref := range f.refs {
			if ref.kind == "lazy" {
				ctx["lazyname_"+ref.withWho] = ref.written
			}
		}
	}
	entryWritten := entry
	tpl, err := set.FromFile(entryWritten)
	c.Eval(1)
	desc := func() D {
		srcs := map[string]string{}
		for i, l := range w.loaders {
			for n, s := range l.files {
				srcs[fmt.Sprintf("loader%d:%s", i, strings.TrimPrefix(n, c11Root))] = s
			}
		}
		d := D{"virtual_root": c11Root, "entry": strings.TrimPrefix(entry, c11Root), "loaders": srcs}
		for i, l := range w.loaders {
			if l.mark {
				d[fmt.Sprintf("loader%d_namespace", i)] = fmt.Sprintf("its Abs appends #L%d, its Get knows only such names", i)
			}
			if len(l.foreign) > 0 {
				d[fmt.Sprintf("loader%d_asked_for_names_it_did_not_produce", i)] = l.foreign
			}
		}
		return d
	}
	var out string
	var xerr error
	if err == nil {
		out, xerr = execSpread(tpl, ctx, uint64(r.Intn(4)))
		c.Eval(1)
	}
	d := desc()
	d["output"] = q(out)
	d["compile_err"] = errStr(err)
	d["exec_err"] = errStr(xerr)
	if strings.Contains(out, "CANARY") || strings.Contains(errStr(err)+errStr(xerr), "CANARY") {
		c.Fail("canary-file-served", d)
		return
	}
	if strings.Contains(out, "SHADOWED-COPY") {
		c.Fail("later-loader-won", d)
		return
	}
	if sim.failed != "" {
		d["expected"] = "an error naming the missing template " + strings.TrimPrefix(sim.failed, c11Root) + " at " + sim.failAt
		gotErr := err
		if sim.failAt == "execute" {
			gotErr = xerr
			if err != nil {
				c.Fail("unexpected-compile-error", d)
				return
			}
		}
		if gotErr == nil {
			c.Fail("missing-template-not-reported", d)
			return
		}
		if !strings.Contains(gotErr.Error(), path.Base(sim.failed)) {
			c.Fail("error-does-not-name-the-missing-template", d)
			return
		}
		c.Cover("missing_reported_at_" + sim.failAt)
	} else {
		want := sim.out.String()
		d["expected"] = q(want)
		if err != nil || xerr != nil || out != want {
			c.Fail("composition-mismatch", d)
			return
		}
	}
	// fetch accounting
	got := map[string]int{}
	attempts := map[string]bool{}
	for _, l := range w.loaders {
		for _, h := range l.hits {
			got[h]++
		}
		for _, g := range l.gets {
			attempts[g] = true
		}
	}
	if sim.failed == "" {
		var diff []string
		names := map[string]bool{}
		for n := range got {
			names[n] = true
		}
		for n := range sim.hits {
			names[n] = true
		}
		for n := range names {
			if got[n] != sim.hits[n] {
				diff = append(diff, fmt.Sprintf("%s: fetched %d times, referenced %d times", strings.TrimPrefix(n, c11Root), got[n], sim.hits[n]))
			}
		}
		if len(diff) > 0 {
			sort.Strings(diff)
			d["fetch_differences"] = diff
			c.Fail("fetch-accounting", d)
			return
		}
	}
	// every attempt is for a name that some template involved references (or the entry)
	referenced := map[string]bool{entry: true}
	for _, f := range w.files {
		if f.extends != nil {
			referenced[f.extends.target] = true
		}
		for _, ref := range f.refs {
			referenced[ref.target] = true
		}
	}
	for a := range attempts {
		if !referenced[a] {
			d["unreferenced_fetch_attempt"] = a
			c.Fail("unreferenced-name-fetched", d)
			return
		}
	}
	for _, f := range w.files {
		for _, ref := range f.refs {
			c.Cover("ref_" + ref.kind)
			if ref.only {
				c.Cover("only")
			}
			if ref.ifExists {
				c.Cover("if_exists")
			}
			if !strings.HasPrefix(ref.written, "/") {
				c.Cover("relative_name")
			}
			if strings.Contains(ref.written, "..") {
				c.Cover("dotdot_name")
			}
		}
		if f.extends != nil {
			c.Cover("ref_extends")
		}
	}
	c.Cover(fmt.Sprintf("loaders_%d", len(w.loaders)))
	c.Nontrivial(fmt.Sprint(desc()["loaders"]))
	if c.WantSample() && len(w.files) <= 8 && sim.failed == "" {
		c.Sample(d)
	}
}

// c11Strace runs one worker shard under strace and scans the trace for read-opens below the canary directory:
// an OS-level monitor that the engine opens no file behind the loaders' back.
func c11Strace(tier string, seed int64, dir string) ([]Violation, []string, map[string]any) {
	if tier != "thorough" {
		return nil, nil, nil
	}
	if _, err := exec.LookPath("strace"); err != nil {
		return nil, []string{"strace is not available for the OS-level canary monitor"}, nil
	}
	base := filepath.Join(dir, "strace0")
	trace := filepath.Join(dir, "c11.strace")
	cmd := exec.Command("strace", "-f", "-qq", "-e", "trace=open,openat", "-o", trace, workerBinary(props["C11"]),
		"worker", "-prop", "C11", "-tier", "quick", "-seed", fmt.Sprint(seed), "-shard", "0", "-shards", "6", "-out", base)
	if out, err := cmd.CombinedOutput(); err != nil {
		return nil, []string{"strace run failed: " + err.Error() + " " + truncStr(string(out), 300)}, nil
	}
	b, err := os.ReadFile(trace)
	if err != nil {
		return nil, []string{"strace wrote no trace"}, nil
	}
	canary := base + ".scratch/canary/"
	lines := strings.Split(string(b), "\n")
	opens, bad := 0, []string{}
	for _, l := range lines {
		if !strings.Contains(l, canary) {
			continue
		}
		opens++
		if strings.Contains(l, "O_RDONLY") {
			bad = append(bad, l)
		}
	}
	extra := map[string]any{"strace_lines": len(lines), "strace_canary_opens_seen": opens, "strace_canary_read_opens": len(bad)}
	if opens == 0 {
		return nil, []string{"the strace monitor observed no open of the canary files at all (not even the harness creating them)"}, extra
	}
	if len(bad) > 0 {
		return []Violation{{Property: "C11", Tier: tier, Seed: seed, Idx: -1, Kind: "os-file-access-bypassing-loaders", Detail: D{"strace_lines": bad[:minInt(len(bad), 5)]}}}, nil, extra
	}
	return nil, nil, extra
}

func init() {
	register(&Prop{
		ID:        "C11",
		Finding:   c11Finding,
		PostCheck: c11Strace,
		Cases: func(tier string) int {
			if tier == "thorough" {
				return 1200000
			}
			return 48000
		},
		Run: c11Run,
		Rule: "random virtual file trees (3 directory levels, 7-13 files) distributed over 1-3 recording loaders (later loaders hold shadowing copies, misses are reported with plain and with fs.ErrNotExist-wrapping errors), with acyclic reference graphs via include (static and lazy, with/only/if_exists), extends, import, ssi (plain and parsed), written as rooted, relative and '..' names; the virtual root is a real directory holding canary files of the same names; " +
			"oracle: output == reference composition (names resolved relative to the referring file, first loader wins, include context = includer's variables + pairs or only the pairs), a missing name is an error naming it (or nothing with if_exists) at compile time (static) or execution time (lazy), successful fetches per name == number of references in the composition, no fetch attempt for an unreferenced name, no canary or shadowed content in output or errors. distinct_nontrivial = distinct worlds.",
		MinNontriv:  1000,
		Assumptions: []string{"all loaders resolve names like paths (Abs is idempotent on its own results)", "reference graphs are acyclic (cycles: C01)"},
	})
}
