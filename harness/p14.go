package main

import (
	"bufio"
	"bytes"
	"errors"
	"fmt"
	"io"
	"strings"

	"github.com/flosch/pongo2/v6"
)

// C14 - Execute variants agree; ExecuteWriter is all-or-nothing.

type c14Prog struct {
	files map[string]string
	tpl   *pongo2.Template // when set, every execution of the case uses this one compiled template (else a fresh compile each)
}

func c14Gen(r *Rng) c14Prog {
	tickN, nblock := 0, 0
	tick := func() string { tickN++; return fmt.Sprintf("{{ tick(%d) }}", tickN) }
	var piece func(depth int) string
	piece = func(depth int) string {
		k := r.Intn(13)
		if depth <= 0 && k > 2 {
			k = r.Intn(3)
		}
		switch k {
		case 12:
			// grouping on two (three) levels with argument-less ifchanged tags nested in each other
			switch r.Intn(3) {
			case 0:
				return "{% for p in pairs %}{% ifchanged %}{{ p.0 }}{% ifchanged %}{{ p.1 }}{% endifchanged %}-{% endifchanged %}{% endfor %}" + tick()
			case 1:
				// a listing grouped on two levels: the outer tag suppresses a group whose rendered cells did not change,
				// the inner one a cell that repeats the previous cell
				return "{% for g in groups %}{% ifchanged %}{% for c in g.cells %}{% ifchanged %}{{ c }}{% endifchanged %}{% endfor %}{% endifchanged %}{{ g.sep }}{% endfor %}" + tick()
			}
			return "{% for p in pairs %}{% ifchanged %}<{% ifchanged %}{{ p.0 }}{% ifchanged %}{{ p.1 }}" + tick() + "{% endifchanged %}.{% endifchanged %}{{ p.2 }}>{% endifchanged %}{% endfor %}"
		case 0:
			return r.Pick([]string{"text ", "<p>", "\n", "é ", "0123456789", strings.Repeat("long text ", 50)})
		case 1, 2:
			return tick()
		case 3:
			return "{% for x in two %}[" + piece(depth-1) + tick() + "]{% endfor %}"
		case 4:
			return "{% if yes %}" + piece(depth-1) + "{% else %}" + tick() + "{% endif %}"
		case 5:
			return "{% filter upper %}f:" + piece(depth-1) + tick() + "{% endfilter %}"
		case 6:
			return "{% spaceless %}<a> " + tick() + " <b>" + piece(depth-1) + "{% endspaceless %}"
		case 7:
			return "{% ifchanged %}c:" + tick() + "{% endifchanged %}"
		case 8:
			return "{% with w=1 %}" + piece(depth-1) + tick() + "{% endwith %}"
		case 9:
			nblock++
			return "{% block b" + fmt.Sprint(nblock) + " %}" + piece(depth-1) + tick() + "{% endblock %}"
		case 10:
			return "{% autoescape off %}" + tick() + "{% endautoescape %}{% templatetag openblock %}"
		default:
			return "{% set v = " + strings.Trim(tick(), "{} ") + " %}{{ v }}"
		}
	}
	var body = func(n int) string {
		var sb strings.Builder
		for i := 0; i < n; i++ {
			sb.WriteString(piece(2))
		}
		return sb.String()
	}
	files := map[string]string{}
	main := body(2 + r.Intn(4))
	if r.Chance(50) {
		files["/inc.tpl"] = "inc<" + body(1+r.Intn(3)) + ">"
		main += r.Pick([]string{"{% include \"/inc.tpl\" %}", "{% include incname %}", "{% for x in two %}{% include \"/inc.tpl\" %}{% endfor %}"}) + piece(1)
	}
	if r.Chance(40) {
		main = "{% macro m(a) %}m(" + tick() + "{{ a }}){% endmacro %}" + main + "{{ m(1) }}" + tick() + "{{ m(2) }}"
	}
	if r.Chance(25) {
		files["/lib.tpl"] = "{% macro lm() export %}lm(" + tick() + "){% endmacro %}"
		main = "{% import \"/lib.tpl\" lm %}" + main + "{{ lm() }}"
	}
	if r.Chance(25) {
		files["/base.tpl"] = "base:" + tick() + "{% block main %}b{% endblock %}" + tick() + ":end"
		main = "{% extends \"/base.tpl\" %}{% block main %}" + main + "{{ block.Super }}{% endblock %}"
	}
	files["/main.tpl"] = main
	return c14Prog{files: files}
}

var c14Pairs = [][]string{{"a", "x", "1"}, {"b", "y", "1"}, {"b", "y", "1"}, {"b", "c", "2"}, {"a", "c", "2"}, {"a", "c", "2"}, {"b", "c", "2"}, {"b", "x", "2"}, {"a", "x", "1"}, {"a", "x", "1"}, {"a", "y", "1"}, {"b", "y", "1"}}

func c14Group(sep string, cells ...string) map[string]any {
	return map[string]any{"cells": cells, "sep": sep}
}

var c14Groups = []map[string]any{c14Group("-", "a", "b"), c14Group("-", "a", "b"), c14Group("xb", "a", "b"), c14Group("-", "b", "c"), c14Group("-", "a", "c"), c14Group("", "a", "c"),
	c14Group("cc", "a", "c"), c14Group("-", "c", "c", "a"), c14Group("-", "c", "a"), c14Group("ab", "c", "a"), c14Group("-", "a", "b"), c14Group("-")}

type c14Ticker struct {
	calls  int
	failAt int // 0 = never
	panics bool // the failing call panics instead of returning an error (the caller of Execute* recovers)
}

var errTick = errors.New("tick failed deliberately")

func (t *c14Ticker) ctx() pongo2.Context {
	return pongo2.Context{"two": []int{1, 2}, "yes": true, "incname": "/inc.tpl", "pairs": c14Pairs, "groups": c14Groups,
		"tick": func(i int) (string, error) {
			t.calls++
			if t.failAt > 0 && t.calls == t.failAt {
				if t.panics {
					panic("c14: tick panics deliberately")
				}
				return "", errTick
			}
			return fmt.Sprintf("t%d;", i), nil
		}}
}

// c14RichWriter offers the optional writer interfaces of the standard library and records every call.
type c14RichWriter struct {
	buf   bytes.Buffer
	calls []string
	err   error // when set, every call fails with it
}

func (w *c14RichWriter) note(what string, n int) error {
	w.calls = append(w.calls, fmt.Sprintf("%s(%d)", what, n))
	return w.err
}
func (w *c14RichWriter) Write(p []byte) (int, error) {
	if err := w.note("Write", len(p)); err != nil {
		return 0, err
	}
	return w.buf.Write(p)
}
func (w *c14RichWriter) WriteString(s string) (int, error) {
	if err := w.note("WriteString", len(s)); err != nil {
		return 0, err
	}
	return w.buf.WriteString(s)
}
func (w *c14RichWriter) WriteByte(b byte) error {
	if err := w.note("WriteByte", 1); err != nil {
		return err
	}
	return w.buf.WriteByte(b)
}
func (w *c14RichWriter) WriteRune(r rune) (int, error) {
	if err := w.note("WriteRune", 1); err != nil {
		return 0, err
	}
	return w.buf.WriteRune(r)
}
func (w *c14RichWriter) ReadFrom(r io.Reader) (int64, error) {
	if err := w.note("ReadFrom", 0); err != nil {
		return 0, err
	}
	return w.buf.ReadFrom(r)
}
func (w *c14RichWriter) Flush() error { return w.note("Flush", 0) }
func (w *c14RichWriter) Sync() error  { return w.note("Sync", 0) }
func (w *c14RichWriter) Close() error { return w.note("Close", 0) }

type c14Result struct {
	out    string
	err    string
	writes int
	rawErr error
}

// c14Exec compiles the program afresh and runs one entry point.
func c14Exec(p c14Prog, which int, failAt int, w *recWriter) (c14Result, error) {
	tpl := p.tpl
	if tpl == nil {
		set, _ := newSet(p.files)
		var err error
		tpl, err = set.FromFile("/main.tpl")
		if err != nil {
			return c14Result{}, err
		}
	}
	tk := &c14Ticker{failAt: failAt}
	var res c14Result
	switch which {
	case 0:
		out, e := tpl.Execute(tk.ctx())
		res = c14Result{out: out, err: errStr(e), rawErr: e}
	case 1:
		b, e := tpl.ExecuteBytes(tk.ctx())
		res = c14Result{out: string(b), err: errStr(e), rawErr: e}
	case 2:
		e := tpl.ExecuteWriter(tk.ctx(), w)
		res = c14Result{out: w.buf.String(), err: errStr(e), writes: len(w.writes), rawErr: e}
	default:
		e := tpl.ExecuteWriterUnbuffered(tk.ctx(), w)
		res = c14Result{out: w.buf.String(), err: errStr(e), writes: len(w.writes), rawErr: e}
	}
	return res, nil
}

var c14Entry = []string{"Execute", "ExecuteBytes", "ExecuteWriter", "ExecuteWriterUnbuffered"}

// c14BigOutput: the same promises for renderings of 70 KiB .. 9 MiB (beyond any chunk or buffer size): the variants
// agree, a failing caller's writer gets its error back whichever Write call fails and however much it took, and an
// execution failing at the very end has delivered nothing through ExecuteWriter.
func c14BigOutput(c *C) {
	r := c.R
	size := []int{70000, 1<<20 + 5, 2<<20 + 1, 4<<20 + 9, 9 << 20}[r.Intn(5)]
	unit := "0123456789abcdef"
	src := r.Pick([]string{"{{ big }}tail{{ mf() }}", "{% for i in three %}{{ big }}{% endfor %}{{ mf() }}", "{% filter lower %}{{ big }}{% endfilter %}{% include \"/inc.tpl\" %}{{ mf() }}"})
	mult := 1
	if strings.Contains(src, "three") {
		mult = 3
	}
	big := strings.Repeat(unit, size/mult/len(unit)+1)
	set, _ := newSet(map[string]string{"/inc.tpl": "{{ big }}"})
	tpl, err := set.FromString(src)
	if err != nil {
		c.Fail("compile-error", D{"source": src, "error": err.Error()})
		return
	}
	ok := func() (string, error) { return "", nil }
	ctx := pongo2.Context{"big": big, "three": []int{1, 2, 3}, "mf": ok}
	want, werr := tpl.Execute(ctx)
	if werr != nil || len(want) < size/2 {
		c.Fail("unexpected-error", D{"source": src, "error": errStr(werr), "output_len": len(want)})
		return
	}
	b, berr := tpl.ExecuteBytes(ctx)
	var w1, w2 recWriter
	e1 := tpl.ExecuteWriter(ctx, &w1)
	e2 := tpl.ExecuteWriterUnbuffered(ctx, &w2)
	c.Eval(4)
	if berr != nil || e1 != nil || e2 != nil || string(b) != want || w1.buf.String() != want || w2.buf.String() != want {
		c.Fail("variants-disagree", D{"source": src, "output_len": len(want), "ExecuteBytes_len": len(b), "ExecuteWriter_len": w1.buf.Len(), "ExecuteWriterUnbuffered_len": w2.buf.Len(), "errors": errStr(berr) + errStr(e1) + errStr(e2)})
		return
	}
	// failing writers: at the first call, taking nothing / a part / everything of that call
	werrv := errors.New("c14: the caller's writer is broken")
	for _, fw := range []*recWriter{{failAt: 1, err: werrv}, {failAt: 1, err: werrv, short: 1 + r.Intn(1<<20)}, {failAt: 1, err: werrv, full: true}, {failAt: 2, err: werrv}, {failAt: 1 + r.Intn(3), err: werrv, short: 100}} {
		xerr := tpl.ExecuteWriter(ctx, fw)
		c.Eval(1)
		if fw.failAt <= len(fw.writes) && !errors.Is(xerr, werrv) && (xerr == nil || !strings.Contains(xerr.Error(), werrv.Error())) {
			c.Fail("writer-error-not-returned", D{"source": src, "output_len": len(want), "writer": fmt.Sprintf("fails at Write call %d (accepting %d bytes, full=%v)", fw.failAt, fw.short, fw.full), "write_calls_seen": fw.writes, "returned": errStr(xerr)})
			return
		}
		if fw.buf.Len() > 0 && !strings.HasPrefix(want, fw.buf.String()) {
			c.Fail("writer-received-foreign-bytes", D{"source": src, "received_len": fw.buf.Len()})
			return
		}
	}
	// the execution fails at its very end: ExecuteWriter has written nothing
	ctx["mf"] = func() (string, error) { return "", errors.New("c14: failure at the end") }
	var w3 recWriter
	e3 := tpl.ExecuteWriter(ctx, &w3)
	c.Eval(1)
	if e3 == nil || len(w3.writes) != 0 {
		c.Fail("ExecuteWriter-wrote-before-failing", D{"source": src, "output_len_before_the_failure": len(want), "write_calls": w3.writes, "error": errStr(e3)})
		return
	}
	c.Cover(fmt.Sprintf("big_output_%d", size))
	c.Nontrivial(fmt.Sprintf("big:%d:%s", size, src))
}

func c14Run(c *C) {
	if c.Idx%100 == 41 {
		c14BigOutput(c)
		return
	}
	p := c14Gen(c.R)
	if c.R.Bool() {
		// one compiled template lives through all the failing and successful executions of this case
		set, _ := newSet(p.files)
		if tpl, err := set.FromFile("/main.tpl"); err == nil {
			p.tpl = tpl
			c.Cover("one_template_through_all_faults")
		}
	}
	// fault-free reference
	var good [4]c14Result
	for which := 0; which < 4; which++ {
		res, cerr := c14Exec(p, which, 0, &recWriter{})
		c.Eval(1)
		if cerr != nil {
			c.Fail("compile-error", D{"files": p.files, "error": cerr.Error()})
			return
		}
		good[which] = res
	}
	for which := 1; which < 4; which++ {
		if good[which].out != good[0].out || good[which].err != good[0].err {
			c.Fail("variants-disagree", D{"files": p.files, "Execute": D{"out": q(good[0].out), "err": good[0].err}, c14Entry[which]: D{"out": q(good[which].out), "err": good[which].err}})
			return
		}
	}
	if good[0].err != "" {
		c.Fail("unexpected-error", D{"files": p.files, "error": good[0].err})
		return
	}
	F := good[0].out
	// the caller keeps the slice returned by ExecuteBytes while other executions run; it is inspected again at the end
	var keptBytes []byte
	{
		set, _ := newSet(p.files)
		if tpl, err := set.FromFile("/main.tpl"); err == nil {
			keptBytes, _ = tpl.ExecuteBytes((&c14Ticker{}).ctx())
			// other pages are rendered meanwhile (other bytes, other lengths)
			for _, other := range []string{strings.Repeat("#", len(F)+7), "short", strings.Repeat("{{ 1 }}%", len(F)/4+3)} {
				if ot, oerr := set.FromString(other); oerr == nil {
					ot.Execute(nil)
					ot.ExecuteBytes(nil)
					var sink bytes.Buffer
					ot.ExecuteWriter(nil, &sink)
				}
			}
			c.Eval(9)
		}
	}
	// number of tick calls of a fault-free run
	tk := &c14Ticker{}
	set, _ := newSet(p.files)
	tpl, _ := set.FromFile("/main.tpl")
	tpl.Execute(tk.ctx())
	M := tk.calls
	// fault sweep 1: the k-th evaluated output node fails, for every k
	for k := 1; k <= M; k++ {
		var res [4]c14Result
		for which := 0; which < 4; which++ {
			w := &recWriter{}
			r, _ := c14Exec(p, which, k, w)
			c.Eval(1)
			res[which] = r
			d := D{"files": p.files, "failing_call": k, "calls_in_a_good_run": M, "entry": c14Entry[which], "output": q(truncStr(r.out, 400)), "error": r.err, "fault_free_output": q(truncStr(F, 400))}
			if r.rawErr == nil {
				c.Fail("injected-error-lost", d)
				return
			}
			switch which {
			case 0, 1:
				if r.out != "" {
					c.Fail("output-returned-with-error", d)
					return
				}
			case 2:
				if r.writes != 0 {
					d["write_calls"] = r.writes
					c.Fail("ExecuteWriter-wrote-before-failing", d)
					return
				}
			case 3:
				if !strings.HasPrefix(F, r.out) {
					c.Fail("unbuffered-output-is-not-a-prefix", d)
					return
				}
			}
		}
		for which := 1; which < 4; which++ {
			if res[which].err != res[0].err {
				c.Fail("variants-fail-differently", D{"files": p.files, "failing_call": k, "Execute": res[0].err, c14Entry[which]: res[which].err})
				return
			}
		}
	}
	// fault sweep 1b: the k-th evaluated output node PANICS (a context function of the application) and the caller of
	// ExecuteWriter recovers, like net/http does for its handlers: the execution failed, so nothing has reached the
	// caller's writer - whatever kind of writer it is (*bytes.Buffer and *strings.Builder holding earlier content, a plain
	// recording writer)
	if M > 0 {
		for _, k := range []int{1, M, 1 + c.R.Intn(M)} {
			for wk := 0; wk < 3; wk++ {
				set, _ := newSet(p.files)
				tpl, err := set.FromFile("/main.tpl")
				if err != nil {
					break
				}
				var bb bytes.Buffer
				var sb strings.Builder
				rw := &recWriter{}
				bb.WriteString("PRE|")
				sb.WriteString("PRE|")
				var w io.Writer = []io.Writer{&bb, &sb, rw}[wk]
				tk := &c14Ticker{failAt: k, panics: true}
				panicked := false
				var pe error
				func() {
					defer func() {
						if recover() != nil {
							panicked = true
						}
					}()
					pe = tpl.ExecuteWriter(tk.ctx(), w)
				}()
				c.Eval(1)
				received := []string{bb.String(), sb.String(), "PRE|" + rw.buf.String()}[wk]
				if (!panicked && pe == nil) || received != "PRE|" {
					c.Fail("ExecuteWriter-wrote-before-failing", D{"files": p.files, "panicking_call": k, "calls_in_a_good_run": M, "writer": []string{"*bytes.Buffer holding \"PRE|\"", "*strings.Builder holding \"PRE|\"", "recording writer"}[wk],
						"writer_content_afterwards": q(truncStr(received, 400)), "panic_reached_the_caller": panicked, "why": "a context function panicked in the middle of the execution and the caller recovered: the execution failed, ExecuteWriter must not have written anything"})
					return
				}
				// and a good run into the same kind of writer appends exactly F
				bb.Reset()
				bb.WriteString("PRE|")
				if wk == 0 {
					e := tpl.ExecuteWriter((&c14Ticker{}).ctx(), &bb)
					c.Eval(1)
					if e != nil || bb.String() != "PRE|"+F {
						c.Fail("variants-disagree", D{"files": p.files, "writer": "*bytes.Buffer holding \"PRE|\"", "received": q(truncStr(bb.String(), 400)), "expected": q(truncStr("PRE|"+F, 400)), "error": errStr(e)})
						return
					}
				}
			}
		}
		c.Cover("panic_recovered_by_the_caller")
	}
	// templates WITHOUT any tag or variable (plain text, a verbatim block, a comment, nothing at all) are templates like
	// any other: the four entry points agree on them, also about a context that must be refused
	for _, plain := range []string{"just text, no tags at all\n", "", "{% verbatim %}{{ not evaluated }}{% endverbatim %}", "text {# a comment #} more text", c06RandText(c.R, 60)} {
		if hasOpener(plain) && !strings.Contains(plain, "verbatim") && !strings.Contains(plain, "{#") {
			continue
		}
		for variant := 0; variant < 3; variant++ {
			var outs, errs [4]string
			for which := 0; which < 4; which++ {
				pset, _ := newSet(map[string]string{"/lib.tpl": "{% macro clash() export %}m{% endmacro %}"})
				var ctx pongo2.Context
				switch variant {
				case 1:
					ctx = pongo2.Context{"not-an-identifier": 1}
				case 2:
					pset.Globals["bad key"] = 1
					ctx = pongo2.Context{"fine": 1} // (the engine checks the merged keys only when the caller passes a context)
				}
				ptpl, perr := pset.FromString(plain)
				if perr != nil {
					break
				}
				w := &recWriter{}
				var e error
				switch which {
				case 0:
					outs[which], e = ptpl.Execute(ctx)
				case 1:
					var b []byte
					b, e = ptpl.ExecuteBytes(ctx)
					outs[which] = string(b)
				case 2:
					e = ptpl.ExecuteWriter(ctx, w)
					outs[which] = w.buf.String()
				default:
					e = ptpl.ExecuteWriterUnbuffered(ctx, w)
					outs[which] = w.buf.String()
				}
				c.Eval(1)
				errs[which] = errStr(e)
				if variant > 0 && (e == nil || outs[which] != "") {
					c.Fail("invalid-context-accepted", D{"source": q(plain), "entry": c14Entry[which], "variant": []string{"", "context key \"not-an-identifier\"", "globals key \"bad key\""}[variant], "output": q(outs[which]), "error": errStr(e)})
					return
				}
			}
			if errs[1] != errs[0] || errs[2] != errs[0] || errs[3] != errs[0] || outs[1] != outs[0] || outs[2] != outs[0] || outs[3] != outs[0] {
				c.Fail("variants-disagree", D{"source": q(plain), "outputs": outs, "errors": errs})
				return
			}
		}
	}
	// after failures: successful runs must be unaffected (no state surviving a failed execution)
	for rep := 0; rep < 4; rep++ {
		for which := 2; which < 4; which++ {
			r, _ := c14Exec(p, which, 0, &recWriter{})
			c.Eval(1)
			if r.out != F || r.err != "" {
				c.Fail("run-after-failures-differs", D{"files": p.files, "entry": c14Entry[which], "output": q(truncStr(r.out, 600)), "expected": q(truncStr(F, 600)), "error": r.err})
				return
			}
		}
	}
	// fault sweep 2: the caller's writer fails at its j-th Write
	writerErr := errors.New("caller's writer is broken")
	nWrites := good[2].writes
	for j := 1; j <= nWrites+1; j++ {
		w := &recWriter{failAt: j, err: writerErr}
		r, _ := c14Exec(p, 2, 0, w)
		c.Eval(1)
		d := D{"files": p.files, "writer_fails_at_write": j, "writes_of_a_good_run": nWrites, "error": r.err, "accepted_bytes": len(r.out)}
		if j <= nWrites {
			if !errors.Is(r.rawErr, writerErr) {
				c.Fail("writer-error-not-returned", d)
				return
			}
			if !strings.HasPrefix(F, r.out) {
				c.Fail("writer-received-foreign-bytes", d)
				return
			}
		} else if r.rawErr != nil || r.out != F {
			c.Fail("unexpected-error", d)
			return
		}
	}
	// a writer that accepts every byte of a call and reports its error with the full count (legal for an io.Writer:
	// e.g. the connection broke right behind the last byte): the error still belongs to the caller
	for j := 1; j <= nWrites; j++ {
		w := &recWriter{failAt: j, err: writerErr, full: true}
		r, _ := c14Exec(p, 2, 0, w)
		c.Eval(1)
		if !errors.Is(r.rawErr, writerErr) {
			c.Fail("writer-error-not-returned", D{"files": p.files, "writer_fails_at_write": j, "writes_of_a_good_run": nWrites, "error": r.err, "why": "the writer returned (len(p), err): all bytes accepted AND an error"})
			return
		}
	}
	// a context that must be refused (invalid key name / invalid key in the set's globals): all four entry points refuse it alike
	for variant := 0; variant < 2; variant++ {
		var errs [4]string
		for which := 0; which < 4; which++ {
			set, _ := newSet(p.files)
			tk := &c14Ticker{}
			ctx := tk.ctx()
			if variant == 0 {
				ctx["not-an-identifier"] = 1
			} else {
				set.Globals["bad key"] = 1
			}
			tpl, err := set.FromFile("/main.tpl")
			if err != nil {
				break
			}
			w := &recWriter{}
			var e error
			switch which {
			case 0:
				_, e = tpl.Execute(ctx)
			case 1:
				_, e = tpl.ExecuteBytes(ctx)
			case 2:
				e = tpl.ExecuteWriter(ctx, w)
			default:
				e = tpl.ExecuteWriterUnbuffered(ctx, w)
			}
			c.Eval(1)
			errs[which] = errStr(e)
			if e == nil || len(w.writes) != 0 {
				c.Fail("invalid-context-accepted", D{"files": p.files, "entry": c14Entry[which], "variant": []string{"context key \"not-an-identifier\"", "globals key \"bad key\""}[variant], "write_calls": len(w.writes), "error": errStr(e)})
				return
			}
		}
		if errs[1] != errs[0] || errs[2] != errs[0] || errs[3] != errs[0] {
			c.Fail("variants-fail-differently", D{"files": p.files, "errors": errs})
			return
		}
	}
	// a failing writer under the unbuffered variant: the property does not require the error to be reported,
	// but the call must return (no panic: recovered by the worker and reported) and whatever was accepted is a prefix
	for j := 1; j <= good[3].writes && j <= 40; j++ {
		w := &recWriter{failAt: j, err: writerErr}
		r, _ := c14Exec(p, 3, 0, w)
		c.Eval(1)
		if !strings.HasPrefix(F, r.out) {
			c.Fail("writer-received-foreign-bytes", D{"files": p.files, "entry": "ExecuteWriterUnbuffered", "writer_fails_at_write": j, "accepted": q(truncStr(r.out, 300))})
			return
		}
	}
	// the caller's writer may offer more than Write (WriteString, Flush, ReadFrom ... like *bufio.Writer, *os.File,
	// http.ResponseWriter wrappers): ExecuteWriter treats it like any other writer - nothing reaches it when the
	// execution fails, its error comes back, and a good run delivers exactly F
	{
		ks := []int{0}
		if M > 0 {
			ks = append(ks, M, 1+c.R.Intn(M))
		}
		for _, k := range ks {
			for kind := 0; kind < 2; kind++ {
				set, _ := newSet(p.files)
				tpl, err := set.FromFile("/main.tpl")
				if err != nil {
					break
				}
				rich := &c14RichWriter{}
				var w io.Writer = rich
				var bw *bufio.Writer
				if kind == 1 {
					bw = bufio.NewWriterSize(rich, 16+c.R.Intn(5000))
					w = bw
				}
				tk := &c14Ticker{failAt: k}
				e := tpl.ExecuteWriter(tk.ctx(), w)
				c.Eval(1)
				d := D{"files": p.files, "failing_call": k, "writer": []string{"writer with Write/WriteString/WriteByte/WriteRune/ReadFrom/Flush/Sync/Close", "*bufio.Writer"}[kind], "calls_seen_by_the_writer": rich.calls, "error": errStr(e)}
				if k > 0 {
					buffered := 0
					if bw != nil {
						buffered = bw.Buffered()
					}
					if e == nil {
						c.Fail("injected-error-lost", d)
						return
					}
					if len(rich.calls) != 0 || buffered != 0 {
						d["bytes_pending_in_bufio"] = buffered
						c.Fail("ExecuteWriter-wrote-before-failing", d)
						return
					}
					continue
				}
				if bw != nil {
					bw.Flush()
				}
				if e != nil || rich.buf.String() != F {
					d["received"] = q(truncStr(rich.buf.String(), 400))
					d["expected"] = q(truncStr(F, 400))
					c.Fail("variants-disagree", d)
					return
				}
				// the same writer, now broken: its error must come back
				if len(F) > 0 {
					rich2 := &c14RichWriter{err: writerErr}
					var w2 io.Writer = rich2
					if kind == 1 {
						w2 = bufio.NewWriterSize(rich2, 16) // smaller than most outputs: the sink's error surfaces during the copy or not at all
					}
					e2 := tpl.ExecuteWriter((&c14Ticker{}).ctx(), w2)
					c.Eval(1)
					if kind == 0 && !errors.Is(e2, writerErr) {
						c.Fail("writer-error-not-returned", D{"files": p.files, "writer": d["writer"], "calls_seen_by_the_writer": rich2.calls, "error": errStr(e2)})
						return
					}
					if kind == 1 && len(F) > 16 && !errors.Is(e2, writerErr) {
						c.Fail("writer-error-not-returned", D{"files": p.files, "writer": "*bufio.Writer (16 bytes) over a failing sink", "output_bytes": len(F), "error": errStr(e2)})
						return
					}
				}
			}
		}
		c.Cover("rich_writers")
	}
	// a writer that fails only after the k-th successful execution error (mixed)
	var sink bytes.Buffer
	_ = sink
	if string(keptBytes) != F {
		c.Fail("returned-bytes-changed-later", D{"files": p.files, "bytes_at_end": q(truncStr(string(keptBytes), 400)), "bytes_when_returned": q(truncStr(F, 400))})
		return
	}
	c.CoverN("fault_positions_swept", M)
	c.Cover(fmt.Sprintf("writes_by_ExecuteWriter_%d", nWrites))
	if good[3].writes > 1 {
		c.Cover("unbuffered_multiple_writes")
	}
	c.Nontrivial(fmt.Sprint(p.files))
	if c.WantSample() && len(p.files["/main.tpl"]) < 300 && M >= 3 {
		c.Sample(D{"files": p.files, "fault_free_output": q(F), "tick_calls": M, "unbuffered_write_calls": good[3].writes})
	}
}

func init() {
	register(&Prop{
		ID: "C14",
		Cases: func(tier string) int {
			if tier == "thorough" {
				return 60000
			}
			return 4000
		},
		Run: c14Run,
		Rule: "random programs whose output nodes call tick(i) (a context function) interleaved with text, loops, if, filter and spaceless bodies, ifchanged, with, block, set, includes (static/lazy/in a loop), local and imported macros, inheritance with block.Super; fresh compile per entry point. " +
			"in half of the cases one compiled template is used for everything that follows, in the other half every execution compiles afresh; (1) Execute, ExecuteBytes, ExecuteWriter, ExecuteWriterUnbuffered give the same bytes and errors; (2) fault sweep 1: for EVERY k in 1..M (M = tick calls of a good run) tick fails on its k-th call: all four fail with the same message, Execute/ExecuteBytes return no output, the recording writer of ExecuteWriter saw zero Write calls, what the unbuffered writer received is a prefix of the fault-free output; afterwards successful runs are unchanged; " +
			"(3) fault sweep 2: the caller's writer fails at its j-th Write for every j: ExecuteWriter returns that very error (errors.Is) and the writer received only a prefix. distinct_nontrivial = distinct programs swept.",
		MinNontriv:  500,
		Assumptions: []string{"ExecuteWriterUnbuffered is not required to report writer errors (the property only requires it of ExecuteWriter)"},
	})
}
