package main

import (
	"fmt"
	"os"
	"path/filepath"
	"regexp"
	"sort"
	"strconv"
	"strings"
	"sync"
	"time"
)

var rePongoFrame = regexp.MustCompile(`github.com/flosch/pongo2/v6\.([^\n(]*(\([^)]*\))?[^\n(]*)\(`)

// triageMain runs all shards without the violation cap and prints the distinct
// violation signatures (development aid; not used by the registered checks).
func triageMain(propID, tier string) int {
	p := props[propID]
	os.Setenv("VERIF_TRIAGE", "1")
	seed := int64(1)
	if s := os.Getenv("VERIF_SEED"); s != "" {
		seed, _ = strconv.ParseInt(s, 10, 64)
	}
	os.MkdirAll(filepath.Join(verifRoot, "work"), 0o755)
	dir, _ := os.MkdirTemp(filepath.Join(verifRoot, "work"), "triage-")
	defer os.RemoveAll(dir)
	shards := 16
	outs := make([]shardOutcome, shards)
	var wg sync.WaitGroup
	for s := 0; s < shards; s++ {
		wg.Add(1)
		go func(s int) {
			defer wg.Done()
			outs[s] = runShard(p, tier, seed, s, shards, dir, 60*time.Minute)
		}(s)
	}
	wg.Wait()
	type agg struct {
		n      int
		sample Violation
	}
	sigs := map[string]*agg{}
	add := func(v Violation) {
		sig := v.Kind
		if pm, ok := v.Detail["panic"].(string); ok {
			sig += " | " + truncStr(pm, 100)
			if st, ok := v.Detail["stack"].(string); ok {
				fr := rePongoFrame.FindAllStringSubmatch(st, 3)
				for _, f := range fr {
					sig += " @ " + strings.TrimSpace(f[1])
				}
			}
		}
		if w, ok := v.Detail["why"].(string); ok {
			sig += " | " + truncStr(w, 80)
		}
		if sigs[sig] == nil {
			sigs[sig] = &agg{sample: v}
		}
		sigs[sig].n++
	}
	for _, o := range outs {
		if o.incompl != "" {
			fmt.Println("INCOMPLETE:", o.incompl)
		}
		for _, r := range o.results {
			for _, v := range r.Violations {
				add(v)
			}
		}
		for _, v := range append(o.crashes, o.hangs...) {
			add(v)
		}
	}
	keys := []string{}
	for k := range sigs {
		keys = append(keys, k)
	}
	sort.Strings(keys)
	for _, k := range keys {
		d := D{}
		for kk, vv := range sigs[k].sample.Detail {
			if kk != "stack" {
				d[kk] = vv
			}
		}
		fmt.Printf("%6d  %s\n        case=%d %s\n", sigs[k].n, k, sigs[k].sample.Idx, truncStr(oneLine(d), 500))
	}
	fmt.Println("distinct signatures:", len(keys))
	return 0
}
