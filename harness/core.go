package main

import (
	"encoding/json"
	"fmt"
	"hash/fnv"
	"os"
	"runtime"
	"runtime/debug"
	"sort"
	"strings"
	"sync"
	"sync/atomic"
	"time"
)

// ---------------------------------------------------------------------------
// Property registry
// ---------------------------------------------------------------------------

// Prop describes one property check. A check is a deterministic list of cases
// (a pure function of seed, tier and index); each case drives the real engine
// and lets an oracle observe the execution.
type Prop struct {
	ID          string
	Race        bool                  // cases must run in the -race worker
	Cases       func(tier string) int // number of cases of the tier
	Run         func(c *C)            // runs case c.Idx
	Init        func()                // per worker process, before any case
	Rule        string                // how cases are generated and what counts as non-trivial
	Assumptions []string
	MinNontriv  int // below this many distinct non-trivial observations the run is inconclusive
	// Findings replays a committed known-finding case; returns true when the
	// finding still reproduces in the same way.
	Finding func(c *C, spec map[string]any) bool
	// CaseTimeout overrides the per-case hang watchdog (seconds).
	CaseTimeout int
	// Shards overrides the number of worker processes (default 16).
	Shards int
	// PostCheck is run by the driver after the workers (secondary oracles that observe a whole worker process).
	PostCheck func(tier string, seed int64, dir string) (viol []Violation, inconclusive []string, extra map[string]any)
}

var props = map[string]*Prop{}

func register(p *Prop) { props[p.ID] = p }

// ---------------------------------------------------------------------------
// Deterministic PRNG (splitmix64) - cheap to seed per case
// ---------------------------------------------------------------------------

type Rng struct{ s uint64 }

func mix(h uint64) uint64 {
	h += 0x9e3779b97f4a7c15
	h = (h ^ (h >> 30)) * 0xbf58476d1ce4e5b9
	h = (h ^ (h >> 27)) * 0x94d049bb133111eb
	return h ^ (h >> 31)
}

func hashStr(s string) uint64 {
	h := fnv.New64a()
	h.Write([]byte(s))
	return h.Sum64()
}

func newRng(seed int64, prop, tier string, idx int) *Rng {
	s := mix(uint64(seed)) ^ mix(hashStr(prop+"/"+tier)) ^ mix(uint64(idx)*0x100000001b3+7)
	return &Rng{s: mix(s)}
}

func (r *Rng) U64() uint64 {
	r.s += 0x9e3779b97f4a7c15
	z := r.s
	z = (z ^ (z >> 30)) * 0xbf58476d1ce4e5b9
	z = (z ^ (z >> 27)) * 0x94d049bb133111eb
	return z ^ (z >> 31)
}

func (r *Rng) Intn(n int) int {
	if n <= 0 {
		return 0
	}
	return int(r.U64() % uint64(n))
}

// Range returns a value in [lo, hi].
func (r *Rng) Range(lo, hi int) int { return lo + r.Intn(hi-lo+1) }
func (r *Rng) Bool() bool           { return r.U64()&1 == 1 }
func (r *Rng) Chance(pct int) bool  { return r.Intn(100) < pct }
func (r *Rng) Float() float64       { return float64(r.U64()>>11) / float64(1<<53) }
func (r *Rng) Pick(xs []string) string {
	return xs[r.Intn(len(xs))]
}
func (r *Rng) Fork() *Rng { return &Rng{s: mix(r.U64())} }

// ---------------------------------------------------------------------------
// Case context and per-worker accumulation
// ---------------------------------------------------------------------------

type Violation struct {
	Property string         `json:"property"`
	Tier     string         `json:"tier"`
	Seed     int64          `json:"seed"`
	Idx      int            `json:"idx"`
	Kind     string         `json:"kind"`
	Detail   map[string]any `json:"detail"`
	// HistShards > 0: the violation shows only after the earlier cases of its worker ran in the same process
	// (state kept in package-level variables, pools or caches of the engine); the replay executes the cases
	// HistShard, HistShard+HistShards, ... up to Idx in one fresh process.
	HistShard  int `json:"hist_shard,omitempty"`
	HistShards int `json:"hist_shards,omitempty"`
}

type workerState struct {
	mu          sync.Mutex
	evaluations int64
	hashes      map[uint64]struct{}
	cover       map[string]int64
	samples     []any
	unjudged    int64
	violations  []Violation
	inconcl     []string
	extra       map[string]any
	curIdx      int64
	curStart    int64 // unix nanos, 0 = idle
}

type C struct {
	Prop *Prop
	Tier string
	Seed int64
	Idx  int
	R    *Rng
	w    *workerState
	// failed is set once the case reported a violation
	failed bool
}

func (c *C) Thorough() bool { return c.Tier == "thorough" }

// Eval counts n observed executions of the engine.
func (c *C) Eval(n int) { atomic.AddInt64(&c.w.evaluations, int64(n)) }

// Nontrivial records one distinct non-trivial observation (identified by key).
func (c *C) Nontrivial(key string) {
	h := hashStr(key)
	c.w.mu.Lock()
	c.w.hashes[h] = struct{}{}
	c.w.mu.Unlock()
}

func (c *C) Cover(name string) {
	c.w.mu.Lock()
	c.w.cover[name]++
	c.w.mu.Unlock()
}

func (c *C) CoverN(name string, n int) {
	c.w.mu.Lock()
	c.w.cover[name] += int64(n)
	c.w.mu.Unlock()
}

func (c *C) Unjudged() { atomic.AddInt64(&c.w.unjudged, 1) }

// Sample keeps a few written-out cases for the evidence file.
func (c *C) Sample(v any) {
	c.w.mu.Lock()
	if len(c.w.samples) < 3 {
		c.w.samples = append(c.w.samples, v)
	}
	c.w.mu.Unlock()
}

func (c *C) WantSample() bool {
	c.w.mu.Lock()
	defer c.w.mu.Unlock()
	return len(c.w.samples) < 3
}

// Fail reports a violation observed in this case.
func (c *C) Fail(kind string, detail map[string]any) {
	c.w.mu.Lock()
	defer c.w.mu.Unlock()
	c.failed = true
	if len(c.w.violations) >= violationCap {
		return
	}
	c.w.violations = append(c.w.violations, Violation{
		Property: c.Prop.ID, Tier: c.Tier, Seed: c.Seed, Idx: c.Idx, Kind: kind, Detail: detail,
	})
}

// Inconclusive records that this case could not be decided (checker timeout etc.).
func (c *C) Inconclusive(reason string) {
	c.w.mu.Lock()
	if len(c.w.inconcl) < 5 {
		c.w.inconcl = append(c.w.inconcl, fmt.Sprintf("case %d: %s", c.Idx, reason))
	}
	c.w.mu.Unlock()
}

func (c *C) Failed() bool {
	c.w.mu.Lock()
	defer c.w.mu.Unlock()
	return c.failed
}

// SetExtra stores an additional evidence key (last writer wins per worker; the
// driver merges numeric values by summing, others by keeping the first).
func (c *C) AddExtra(name string, n int64) {
	c.w.mu.Lock()
	if v, ok := c.w.extra[name].(int64); ok {
		c.w.extra[name] = v + n
	} else {
		c.w.extra[name] = n
	}
	c.w.mu.Unlock()
}

type D = map[string]any

var violationCap = 25

// ---------------------------------------------------------------------------
// Worker
// ---------------------------------------------------------------------------

type WorkerResult struct {
	Evaluations int64            `json:"evaluations"`
	Cases       int              `json:"cases"`
	Cover       map[string]int64 `json:"cover"`
	Samples     []any            `json:"samples"`
	Unjudged    int64            `json:"unjudged"`
	Violations  []Violation      `json:"violations"`
	Inconcl     []string         `json:"inconclusive"`
	Extra       map[string]any   `json:"extra"`
	Done        bool             `json:"done"`
}

type workerOpts struct {
	prop    string
	tier    string
	seed    int64
	shard   int
	shards  int
	from    int // first case index to consider (inclusive)
	only    int // run just this case (-1 = all of the shard)
	upto    int // last case index to run (inclusive; -1 = no limit)
	out     string
	verbose bool
}

func truncStr(s string, n int) string {
	if len(s) > n {
		return s[:n] + fmt.Sprintf("...(+%d bytes)", len(s)-n)
	}
	return s
}

func runOneCase(p *Prop, c *C) {
	defer func() {
		if r := recover(); r != nil {
			stack := string(debug.Stack())
			c.Fail("panic", D{"panic": fmt.Sprint(r), "stack": truncStr(stack, 6000)})
		}
	}()
	// case 1 of a check that names construct families first runs the parked-overlap monitor over them (overlap.go)
	if plan, ok := overlapPlan[p.ID]; ok && c.Idx == 1 {
		if !parkedOverlap(c, plan.kind, plan.fams...) {
			return
		}
	}
	p.Run(c)
}

// workerScratch is a directory private to this worker invocation (removed by the driver afterwards).
var workerScratch string

func workerMain(o workerOpts) int {
	workerScratch = o.out + ".scratch"
	os.MkdirAll(workerScratch, 0o755)
	p := props[o.prop]
	if p == nil {
		fmt.Fprintf(os.Stderr, "unknown property %s\n", o.prop)
		return 3
	}
	if p.Init != nil {
		p.Init()
	}
	w := &workerState{hashes: map[uint64]struct{}{}, cover: map[string]int64{}, extra: map[string]any{}}
	total := p.Cases(o.tier)
	progressPath := o.out + ".progress"
	pf, err := os.OpenFile(progressPath, os.O_CREATE|os.O_WRONLY|os.O_TRUNC, 0o644)
	if err != nil {
		fmt.Fprintln(os.Stderr, err)
		return 3
	}
	// Hang watchdog: a case that does not return within the limit is reported
	// with a dump of all goroutines; the driver re-runs it in isolation.
	limit := 30
	if p.CaseTimeout > 0 {
		limit = p.CaseTimeout
	}
	go func() {
		for {
			time.Sleep(500 * time.Millisecond)
			st := atomic.LoadInt64(&w.curStart)
			if st == 0 {
				continue
			}
			if time.Since(time.Unix(0, st)) > time.Duration(limit)*time.Second {
				buf := make([]byte, 1<<20)
				n := runtime.Stack(buf, true)
				os.WriteFile(o.out+".hang", []byte(fmt.Sprintf("%d\n%s", atomic.LoadInt64(&w.curIdx), buf[:n])), 0o644)
				os.Exit(97)
			}
		}
	}()
	cases := 0
	var pbuf [24]byte
	run := func(idx int) {
		// write-ahead: the driver attributes a process death to this case
		s := fmt.Sprintf("%-20d\n", idx)
		copy(pbuf[:], s)
		pf.WriteAt(pbuf[:len(s)], 0)
		atomic.StoreInt64(&w.curIdx, int64(idx))
		atomic.StoreInt64(&w.curStart, time.Now().UnixNano())
		if cases%200 == 0 {
			enginePoison()
		}
		c := &C{Prop: p, Tier: o.tier, Seed: o.seed, Idx: idx, R: newRng(o.seed, p.ID, o.tier, idx), w: w}
		runOneCase(p, c)
		atomic.StoreInt64(&w.curStart, 0)
		cases++
	}
	if o.only >= 0 {
		run(o.only)
	} else {
		for idx := o.shard; idx < total; idx += o.shards {
			if idx < o.from {
				continue
			}
			if o.upto >= 0 && idx > o.upto {
				break
			}
			run(idx)
			if len(w.violations) >= violationCap {
				break
			}
		}
	}
	pf.Close()
	// hashes as a binary side file
	hs := make([]uint64, 0, len(w.hashes))
	for h := range w.hashes {
		hs = append(hs, h)
	}
	sort.Slice(hs, func(i, j int) bool { return hs[i] < hs[j] })
	hb := make([]byte, 8*len(hs))
	for i, h := range hs {
		for k := 0; k < 8; k++ {
			hb[i*8+k] = byte(h >> (8 * k))
		}
	}
	os.WriteFile(o.out+".hashes", hb, 0o644)
	res := WorkerResult{Evaluations: w.evaluations, Cases: cases, Cover: w.cover, Samples: w.samples,
		Unjudged: w.unjudged, Violations: w.violations, Inconcl: w.inconcl, Extra: w.extra, Done: true}
	b, err := json.Marshal(sanitizeJSON(res))
	if err != nil {
		fmt.Fprintln(os.Stderr, "marshal:", err)
		return 3
	}
	os.WriteFile(o.out+".json", b, 0o644)
	if o.verbose {
		for _, v := range w.violations {
			vb, _ := json.MarshalIndent(sanitizeJSON(v), "", "  ")
			fmt.Println(string(vb))
		}
	}
	return 0
}

// sanitizeJSON makes arbitrary detail values marshalable (invalid UTF-8 is kept
// readable via %q where needed).
func sanitizeJSON(v any) any {
	b, err := json.Marshal(v)
	if err == nil {
		var out any
		if json.Unmarshal(b, &out) == nil {
			return out
		}
	}
	return fmt.Sprintf("%+v", v)
}

// q quotes a string so that raw bytes stay visible in JSON.
func q(s string) string {
	if len(s) > 1<<15 {
		// very long texts: head, tail and length (the case is regenerated from its index on replay anyway)
		return q(s[:2000]) + fmt.Sprintf(" ...(%d bytes in all)... ", len(s)) + q(s[len(s)-500:])
	}
	if isPlainASCII(s) {
		return s
	}
	return "go:" + fmt.Sprintf("%q", s)
}

func isPlainASCII(s string) bool {
	for i := 0; i < len(s); i++ {
		if s[i] < 0x20 && s[i] != '\n' && s[i] != '\t' || s[i] >= 0x7f {
			return false
		}
	}
	return true
}

func joinLines(xs []string) string { return strings.Join(xs, "\n") }
