package main

import (
	"fmt"
	"strings"
	"sync"
	"sync/atomic"

	"github.com/flosch/pongo2/v6"
)

// C10 - inheritance: the most-derived block wins, Super reaches the parent.

type belem struct {
	kind string // text super block var tick setv
	text string
	name string   // nested block name (kind block)
	wrap string   // "", if1, if0, for
	inc  []*btmpl // kind inc: the chain (root ... member) of the template that is included; text = its file
}

type btmpl struct {
	file   string
	parent string
	level  int
	doc    []belem            // document of a base; for children: top-level elements (ignored when rendered through inheritance)
	defs   map[string][]belem // block definitions of this template (incl. nested ones)
	order  []string
}

type c10Gen struct {
	r    *Rng
	ntxt int
	nblk int
}

func (g *c10Gen) text(level int, where string) belem {
	g.ntxt++
	return belem{kind: "text", text: fmt.Sprintf("[T%d.%s.%d]", level, where, g.ntxt)}
}

// defBody generates the body of a block definition; it may declare nested blocks (added to t.defs).
func (g *c10Gen) defBody(t *btmpl, name string, allowSuper bool, depth int, known []string) []belem {
	var out []belem
	n := 1 + g.r.Intn(3)
	for i := 0; i < n; i++ {
		switch k := g.r.Intn(10); {
		case k < 4:
			out = append(out, g.text(t.level, name))
		case k < 6 && allowSuper:
			out = append(out, belem{kind: "super"})
		case k == 6:
			if k3 := g.r.Intn(4); k3 == 0 {
				// a definition whose rendering differs every time it is rendered (a counting function)
				out = append(out, belem{kind: "tick"})
			} else if k3 == 1 {
				// a binding made between two places (e.g. two block.Super calls) that read it
				g.ntxt++
				out = append(out, belem{kind: "setv", text: fmt.Sprintf("s%d", g.ntxt)})
			} else if k3 == 2 {
				out = append(out, belem{kind: "var", text: "sv"})
			} else {
				out = append(out, belem{kind: "var", text: g.r.Pick([]string{"v", "i"})})
			}
		case k >= 7 && depth > 0:
			// nested block: a new name, or (in a child) a name known from an ancestor that this template does not define yet
			var nn string
			if len(known) > 0 && g.r.Chance(40) {
				nn = g.r.Pick(known)
			} else {
				g.nblk++
				nn = fmt.Sprintf("n%d", g.nblk)
			}
			if _, dup := t.defs[nn]; dup || nn == name {
				out = append(out, g.text(t.level, name))
				continue
			}
			t.defs[nn] = nil // reserve
			t.order = append(t.order, nn)
			t.defs[nn] = g.defBody(t, nn, g.r.Bool(), depth-1, known)
			out = append(out, belem{kind: "block", name: nn, wrap: g.r.Pick([]string{"", "", "if1", "if0", "for"})})
		default:
			out = append(out, g.text(t.level, name))
		}
	}
	return out
}

func c10Src(t *btmpl, elems []belem) string {
	var sb strings.Builder
	for _, e := range elems {
		switch e.kind {
		case "text":
			sb.WriteString(e.text)
		case "super":
			sb.WriteString("{{ block.Super }}")
		case "var":
			sb.WriteString("{{ " + e.text + " }}")
		case "tick":
			sb.WriteString("{{ tick() }}")
		case "setv":
			sb.WriteString("{% set sv = \"" + e.text + "\" %}")
		case "inc":
			sb.WriteString("{% include \"" + e.text + "\" %}")
		case "rawignored":
			sb.WriteString(e.text)
		case "block":
			b := "{% block " + e.name + " %}" + c10Src(t, t.defs[e.name]) + "{% endblock %}"
			switch e.wrap {
			case "if1":
				b = "{% if 1 %}" + b + "{% endif %}"
			case "if0":
				b = "{% if 0 %}" + b + "{% endif %}"
			case "for":
				b = "{% for i in two %}<" + b + ">{% endfor %}"
			}
			sb.WriteString(b)
		}
	}
	return sb.String()
}

func (t *btmpl) source() string {
	if t.parent == "" {
		return c10Src(t, t.doc)
	}
	return "{% extends \"" + t.parent + "\" %}" + c10Src(t, t.doc)
}

// ---- reference resolution ------------------------------------------------------------

type c10Ref struct {
	chain  []*btmpl // root ... leaf
	out    strings.Builder
	vars   map[string]string
	depth  int
	cyclic bool // a block reaches itself again through block.Super: the engine must report an error
	ticks  int  // calls of the counting function so far (one counter per execution)
}

func (r *c10Ref) defsOf(name string) []*btmpl {
	var out []*btmpl
	for _, t := range r.chain {
		if _, ok := t.defs[name]; ok {
			out = append(out, t)
		}
	}
	return out
}

func (r *c10Ref) elems(t *btmpl, es []belem, blockName string, defIdx int) {
	r.depth++
	defer func() { r.depth-- }()
	if r.depth > 400 || r.cyclic {
		r.cyclic = true
		return
	}
	for _, e := range es {
		switch e.kind {
		case "text":
			r.out.WriteString(e.text)
		case "var":
			r.out.WriteString(r.vars[e.text])
		case "tick":
			r.ticks++
			fmt.Fprintf(&r.out, "#%d", r.ticks)
		case "setv":
			r.vars["sv"] = e.text
		case "inc":
			// the included template is rendered "directly": as the document of ITS chain (whoever extends it, the
			// includer too), in a scope copied from the includer's, with the execution's counter
			savedVars, savedChain := r.vars, r.chain
			r.vars = map[string]string{}
			for k, v := range savedVars {
				r.vars[k] = v
			}
			r.chain = e.inc
			r.elems(e.inc[0], e.inc[0].doc, "", 0)
			r.vars, r.chain = savedVars, savedChain
		case "super":
			if defIdx > 0 {
				// the parent definition runs in a scope of its own: it sees the bindings as they are NOW; what it binds is gone afterwards
				saved := map[string]string{}
				for k, v := range r.vars {
					saved[k] = v
				}
				ds := r.defsOf(blockName)
				r.elems(ds[defIdx-1], ds[defIdx-1].defs[blockName], blockName, defIdx-1)
				r.vars = saved
			}
		case "block":
			render := func() {
				ds := r.defsOf(e.name)
				last := len(ds) - 1
				r.elems(ds[last], ds[last].defs[e.name], e.name, last)
			}
			switch e.wrap {
			case "if0":
			case "for":
				// one scope per loop, copied from the enclosing one (what an iteration binds is seen by the next one, not after the loop)
				saved := r.vars
				r.vars = map[string]string{}
				for k, v := range saved {
					r.vars[k] = v
				}
				for _, it := range []string{"a", "b"} {
					r.vars["i"] = it
					r.out.WriteString("<")
					render()
					r.out.WriteString(">")
				}
				r.vars = saved
			default:
				render()
			}
		}
	}
}

const c10Cyclic = "\x00cyclic"

func c10Expected(chain []*btmpl) string {
	return c10ExpectedTimes(chain, 1)[0]
}

// c10ExpectedTimes renders the chain's document several times within ONE execution (one counter)
func c10ExpectedTimes(chain []*btmpl, times int) []string {
	r := &c10Ref{chain: chain, vars: map[string]string{"v": "V", "i": ""}}
	var outs []string
	for k := 0; k < times; k++ {
		r.out.Reset()
		r.vars = map[string]string{"v": "V", "i": ""} // every rendering is an execution context of its own (only the counter is shared)
		r.elems(chain[0], chain[0].doc, "", 0)
		if r.cyclic {
			outs = append(outs, c10Cyclic)
		} else {
			outs = append(outs, r.out.String())
		}
	}
	return outs
}

var c10Boom int64

func c10Ctx() pongo2.Context {
	ticks := 0
	return pongo2.Context{"v": "V", "two": []string{"a", "b"}, "boom": func() string { atomic.AddInt64(&c10Boom, 1); return "BOOM" },
		"tick": func() string { ticks++; return fmt.Sprintf("#%d", ticks) }}
}

// c10ExpectedBlocks mirrors Template.ExecuteBlocks for the template chain[len-1]: the requested blocks are looked up
// from the template upwards and each is rendered once - as the most-derived definition within the chain, with its
// Super chain - all with one context (one counter).
func c10ExpectedBlocks(chain []*btmpl, names []string) (map[string]string, bool) {
	res := map[string]string{}
	leaf := chain[len(chain)-1]
	wanted := false
	for _, n := range names {
		if _, ok := leaf.defs[n]; ok {
			wanted = true
		}
	}
	if !wanted {
		return res, true
	}
	r := &c10Ref{chain: chain, vars: map[string]string{"v": "V", "i": ""}}
	for i := len(chain) - 1; i >= 0; i-- {
		r.vars = map[string]string{"v": "V", "i": ""} // ExecuteBlocks makes one execution context per template of the chain
		for _, n := range names {
			if _, done := res[n]; done {
				continue
			}
			if _, ok := chain[i].defs[n]; !ok {
				continue
			}
			r.out.Reset()
			ds := r.defsOf(n)
			last := len(ds) - 1
			r.elems(ds[last], ds[last].defs[n], n, last)
			if r.cyclic {
				return nil, false
			}
			res[n] = r.out.String()
		}
	}
	return res, true
}

func (g *c10Gen) base() *btmpl {
	t := &btmpl{file: "/base.tpl", defs: map[string][]belem{}}
	n := 2 + g.r.Intn(5)
	for i := 0; i < n; i++ {
		if g.r.Chance(45) {
			t.doc = append(t.doc, g.text(0, "doc"))
			continue
		}
		g.nblk++
		name := fmt.Sprintf("b%d", g.nblk)
		t.defs[name] = nil
		t.order = append(t.order, name)
		t.defs[name] = g.defBody(t, name, g.r.Chance(30), 2, nil)
		t.doc = append(t.doc, belem{kind: "block", name: name, wrap: g.r.Pick([]string{"", "", "", "if1", "if0", "for"})})
	}
	return t
}

func (g *c10Gen) child(parent *btmpl, chain []*btmpl, file string) *btmpl {
	t := &btmpl{file: file, parent: parent.file, level: parent.level + 1, defs: map[string][]belem{}}
	if g.r.Chance(30) {
		t.parent = strings.TrimPrefix(parent.file, "/") // a relative name
	}
	// names visible in the chain
	seen := map[string]bool{}
	var known []string
	for _, a := range chain {
		for _, n := range a.order {
			if !seen[n] {
				seen[n] = true
				known = append(known, n)
			}
		}
	}
	// ignored top-level content
	for i := g.r.Intn(3); i > 0; i-- {
		switch g.r.Intn(5) {
		case 3, 4:
			// definitions and bindings written outside blocks are ignored like everything else out there: the names the
			// chain's blocks print (v, sv, i) keep meaning what the context / the blocks themselves say
			t.doc = append(t.doc, belem{kind: "rawignored", text: g.r.Pick([]string{
				`{% macro v() %}SHADOW{% endmacro %}`, `{% macro sv() %}SHADOW{% endmacro %}`, `{% macro i() %}SHADOW{% endmacro %}`, `{% macro tick() %}SHADOW{% endmacro %}`,
				`{% set v = "SHADOW" %}`, `{% set sv = "SHADOW" %}`, `{% import "/shadowlib.tpl" v %}`, `{% import "/shadowlib.tpl" v as sv, v %}`, `{% cycle "SHADOW" "b" as v %}`, `{% widthratio 1 2 100 as sv %}`})})
		case 0:
			t.doc = append(t.doc, g.text(t.level, "ignored"))
		case 1:
			t.doc = append(t.doc, belem{kind: "var", text: "boom()"})
		default:
			t.doc = append(t.doc, belem{kind: "var", text: "1 / 0"})
		}
	}
	for _, n := range known {
		if _, already := t.defs[n]; already {
			continue
		}
		if g.r.Chance(45) {
			t.defs[n] = nil
			t.order = append(t.order, n)
			t.defs[n] = g.defBody(t, n, true, 1, known)
			t.doc = append(t.doc, belem{kind: "block", name: n})
		}
	}
	if g.r.Chance(30) {
		// a dangling block: no ancestor places it, so it is never rendered
		g.nblk++
		n := fmt.Sprintf("d%d", g.nblk)
		t.defs[n] = []belem{g.text(t.level, "dangling")}
		t.order = append(t.order, n)
		t.doc = append(t.doc, belem{kind: "block", name: n})
	}
	return t
}

// c10ChildOptions: TrimBlocks / LStripBlocks set on a child template govern the text of the child's own block
// definitions (the base keeps its own), through Execute and ExecuteBlocks, also one level further down.
func c10ChildOptions(c *C) {
	r := c.R
	files := map[string]string{
		"/base.tpl": "[{% block a %}base{% endblock %}|{% block b %}\nB  {% if 1 %}\nb{% endif %}{% endblock %}]",
		"/mid.tpl":  "{% extends \"/base.tpl\" %}{% block a %}\nmid-a  {% if 1 %}\nyes{% endif %}{% endblock %}",
		"/leaf.tpl": "{% extends \"/mid.tpl\" %}{% block a %}\nleaf-a \t{% if 1 %}\n<{{ block.Super }}>{% endif %}{% endblock %}",
	}
	set, _ := newSet(files)
	which := r.Pick([]string{"/mid.tpl", "/leaf.tpl"})
	tpl, err := set.FromFile(which)
	if err != nil {
		c.Fail("compile-error", D{"files": files, "error": err.Error()})
		return
	}
	tb, ls := r.Bool(), r.Bool()
	switch r.Intn(3) {
	case 0:
		tpl.Options.TrimBlocks, tpl.Options.LStripBlocks = tb, ls
	case 1:
		tpl.Options.Update(&pongo2.Options{TrimBlocks: tb, LStripBlocks: ls})
	default:
		tpl.Options = &pongo2.Options{TrimBlocks: tb, LStripBlocks: ls}
	}
	strip := func(name string, own bool) string {
		// text of a definition: "\nNAME<blanks>" + if-tag + "\nTAIL"
		lead, blanks, nl := "\n", "  ", "\n"
		if name == "leaf-a" {
			blanks = " \t"
		}
		if own && tb {
			lead, nl = "", ""
		}
		if own && ls {
			blanks = ""
		}
		return lead + name + blanks + nl
	}
	midA := strip("mid-a", which == "/mid.tpl") + "yes"
	a := midA
	if which == "/leaf.tpl" {
		a = strip("leaf-a", true) + "<" + strip("mid-a", false) + "yes>"
	}
	wantDoc := "[" + a + "|\nB  \nb]"
	out, xerr := tpl.Execute(c10Ctx())
	blocks, berr := tpl.ExecuteBlocks(c10Ctx(), []string{"a"})
	c.Eval(2)
	d := D{"files": files, "rendered": which, "TrimBlocks_on_that_template": tb, "LStripBlocks_on_that_template": ls, "output": q(out), "expected": q(wantDoc), "ExecuteBlocks_a": q(blocks["a"]), "expected_block_a": q(a), "error": errStr(xerr) + errStr(berr)}
	if xerr != nil || berr != nil || out != wantDoc || blocks["a"] != a {
		c.Fail("inheritance-mismatch", d)
		return
	}
	c.Cover("child_template_options")
	c.Nontrivial(fmt.Sprint("childopts", which, tb, ls))
}

// c10ManyBlockExecutions: blocks executed very many times within one execution (hooks in a table of 1001-1600 rows): empty
// and non-empty definitions, inherited, overridden by an empty or a non-empty definition, with and without block.Super.
// The number of block executions is not a nesting depth.
func c10ManyBlockExecutions(c *C) {
	r := c.R
	n := 1001 + r.Intn(600)
	rows := make([]int, n)
	baseHook := r.Pick([]string{"", "h"})
	baseRow := r.Pick([]string{"", "r", "{{ i }}"})
	files := map[string]string{"/base.tpl": "{% for i in rows %}{% block hook %}" + baseHook + "{% endblock %}{% block row %}" + baseRow + "{% endblock %};{% endfor %}{% block tail %}t{% endblock %}"}
	childHook := r.Pick([]string{"-", "", "H", "{{ block.Super }}", "{{ block.Super }}{{ block.Super }}"})
	childRow := r.Pick([]string{"-", "", "R", "<{{ block.Super }}>"})
	child := `{% extends "/base.tpl" %}`
	if childHook != "-" {
		child += "{% block hook %}" + childHook + "{% endblock %}"
	}
	if childRow != "-" {
		child += "{% block row %}" + childRow + "{% endblock %}"
	}
	files["/child.tpl"] = child
	files["/grandchild.tpl"] = `{% extends "/child.tpl" %}{% block tail %}{% endblock %}`
	res := func(over, base string) string {
		if over == "-" {
			return base
		}
		return strings.ReplaceAll(over, "{{ block.Super }}", base)
	}
	var want, wantBase strings.Builder
	for i := range rows {
		rows[i] = i
		b := strings.ReplaceAll(baseRow, "{{ i }}", fmt.Sprint(i))
		want.WriteString(res(childHook, baseHook) + res(childRow, b) + ";")
		wantBase.WriteString(baseHook + b + ";")
	}
	set, _ := newSet(files)
	for _, k := range []struct{ file, want string }{{"/child.tpl", want.String() + "t"}, {"/base.tpl", wantBase.String() + "t"}, {"/grandchild.tpl", want.String()}} {
		tpl, err := set.FromFile(k.file)
		var out string
		if err == nil {
			out, err = execSpread(tpl, pongo2.Context{"rows": rows}, uint64(c.Idx))
		}
		c.Eval(1)
		if err != nil || out != k.want {
			c.Fail("inheritance-mismatch", D{"files": files, "rendered": k.file, "rows": n, "output_len": len(out), "expected_len": len(k.want), "output_start": q(truncStr(out, 120)), "expected_start": q(truncStr(k.want, 120)), "error": errStr(err),
				"why": "three blocks per row, executed one after the other (never nested more than two deep)"})
			return
		}
	}
	c.Cover("many_block_executions_in_one_execution")
	c.Nontrivial(fmt.Sprintf("manyblocks:%d:%s:%s:%s:%s", n, baseHook, baseRow, childHook, childRow))
}

// c10StoredBlockInfo: the block information of a running block kept in a variable ({% set saved = block %}) keeps
// denoting THAT block: saved.Super - asked for later, after other blocks ran, inside another block - is the next
// less-derived definition of the block it was taken from.
func c10StoredBlockInfo(c *C) {
	cases := []struct {
		files map[string]string
		entry string
		want  string
	}{
		{map[string]string{"/base.tpl": "{% block a %}A0{% endblock %}|{% block b %}B0{% endblock %}|{{ saved.Super }}",
			"/child.tpl": `{% extends "/base.tpl" %}{% block a %}{% set saved = block %}A1{% endblock %}{% block b %}B1{% endblock %}`}, "/child.tpl", "A1|B1|A0"},
		{map[string]string{"/base.tpl": "{% block a %}A0{% endblock %}|{% block b %}B0{% endblock %}|{{ saved.Super }}",
			"/mid.tpl":  `{% extends "/base.tpl" %}{% block a %}A1<{{ block.Super }}>{% endblock %}{% block b %}B1<{{ block.Super }}>{% endblock %}`,
			"/leaf.tpl": `{% extends "/mid.tpl" %}{% block a %}{% set saved = block %}A2<{{ block.Super }}>{% endblock %}{% block b %}B2<{{ block.Super }}>{% endblock %}`}, "/leaf.tpl", "A2<A1<A0>>|B2<B1<B0>>|A1<A0>"},
		{map[string]string{"/base.tpl": "{% block a %}A0{% endblock %}|{% block b %}B0{% endblock %}|{{ saved.Super }}",
			"/inner.tpl": `{% extends "/base.tpl" %}{% block a %}{% set saved = block %}A1{% endblock %}{% block b %}[{{ saved.Super }}]{% endblock %}`}, "/inner.tpl", "A1|[A0]|A0"},
		{map[string]string{"/base.tpl": "{% block a %}A0{% endblock %}|{% for x in rows %}{% block b %}B0{{ x }}{% endblock %}{% endfor %}|{{ saved.Super }}|{% block c %}C0{% endblock %}|{{ saved.Super }}",
			"/loop.tpl": `{% extends "/base.tpl" %}{% block a %}{% set saved = block %}A1{% endblock %}{% block b %}B1{{ x }}<{{ block.Super }}>{% endblock %}{% block c %}C1<{{ block.Super }}>{% endblock %}`}, "/loop.tpl", "A1|B11<B01>B12<B02>|A0|C1<C0>|A0"},
	}
	for _, k := range cases {
		set, _ := newSet(k.files)
		tpl, err := set.FromFile(k.entry)
		if err != nil {
			c.Fail("inheritance-mismatch", D{"files": k.files, "error": err.Error()})
			return
		}
		for run := 0; run < 2; run++ {
			out, xerr := execSpread(tpl, pongo2.Context{"rows": []int{1, 2}}, uint64(c.Idx+run))
			c.Eval(1)
			if xerr != nil || out != k.want {
				c.Fail("inheritance-mismatch", D{"files": k.files, "entry": k.entry, "output": q(out), "expected": q(k.want), "error": errStr(xerr), "execution": run,
					"why": "block information stored in a variable and asked for Super after its block has ended and other blocks have run"})
				return
			}
		}
		c.Nontrivial("storedblock:" + k.entry)
	}
	c.Cover("stored_block_information")
}

// c10ConcurrentFirst: the FIRST executions of a freshly compiled template at the end of a long extends chain happen
// on several goroutines at once: every one of them renders the base's document with the most-derived blocks
// (whatever the engine works out lazily about the chain at the first execution is worked out under contention).
func c10ConcurrentFirst(c *C) {
	const depth = 400
	files := map[string]string{"/c0.tpl": "<base>{% block b %}b0{% endblock %}|{% block k %}k0{% endblock %}</base>"}
	for i := 1; i <= depth; i++ {
		body := fmt.Sprintf("outside%d", i)
		if i%100 == 0 {
			body += fmt.Sprintf("{%% block k %%}k%d,{{ block.Super }}{%% endblock %%}", i)
		}
		if i == depth {
			body += "{% block b %}leaf{% endblock %}"
		}
		files[fmt.Sprintf("/c%d.tpl", i)] = fmt.Sprintf("{%% extends \"/c%d.tpl\" %%}%s", i-1, body)
	}
	want := "<base>leaf|k400,k300,k200,k100,k0</base>"
	for round := 0; round < 6; round++ {
		set, _ := newSet(files)
		tpl, err := set.FromFile(fmt.Sprintf("/c%d.tpl", depth))
		if err != nil {
			c.Fail("inheritance-mismatch", D{"chain_depth": depth, "error": err.Error()})
			return
		}
		const k = 8
		outs := make([]string, k)
		errs := make([]error, k)
		var ready, wg sync.WaitGroup
		start := make(chan struct{})
		for g := 0; g < k; g++ {
			ready.Add(1)
			wg.Add(1)
			go func(g int) {
				defer wg.Done()
				ready.Done()
				<-start
				outs[g], errs[g] = tpl.Execute(nil)
			}(g)
		}
		ready.Wait()
		close(start)
		wg.Wait()
		c.Eval(k)
		for g := 0; g < k; g++ {
			if errs[g] != nil || outs[g] != want {
				c.Fail("inheritance-mismatch", D{"chain_depth": depth, "round": round, "goroutine": g, "output": q(truncStr(outs[g], 300)), "expected": q(want), "error": errStr(errs[g]),
					"why": "the first executions of a freshly compiled template (end of a 400-level extends chain) on 8 goroutines at once", "schedule_dependent": true})
				return
			}
		}
	}
	c.Cover("concurrent_first_executions_of_a_deep_chain")
	c.Nontrivial("concurrentfirst")
}

func c10Run(c *C) {
	if c.Idx%500 == 251 {
		c10ManyBlockExecutions(c)
		return
	}
	if c.Idx%500 == 253 {
		c10StoredBlockInfo(c)
		return
	}
	if c.Idx%2000 == 255 {
		c10ConcurrentFirst(c)
		return
	}
	if c.Idx%20 == 17 {
		c10ChildOptions(c)
		return
	}
	if c.Idx%10 == 9 {
		c10Invalid(c)
		return
	}
	g := &c10Gen{r: c.R}
	base := g.base()
	chain := []*btmpl{base}
	depth := g.r.Intn(5)
	for i := 1; i <= depth; i++ {
		chain = append(chain, g.child(chain[i-1], chain, fmt.Sprintf("/l%d.tpl", i)))
	}
	// a sibling branching off somewhere in the chain
	var sibling []*btmpl
	if depth > 0 && g.r.Bool() {
		at := g.r.Intn(depth)
		sibling = append(append([]*btmpl{}, chain[:at+1]...), nil)
		sibling[at+1] = g.child(chain[at], chain[:at+1], "/sib.tpl")
	}
	files := map[string]string{}
	all := append([]*btmpl{}, chain...)
	if sibling != nil {
		all = append(all, sibling[len(sibling)-1])
	}
	for _, t := range all {
		files[t.file] = t.source()
	}
	files["/shadowlib.tpl"] = `{% macro v() export %}SHADOW{% endmacro %}`
	set, _ := newSet(files)
	useCache := c.R.Chance(40)
	get := func(name string) (*pongo2.Template, error) {
		if useCache {
			return set.FromCache(name)
		}
		return set.FromFile(name)
	}
	render := func(t *btmpl, ch []*btmpl, when string) bool {
		tpl, err := get(t.file)
		c.Eval(1)
		if err != nil {
			c.Fail("compile-error", D{"files": files, "template": t.file, "error": err.Error()})
			return false
		}
		before := atomic.LoadInt64(&c10Boom)
		out, xerr := execSpread(tpl, c10Ctx(), uint64(c.R.Intn(4)))
		c.Eval(1)
		want := c10Expected(ch)
		if want == c10Cyclic {
			// unbounded block recursion through Super: an execution error is the only acceptable outcome
			if xerr == nil {
				c.Fail("cyclic-blocks-not-reported", D{"files": files, "rendered": t.file, "output_len": len(out)})
				return false
			}
			c.Cover("cyclic_through_super")
			return true
		}
		if xerr != nil || out != want {
			c.Fail("inheritance-mismatch", D{"files": files, "rendered": t.file, "when": when, "via_FromCache": useCache, "output": q(out), "expected": q(want), "error": errStr(xerr)})
			return false
		}
		if atomic.LoadInt64(&c10Boom) != before {
			c.Fail("child-toplevel-evaluated", D{"files": files, "rendered": t.file})
			return false
		}
		// the blocks one by one (ExecuteBlocks): each shows the same most-derived definition and the same Super chain
		var names []string
		for _, ct := range ch {
			names = append(names, ct.order...)
		}
		names = append(names, "nosuchblock")
		seenName := map[string]bool{}
		uniq := names[:0]
		for _, n := range names {
			if !seenName[n] {
				seenName[n] = true
				uniq = append(uniq, n)
			}
		}
		names = uniq
		for k := len(names) - 1; k > 0; k-- {
			j := c.R.Intn(k + 1)
			names[k], names[j] = names[j], names[k]
		}
		if wantBlocks, ok := c10ExpectedBlocks(ch, names); ok {
			got, berr := tpl.ExecuteBlocks(c10Ctx(), names)
			c.Eval(1)
			if berr != nil {
				c.Fail("inheritance-mismatch", D{"files": files, "rendered": t.file, "entry": "ExecuteBlocks", "requested": names, "error": berr.Error()})
				return false
			}
			for n, w := range wantBlocks {
				if g, has := got[n]; !has || g != w {
					c.Fail("inheritance-mismatch", D{"files": files, "rendered": t.file, "entry": "ExecuteBlocks", "requested": names, "block": n, "output": q(g), "returned": has, "expected": q(w)})
					return false
				}
			}
			c.Cover("execute_blocks")
		}
		return true
	}
	// the base directly, before any child was compiled
	if !render(base, chain[:1], "base before its children were compiled") {
		return
	}
	// every template of the chain, leaf first or root first
	order := make([]int, len(chain))
	for i := range order {
		order[i] = i
	}
	if c.R.Bool() {
		for i, j := 0, len(order)-1; i < j; i, j = i+1, j-1 {
			order[i], order[j] = order[j], order[i]
		}
	}
	for _, i := range order {
		if !render(chain[i], chain[:i+1], "chain member") {
			return
		}
	}
	if sibling != nil {
		if !render(sibling[len(sibling)-1], sibling, "sibling") {
			return
		}
		// the other branch must not have been influenced
		if !render(chain[len(chain)-1], chain, "leaf after its sibling was rendered") {
			return
		}
	}
	// parents again, after their children were compiled and rendered
	for i := range chain {
		if !render(chain[i], chain[:i+1], "after all children were compiled and rendered") {
			return
		}
	}
	// a chain member reached from another document: included (static / computed name), inserted by ssi parsed, or
	// included from a block of a template that has an inheritance chain of its own
	member := chain[g.r.Intn(len(chain))]
	if sibling != nil && g.r.Chance(25) {
		member = sibling[len(sibling)-1]
	}
	mchain := chain[:1]
	for i, t := range chain {
		if t == member {
			mchain = chain[:i+1]
		}
	}
	if sibling != nil && member == sibling[len(sibling)-1] {
		mchain = sibling
	}
	if mwant := c10Expected(mchain); mwant != c10Cyclic {
		files["/host_static.tpl"] = `H[{% include "` + member.file + `" %}]`
		files["/host_lazy.tpl"] = `H[{% include member %}]`
		files["/host_ssi.tpl"] = `H[{% ssi "` + member.file + `" parsed %}]`
		files["/hostbase.tpl"] = `HB<{% block hostblock %}hb{% endblock %}>`
		files["/host_child.tpl"] = `{% extends "/hostbase.tpl" %}{% block hostblock %}[{{ block.Super }}|{% include "` + member.file + `" %}|{% include member %}]{% endblock %}`
		hosts := []struct {
			file, pre, post string
			n               int
		}{{"/host_static.tpl", "H[", "]", 1}, {"/host_lazy.tpl", "H[", "]", 1}, {"/host_ssi.tpl", "H[", "]", 1}, {"/host_child.tpl", "HB<[hb|", "]>", 2}}
		for _, h := range hosts {
			tpl, err := get(h.file)
			if err != nil {
				c.Fail("compile-error", D{"files": files, "template": h.file, "error": err.Error()})
				return
			}
			hctx := c10Ctx()
			hctx["member"] = member.file
			out, xerr := tpl.Execute(hctx)
			c.Eval(1)
			want := h.pre + mwant
			if h.n == 2 {
				want += "|" + c10ExpectedTimes(mchain, 2)[1] // the second rendering within the same execution: the counter goes on
			}
			want += h.post
			if xerr != nil || out != want {
				c.Fail("inheritance-mismatch", D{"files": files, "rendered": h.file, "when": "a chain member reached through include/ssi from another document", "output": q(out), "expected": q(want), "error": errStr(xerr)})
				return
			}
			c.Cover("member_via_" + strings.Trim(h.file, "/.tpl"))
		}
		// and the member itself is still what it was
		if !render(member, mchain, "after it was included from other documents") {
			return
		}
		// a template that EXTENDS the member and also INCLUDES it (once or twice) from a block it overrides: the included
		// parent is rendered directly - without this child's (or anybody's) overrides
		var mnames []string
		for _, t := range mchain {
			mnames = append(mnames, t.order...)
		}
		if len(mnames) > 0 {
			bn := mnames[g.r.Intn(len(mnames))]
			hp := &btmpl{file: "/host_incparent.tpl", parent: member.file, level: 9, defs: map[string][]belem{}, order: []string{bn}}
			body := []belem{{kind: "text", text: "[HP:"}, {kind: "inc", text: member.file, inc: mchain}}
			if g.r.Bool() {
				body = append(body, belem{kind: "text", text: "|"}, belem{kind: "super"})
			}
			if g.r.Chance(30) {
				body = append(body, belem{kind: "text", text: "|"}, belem{kind: "inc", text: member.file, inc: mchain})
			}
			body = append(body, belem{kind: "text", text: "]"})
			hp.defs[bn] = body
			hp.doc = []belem{{kind: "block", name: bn}}
			files[hp.file] = hp.source()
			hchain := append(append([]*btmpl{}, mchain...), hp)
			if c10Expected(hchain) != c10Cyclic {
				if !render(hp, hchain, "a template that extends AND includes its parent") {
					return
				}
				if !render(member, mchain, "after a child that also includes it was compiled and rendered") {
					return
				}
				c.Cover("extends_and_includes_its_parent")
			}
		}
	}
	c.Cover(fmt.Sprintf("depth_%d", depth))
	src := ""
	for _, t := range all {
		src += t.file + "=" + files[t.file] + "\n"
	}
	if strings.Contains(src, "block.Super") {
		c.Cover("super")
	}
	if sibling != nil {
		c.Cover("sibling")
	}
	if depth > 0 {
		c.Nontrivial(src)
	}
	if c.WantSample() && depth >= 2 && len(src) < 700 {
		c.Sample(D{"files": files, "leaf_output": q(c10Expected(chain))})
	}
}

func c10Invalid(c *C) {
	base := "A{% block a %}a{% endblock %}B{% block b %}b{% endblock %}"
	bad := []struct{ why, src string }{
		{"second extends", "{% extends \"/base.tpl\" %}{% extends \"/base.tpl\" %}"},
		{"second extends of another parent", "{% extends \"/base.tpl\" %}{% block a %}x{% endblock %}{% extends \"/other.tpl\" %}"},
		{"extends nested in if", "{% if 1 %}{% extends \"/base.tpl\" %}{% endif %}"},
		{"extends nested in block", "{% block a %}{% extends \"/base.tpl\" %}{% endblock %}"},
		{"extends nested in for", "{% for i in two %}{% extends \"/base.tpl\" %}{% endfor %}"},
		{"extends nested in with", "{% with x=1 %}{% extends \"/base.tpl\" %}{% endwith %}"},
		{"duplicate block", "{% extends \"/base.tpl\" %}{% block a %}1{% endblock %}{% block a %}2{% endblock %}"},
		{"duplicate nested block", "{% extends \"/base.tpl\" %}{% block a %}{% block b %}1{% endblock %}{% endblock %}{% block b %}2{% endblock %}"},
		{"duplicate block in a base", "{% block a %}1{% endblock %}{% block a %}2{% endblock %}"},
		{"block nested in itself", "{% block a %}{% block a %}{% endblock %}{% endblock %}"},
	}
	good := []string{
		"{% extends \"/base.tpl\" %}{% block a %}1{% endblock %}{% block b %}2{% endblock %}",
		"{% extends \"/base.tpl\" %}",
		"{% extends \"/base.tpl\" %}{% block zz %}never{% endblock %}",
	}
	k := c.R.Intn(len(bad))
	files := map[string]string{"/base.tpl": base, "/other.tpl": base, "/main.tpl": bad[k].src}
	set, _ := newSet(files)
	tpl, err := set.FromFile("/main.tpl")
	c.Eval(1)
	if err == nil {
		out, _ := tpl.Execute(c10Ctx())
		c.Fail("invalid-shape-accepted", D{"why": bad[k].why, "source": bad[k].src, "output": out})
		return
	}
	for _, gsrc := range good {
		files["/main.tpl"] = gsrc
		set2, _ := newSet(files)
		if _, err := set2.FromFile("/main.tpl"); err != nil {
			c.Fail("valid-shape-rejected", D{"source": gsrc, "error": err.Error()})
			return
		}
	}
	c.Cover("invalid_" + strings.ReplaceAll(bad[k].why, " ", "_"))
	c.Nontrivial("invalid:" + bad[k].src)
}

func init() {
	register(&Prop{
		ID: "C10",
		Cases: func(tier string) int {
			if tier == "thorough" {
				return 300000
			}
			return 40000
		},
		Run: c10Run,
		Rule: "random inheritance chains of depth 0-4 above a base (plus a sibling branching off the chain) served from an in-memory loader: per level every known block is overridden (with or without block.Super, possibly declaring nested blocks under new or inherited names, wrapped in if/for) or inherited, dangling blocks are added, child top-level text/failing expressions/a counting function are added; " +
			"the base is rendered before any child exists, then every template of the chain (root-first or leaf-first), the sibling, and all of them again afterwards, through FromFile or FromCache; each output is compared with a reference resolution (most-derived definition wins wherever the block is placed, Super = next less-derived definition, empty at the base); every template is also rendered block by block through ExecuteBlocks (same definitions, same Super chains); definitions may call a counting function, so that rendering a parent definition twice is visible; a member of the chain is also rendered through host documents (static include, computed-name include, ssi parsed, include from a block of a template with a chain of its own); one case in ten checks the invalid shapes (second/nested extends, duplicate block) and that valid shapes compile. distinct_nontrivial = distinct chains of depth >= 1.",
		MinNontriv:  1000,
		Assumptions: []string{"extends is always the first tag of a child", "ExecuteBlocks is not exercised"},
	})
}
