package main

import (
	"fmt"
	"strings"

	"github.com/flosch/pongo2/v6"
)

// C15 - whitespace control removes exactly the whitespace it names.
// The generator keeps the document's structure; the hand-stripped variant and the
// directly computed expected output are derived from that structure (no parsing).

type wsNode struct {
	kind string // text var if for
	// text
	pre, post string // text = pre [+ comment + post]
	comment   string // "" = no comment
	stripped  string // hand-stripped text (with the comment removed)
	// tags
	name           string // var name / condition name / list name
	lm, rm         bool   // markers of the opening tag ({{ }} or {% if/for %})
	elm, erm       bool   // markers of {% else %}
	clm, crm       bool   // markers of the closing tag
	body, elseBody []*wsNode
	hasElse        bool
}

type wsTok struct {
	text   *wsNode // nil for tags
	block  bool
	lm, rm bool
	inner  string
}

var wsRuns = []string{" ", "\t", "\n", "\r", "\r\n", "  ", " \n", "\n ", "\n\n", "\t \n", " \t", "\n\t ", "\r\n  "}

func wsRun(r *Rng) string {
	n := r.Intn(4)
	s := ""
	for i := 0; i < n; i++ {
		s += wsRuns[r.Intn(len(wsRuns))]
	}
	return s
}

func wsWord(r *Rng) string {
	// (the last ones begin and end with characters that are NOT among the four whitespace characters the markers remove)
	return r.Pick([]string{"w", "ab", "x1", "é", "a b", "p\tq", "l1\nl2", "-", "}", "#", "._.", "\u00a0x\u00a0", "\fz\v", "\u0085", "\u2003w\u2003", "\u00a0", "\v", "\u2028n\u3000",
		// bytes that are no valid UTF-8 (a Latin-1 template, a truncated sequence): copied as they are, trimmed or not
		"caf\xe9", "\xff", "\xc3", "a\xed\xa0\x80b", "\xe2\x82", "\x80x\xfe"})
}

func wsGenText(r *Rng) *wsNode {
	t := &wsNode{kind: "text"}
	switch r.Intn(6) {
	case 0:
		// empty
	case 1:
		t.pre = wsRun(r) // whitespace only
	default:
		t.pre = wsRun(r) + wsWord(r) + wsRun(r)
		if r.Chance(15) {
			t.comment = "{# " + r.Pick([]string{"c", "{{ v }}", "-", ""}) + " #}"
			t.post = wsRun(r) + wsWord(r) + wsRun(r)
			// the comment may be separated from the neighbouring delimiter by whitespace only: that whitespace is the
			// adjacent literal text, the text on the far side of the comment is not
			if r.Chance(35) {
				t.post = wsRuns[r.Intn(len(wsRuns))] + wsRun(r)
			}
			if r.Chance(25) {
				t.pre = wsRuns[r.Intn(len(wsRuns))] + wsRun(r)
			}
		}
	}
	// a text must not end in '{' followed by something that forms a delimiter; words "{" are followed by ws or tag start "{%": avoid
	if strings.HasSuffix(t.pre+t.post, "{") {
		if t.comment != "" {
			t.post += " "
		} else {
			t.pre += " "
		}
	}
	if t.comment != "" && strings.HasSuffix(t.pre, "{") {
		t.pre += "."
	}
	return t
}

func wsGenBody(r *Rng, depth int) []*wsNode {
	var out []*wsNode
	out = append(out, wsGenText(r))
	n := r.Intn(4)
	if depth <= 0 {
		n = r.Intn(2)
	}
	for i := 0; i < n; i++ {
		var nd *wsNode
		k := r.Intn(4)
		if depth <= 0 {
			k = 0
		}
		switch k {
		case 0, 1:
			nd = &wsNode{kind: "var", name: r.Pick([]string{"v", "n", "missing"}), lm: r.Chance(40), rm: r.Chance(40)}
		case 2:
			nd = &wsNode{kind: "if", name: r.Pick([]string{"t", "f"}), lm: r.Chance(40), rm: r.Chance(40), clm: r.Chance(40), crm: r.Chance(40)}
			nd.body = wsGenBody(r, depth-1)
			if r.Bool() {
				nd.hasElse = true
				nd.elm, nd.erm = r.Chance(40), r.Chance(40)
				nd.elseBody = wsGenBody(r, depth-1)
			}
		default:
			nd = &wsNode{kind: "for", name: r.Pick([]string{"l2", "l0", "l3"}), lm: r.Chance(40), rm: r.Chance(40), clm: r.Chance(40), crm: r.Chance(40)}
			nd.body = wsGenBody(r, depth-1)
		}
		out = append(out, nd, wsGenText(r))
	}
	return out
}

func wsFlatten(nodes []*wsNode, out *[]wsTok) {
	for _, n := range nodes {
		switch n.kind {
		case "text":
			*out = append(*out, wsTok{text: n})
		case "var":
			*out = append(*out, wsTok{inner: n.name, lm: n.lm, rm: n.rm})
		case "if":
			*out = append(*out, wsTok{block: true, inner: "if " + n.name, lm: n.lm, rm: n.rm})
			wsFlatten(n.body, out)
			if n.hasElse {
				*out = append(*out, wsTok{block: true, inner: "else", lm: n.elm, rm: n.erm})
				wsFlatten(n.elseBody, out)
			}
			*out = append(*out, wsTok{block: true, inner: "endif", lm: n.clm, rm: n.crm})
		case "for":
			*out = append(*out, wsTok{block: true, inner: "for i in " + n.name, lm: n.lm, rm: n.rm})
			wsFlatten(n.body, out)
			*out = append(*out, wsTok{block: true, inner: "endfor", lm: n.clm, rm: n.crm})
		}
	}
}

const wsChars = " \t\r\n"

// wsStrip computes the hand-stripped text of every text token.
func wsStrip(toks []wsTok, trimBlocks, lstrip bool) {
	for i, t := range toks {
		if t.text == nil {
			continue
		}
		first, last := t.text.pre, ""
		hasComment := t.text.comment != ""
		if hasComment {
			last = t.text.post
		}
		var left, right *wsTok
		if i > 0 && toks[i-1].text == nil {
			left = &toks[i-1]
		}
		if i+1 < len(toks) && toks[i+1].text == nil {
			right = &toks[i+1]
		}
		// the part adjacent to the left tag is `first`; the part adjacent to the right tag is `last` (or `first` when there is no comment)
		rp := &first
		if hasComment {
			rp = &last
		}
		if left != nil {
			if trimBlocks && left.block && strings.HasPrefix(first, "\n") {
				first = first[1:]
			}
		}
		if right != nil {
			if lstrip && right.block {
				*rp = strings.TrimRight(*rp, " \t")
			}
		}
		if left != nil && left.rm {
			first = strings.TrimLeft(first, wsChars)
		}
		if right != nil && right.lm {
			*rp = strings.TrimRight(*rp, wsChars)
		}
		t.text.stripped = first + last
	}
}

func wsSource(toks []wsTok, marked bool) string {
	var sb strings.Builder
	for _, t := range toks {
		if t.text != nil {
			if marked {
				sb.WriteString(t.text.pre + t.text.comment + t.text.post)
			} else {
				sb.WriteString(t.text.stripped)
			}
			continue
		}
		open, close := "{{", "}}"
		if t.block {
			open, close = "{%", "%}"
		}
		sb.WriteString(open)
		if marked && t.lm {
			sb.WriteString("-")
		}
		sb.WriteString(" " + t.inner + " ")
		if marked && t.rm {
			sb.WriteString("-")
		}
		sb.WriteString(close)
	}
	return sb.String()
}

func wsCtx() pongo2.Context {
	return pongo2.Context{"v": "VAL", "n": 42, "t": true, "f": false, "l0": []int{}, "l2": []int{1, 2}, "l3": []int{1, 2, 3}}
}

func wsDirect(nodes []*wsNode, sb *strings.Builder) {
	for _, n := range nodes {
		switch n.kind {
		case "text":
			sb.WriteString(n.stripped)
		case "var":
			switch n.name {
			case "v":
				sb.WriteString("VAL")
			case "n":
				sb.WriteString("42")
			}
		case "if":
			if n.name == "t" {
				wsDirect(n.body, sb)
			} else if n.hasElse {
				wsDirect(n.elseBody, sb)
			}
		case "for":
			cnt := map[string]int{"l0": 0, "l2": 2, "l3": 3}[n.name]
			for i := 0; i < cnt; i++ {
				wsDirect(n.body, sb)
			}
		}
	}
}

func wsRender(src string, tb, ls bool, onSet bool, twice bool) (string, string, error) {
	set, _ := newSet(emptySetFiles)
	if onSet {
		set.Options.TrimBlocks = tb
		set.Options.LStripBlocks = ls
	}
	tpl, err := set.FromString(src)
	if err != nil {
		return "", "", err
	}
	if !onSet {
		tpl.Options.TrimBlocks = tb
		tpl.Options.LStripBlocks = ls
	}
	out, err := execSpread(tpl, wsCtx(), hashStr(src))
	if err != nil {
		return "", "", err
	}
	out2 := out
	if twice {
		out2, err = tpl.Execute(wsCtx())
		if err != nil {
			return "", "", err
		}
	}
	return out, out2, nil
}

// ---- spaceless ------------------------------------------------------------------

func slGen(r *Rng, depth int) (src string, rendered string) {
	n := 1 + r.Intn(7)
	var s, o strings.Builder
	for i := 0; i < n; i++ {
		switch r.Intn(8) {
		case 0, 1, 2:
			t := r.Pick([]string{"<b>", "</b>", "<p class=x>", "<br/>", "<i>", "</i>", "<a href=\"u\">", "</a>"})
			s.WriteString(t)
			o.WriteString(t)
		case 3, 4:
			w := wsRun(r) + " "
			if r.Bool() {
				w = wsRun(r)
			}
			if r.Chance(20) {
				// vertical tab and form feed are whitespace between tags, too
				w = r.Pick([]string{"\v", "\f", " \v ", "\n\v\t", "\f\r\n", "\v\v"})
			}
			s.WriteString(w)
			o.WriteString(w)
		case 5:
			w := r.Pick([]string{"word", "two words", "x", "é"})
			s.WriteString(w)
			o.WriteString(w)
		case 6:
			s.WriteString("{{ v }}")
			o.WriteString("VAL")
		default:
			if depth > 0 {
				bs, bo := slGen(r, depth-1)
				if r.Bool() {
					s.WriteString("{% for i in l2 %}" + bs + "{% endfor %}")
					o.WriteString(bo + bo)
				} else {
					s.WriteString("{% spaceless %}" + bs + "{% endspaceless %}")
					o.WriteString(slExpect(bo))
				}
			}
		}
	}
	return s.String(), o.String()
}

// slExpect removes exactly the whitespace runs between a '>' and a following '<'.
func slExpect(s string) string {
	var sb strings.Builder
	for i := 0; i < len(s); {
		sb.WriteByte(s[i])
		if s[i] == '>' {
			j := i + 1
			for j < len(s) && strings.IndexByte(" \t\n\v\f\r", s[j]) >= 0 {
				j++
			}
			if j > i+1 && j < len(s) && s[j] == '<' {
				i = j
				continue
			}
		}
		i++
	}
	return sb.String()
}

func c15Run(c *C) {
	r := c.R
	if r.Chance(20) {
		// spaceless
		body, rendered := slGen(r, 2)
		src := "a " + "{% spaceless %}" + body + "{% endspaceless %}" + " z"
		want := "a " + slExpect(rendered) + " z"
		out, out2, err := wsRender(src, false, false, false, true)
		c.Eval(2)
		if err != nil || out != want || out2 != want {
			c.Fail("spaceless", D{"source": q(src), "output": q(out), "second_output": q(out2), "expected": q(want), "error": errStr(err)})
			return
		}
		c.Cover("spaceless")
		if strings.Contains(rendered, "> <") || strings.Contains(rendered, ">\n<") || rendered != slExpect(rendered) {
			c.Nontrivial("sl:" + src)
		}
		if c.WantSample() && r.Chance(5) {
			c.Sample(D{"kind": "spaceless", "source": q(src), "output": q(out)})
		}
		return
	}
	doc := wsGenBody(r, 3)
	var toks []wsTok
	wsFlatten(doc, &toks)
	marked := wsSource(toks, true)
	markers := 0
	for _, t := range toks {
		if t.text == nil {
			if t.lm {
				markers++
			}
			if t.rm {
				markers++
			}
		}
	}
	// templates that live through all four option settings of the case (options are changed between their executions)
	longSet, _ := newSet(emptySetFiles)
	longPlain, _ := longSet.FromString(marked)
	var longChild *pongo2.Template
	toks2 := append(append([]wsTok{{block: true, inner: "block doc"}}, toks...), wsTok{block: true, inner: "endblock"})
	if r.Chance(40) {
		cs, _ := newSet(map[string]string{"/base.tpl": "[{% block doc %}{% endblock %}]", "/child.tpl": "{% extends \"/base.tpl\" %}" + wsSource(toks2, true)})
		longChild, _ = cs.FromFile("/child.tpl")
	}
	order := []int{0, 1, 2, 3}
	for i := 3; i > 0; i-- {
		j := r.Intn(i + 1)
		order[i], order[j] = order[j], order[i]
	}
	for _, o := range order {
		tb, ls := o&1 == 1, o&2 == 2
		wsStrip(toks, tb, ls)
		stripped := wsSource(toks, false)
		var direct strings.Builder
		wsDirect(doc, &direct)
		onSet := r.Bool()
		var out, out2, sout string
		var err, serr error
		if onSet {
			out, out2, err = wsRender(marked, tb, ls, true, true)
			sout, _, serr = wsRender(stripped, false, false, false, false)
		} else {
			// both templates live in ONE set; the options are changed on the marked template only
			set, _ := newSet(emptySetFiles)
			var tplS, tplD *pongo2.Template
			tplS, serr = set.FromString(stripped)
			tplD, err = set.FromString(marked)
			if err == nil && serr == nil {
				tplD.Options.TrimBlocks = tb
				tplD.Options.LStripBlocks = ls
				out, err = tplD.Execute(wsCtx())
				sout, serr = tplS.Execute(wsCtx())
				if err == nil {
					out2, err = tplD.Execute(wsCtx())
				}
			}
		}
		c.Eval(3)
		d := D{"marked_source": q(marked), "hand_stripped_source": q(stripped), "TrimBlocks": tb, "LStripBlocks": ls, "options_set_on": map[bool]string{true: "set before compile", false: "template after compile"}[onSet],
			"output_marked": q(out), "output_marked_second_render": q(out2), "output_hand_stripped": q(sout), "expected_direct": q(direct.String()), "error": errStr(err) + errStr(serr)}
		if err != nil || serr != nil {
			c.Fail("error", d)
			return
		}
		if out != sout || out != direct.String() || out2 != out {
			c.Fail("whitespace", d)
			return
		}
		c.Cover(fmt.Sprintf("options_tb=%v_ls=%v", tb, ls))
		if r.Chance(25) {
			// the document as a NESTED template (included, ssi-parsed, parent of a child): compiled while the set's options
			// are (tb, ls). Afterwards the application changes the fields of the same set.Options object in place to configure
			// its next template: the templates compiled before keep rendering what they rendered - all of their text
			nfiles := map[string]string{"/inc.tpl": marked, "/main.tpl": "{% include \"/inc.tpl\" %}|{% ssi \"/inc.tpl\" parsed %}", "/base.tpl": marked + "Z{% block zzlast %}{% endblock %}", "/child.tpl": "{% extends \"/base.tpl\" %}{% block zzlast %}{% endblock %}"}
			nset, _ := newSet(nfiles)
			nset.Options.TrimBlocks, nset.Options.LStripBlocks = tb, ls
			nmain, e1 := nset.FromFile("/main.tpl")
			nchild, e2 := nset.FromFile("/child.tpl")
			if e1 == nil && e2 == nil {
				for round := 0; round < 2; round++ {
					mo, mx := nmain.Execute(wsCtx())
					co, cx := nchild.Execute(wsCtx())
					c.Eval(2)
					if mx != nil || cx != nil || mo != direct.String()+"|"+direct.String() || co != direct.String()+"Z" {
						d["files"] = nfiles
						d["why"] = map[int]string{0: "the document as an included / ssi-parsed / parent template, options set on the set before compiling", 1: "the same compiled templates after set.Options.TrimBlocks / LStripBlocks were changed in place (and another template was compiled)"}[round]
						d["output_including"], d["output_child"], d["error"] = q(mo), q(co), errStr(mx)+errStr(cx)
						c.Fail("whitespace", d)
						return
					}
					nset.Options.TrimBlocks, nset.Options.LStripBlocks = !tb, !ls
					nset.FromString("{% if 1 %}\n next template {% endif %}\n")
				}
				c.Cover("nested_templates_keep_their_options")
			}
		}
		if longPlain != nil {
			// the same compiled template, its options changed since its previous execution
			switch r.Intn(3) {
			case 0:
				longPlain.Options.TrimBlocks, longPlain.Options.LStripBlocks = tb, ls
			case 1:
				longPlain.Options = &pongo2.Options{TrimBlocks: tb, LStripBlocks: ls} // the exported field replaced wholesale
			default:
				longPlain.Options.Update(&pongo2.Options{TrimBlocks: tb, LStripBlocks: ls}) // the documented way to copy settings
			}
			lo, lerr := longPlain.Execute(wsCtx())
			c.Eval(1)
			if lerr != nil || lo != direct.String() {
				d["why"] = "one compiled template executed under changing options: the options of THIS execution apply"
				d["output_marked"] = q(lo)
				d["error"] = errStr(lerr)
				c.Fail("whitespace", d)
				return
			}
		}
		if longChild != nil {
			wsStrip(toks2, tb, ls)
			var direct2 strings.Builder
			wsDirect(doc, &direct2)
			if r.Bool() {
				longChild.Options.TrimBlocks, longChild.Options.LStripBlocks = tb, ls
			} else {
				longChild.Options = &pongo2.Options{TrimBlocks: tb, LStripBlocks: ls}
			}
			lo, lerr := longChild.Execute(wsCtx())
			c.Eval(1)
			if lerr != nil || lo != "["+direct2.String()+"]" {
				c.Fail("whitespace", D{"child_source": q("{% extends \"/base.tpl\" %}" + wsSource(toks2, true)), "base_source": "[{% block doc %}{% endblock %}]", "TrimBlocks": tb, "LStripBlocks": ls,
					"why": "one compiled child template executed under changing options: the options of THIS execution apply to the child's own text", "output": q(lo), "expected_direct": q("[" + direct2.String() + "]"), "error": errStr(lerr)})
				return
			}
			c.Cover("child_options_changed_between_executions")
			wsStrip(toks, tb, ls)
		}
		if r.Chance(30) {
			// the same document as the body of a block of a child template: the options set on the child template
			// (the template that is executed) govern the child's own text; the base has no option-sensitive text
			toks2 := append(append([]wsTok{{block: true, inner: "block doc"}}, toks...), wsTok{block: true, inner: "endblock"})
			wsStrip(toks2, tb, ls)
			var direct2 strings.Builder
			wsDirect(doc, &direct2)
			files := map[string]string{
				"/base.tpl":     "[{% block doc %}{% endblock %}]",
				"/child.tpl":    "{% extends \"/base.tpl\" %}" + wsSource(toks2, true),
				"/stripped.tpl": "{% extends \"/base.tpl\" %}" + wsSource(toks2, false),
			}
			set, _ := newSet(files)
			child, e1 := set.FromFile("/child.tpl")
			hand, e2 := set.FromFile("/stripped.tpl")
			d2 := D{"files": files, "TrimBlocks": tb, "LStripBlocks": ls, "options_set_on": "the child template after compile", "expected_direct": q("[" + direct2.String() + "]")}
			if e1 != nil || e2 != nil {
				d2["error"] = errStr(e1) + errStr(e2)
				c.Fail("error", d2)
				return
			}
			child.Options.TrimBlocks = tb
			child.Options.LStripBlocks = ls
			o1, x1 := child.Execute(wsCtx())
			o2, x2 := hand.Execute(wsCtx())
			blocks, x3 := child.ExecuteBlocks(wsCtx(), []string{"doc"})
			c.Eval(3)
			d2["output_marked"], d2["output_hand_stripped"], d2["ExecuteBlocks_doc"] = q(o1), q(o2), q(blocks["doc"])
			if x1 != nil || x2 != nil || x3 != nil {
				d2["error"] = errStr(x1) + errStr(x2) + errStr(x3)
				c.Fail("error", d2)
				return
			}
			if o1 != o2 || o1 != "["+direct2.String()+"]" || blocks["doc"] != direct2.String() {
				c.Fail("whitespace", d2)
				return
			}
			c.Cover("child_template_options")
			wsStrip(toks, tb, ls) // restore the stripped texts of the plain document
		}
		if c.WantSample() && o == 3 && markers > 1 && len(marked) < 200 {
			c.Sample(d)
		}
	}
	if markers > 0 || strings.Contains(marked, "%}\n") || strings.Contains(marked, " {%") {
		c.Nontrivial("ws:" + marked)
	}
	c.CoverN("markers", markers)
}

func init() {
	register(&Prop{
		ID: "C15",
		Cases: func(tier string) int {
			if tier == "thorough" {
				return 1000000
			}
			return 50000
		},
		Run: c15Run,
		Rule: "random documents (nesting depth <= 3) of literal texts with random whitespace runs (space, tab, CR, LF, CRLF) around {{ var }}, if/else and for constructs, every delimiter independently carrying '-' or not, {# #} comments inside literal text (between two words, or with only whitespace - at least one character - between comment and the neighbouring delimiter); " +
			"each rendered under all four TrimBlocks x LStripBlocks settings (set on the set before compiling or on the template after compiling) twice on the same compiled template and compared byte for byte with (1) the rendering of the hand-stripped source under default options and (2) the output computed directly from the generator's structure; in 30% of the settings the document is also the body of a block of a child template (options set on the child after compiling; Execute and ExecuteBlocks); " +
			"20% of the cases are spaceless bodies of single-line tags, words, whitespace runs, variables, loops and nested spaceless blocks compared with an independent removal of the whitespace runs between '>' and '<'. distinct_nontrivial = distinct documents that carry at least one marker or an option-sensitive text.",
		MinNontriv:  2000,
		Assumptions: []string{"'-' or TrimBlocks directly adjacent to verbatim blocks and comments directly adjacent to a delimiter are not generated (unspecified)", "spaceless bodies contain no '<' or '>' outside tags"},
	})
}
