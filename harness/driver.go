package main

import (
	"bufio"
	"bytes"
	"encoding/json"
	"fmt"
	"os"
	"os/exec"
	"path/filepath"
	"sort"
	"strconv"
	"strings"
	"sync"
	"time"
)

var verifRoot = func() string {
	if v := os.Getenv("VERIF_ROOT"); v != "" {
		return v
	}
	return "/verif"
}()

type shardOutcome struct {
	results  []WorkerResult
	hashes   map[uint64]struct{}
	crashes  []Violation
	hangs    []Violation
	raceLogs []string
	incompl  string
}

func workerBinary(p *Prop) string {
	if p.Race {
		return filepath.Join(verifRoot, "bin", "vrun-race")
	}
	return filepath.Join(verifRoot, "bin", "vrun")
}

func readProgress(path string) int {
	b, err := os.ReadFile(path)
	if err != nil {
		return -1
	}
	n, err := strconv.Atoi(strings.TrimSpace(string(b)))
	if err != nil {
		return -1
	}
	return n
}

func tail(b []byte, n int) string {
	if len(b) > n {
		b = b[len(b)-n:]
	}
	return string(b)
}

// runShard runs one worker process (restarting it after a crash of one case).
func runShard(p *Prop, tier string, seed int64, shard, shards int, dir string, wallLimit time.Duration) shardOutcome {
	out := shardOutcome{hashes: map[uint64]struct{}{}}
	from := 0
	for attempt := 0; attempt < 8; attempt++ {
		base := filepath.Join(dir, fmt.Sprintf("s%02d-a%d", shard, attempt))
		args := []string{"worker", "-prop", p.ID, "-tier", tier, "-seed", fmt.Sprint(seed),
			"-shard", fmt.Sprint(shard), "-shards", fmt.Sprint(shards), "-from", fmt.Sprint(from), "-out", base}
		cmd := exec.Command(workerBinary(p), args...)
		var stderr bytes.Buffer
		cmd.Stderr = &stderr
		cmd.Stdout = &stderr
		cmd.Env = append(os.Environ(), "GOTRACEBACK=all")
		if p.Race {
			cmd.Env = append(cmd.Env, "GORACE=halt_on_error=0 exitcode=0 log_path="+base+".race")
		}
		if err := cmd.Start(); err != nil {
			out.incompl = "cannot start worker: " + err.Error()
			return out
		}
		done := make(chan error, 1)
		go func() { done <- cmd.Wait() }()
		var werr error
		select {
		case werr = <-done:
		case <-time.After(wallLimit):
			cmd.Process.Kill()
			<-done
			out.incompl = fmt.Sprintf("shard %d exceeded the wall-clock watchdog (%s)", shard, wallLimit)
			return out
		}
		// collect race logs
		if p.Race {
			m, _ := filepath.Glob(base + ".race.*")
			out.raceLogs = append(out.raceLogs, m...)
		}
		// read hashes + result if present
		if hb, err := os.ReadFile(base + ".hashes"); err == nil {
			for i := 0; i+8 <= len(hb); i += 8 {
				var h uint64
				for k := 0; k < 8; k++ {
					h |= uint64(hb[i+k]) << (8 * k)
				}
				out.hashes[h] = struct{}{}
			}
		}
		if rb, err := os.ReadFile(base + ".json"); err == nil {
			var r WorkerResult
			if json.Unmarshal(rb, &r) == nil && r.Done {
				out.results = append(out.results, r)
				if werr == nil {
					return out
				}
			}
		}
		if werr == nil {
			out.incompl = fmt.Sprintf("shard %d: worker exited without a result", shard)
			return out
		}
		// abnormal exit: attribute to the case in the progress file
		idx := readProgress(base + ".progress")
		code := -1
		if ee, ok := werr.(*exec.ExitError); ok {
			code = ee.ExitCode()
		}
		if idx < 0 {
			out.incompl = fmt.Sprintf("shard %d: worker died (exit %d) before its first case: %s", shard, code, tail(stderr.Bytes(), 2000))
			return out
		}
		v := Violation{Property: p.ID, Tier: tier, Seed: seed, Idx: idx}
		if code == 97 {
			dump, _ := os.ReadFile(base + ".hang")
			v.Kind = "hang-suspected"
			v.Detail = D{"goroutines": truncStr(string(dump), 8000)}
			out.hangs = append(out.hangs, v)
			if len(out.hangs) >= 2 {
				out.incompl = fmt.Sprintf("shard %d stopped after two cases exceeded the per-case watchdog", shard)
				return out
			}
		} else {
			v.Kind = "process-death"
			v.Detail = D{"exit_code": code, "stderr_tail": tail(stderr.Bytes(), 4000)}
			out.crashes = append(out.crashes, v)
		}
		from = idx + 1
	}
	out.incompl = fmt.Sprintf("shard %d: too many worker deaths", shard)
	return out
}

// runSingle re-executes one case alone in a fresh worker and returns its violations.
func runSingle(p *Prop, tier string, seed int64, idx int, dir string, limit time.Duration) (viol []Violation, died bool, hung bool, note string) {
	return runCases(p, tier, seed, idx, 0, 0, dir, limit)
}

// runPrefix re-executes, in one fresh worker, the cases shard, shard+shards, ... up to idx: the history the
// observing worker had when it saw a violation at idx (for violations that depend on state kept in the process).
func runPrefix(p *Prop, tier string, seed int64, idx, shard, shards int, dir string, limit time.Duration) (viol []Violation, died bool, hung bool, note string) {
	return runCases(p, tier, seed, idx, shard, shards, dir, limit)
}

func runCases(p *Prop, tier string, seed int64, idx, shard, shards int, dir string, limit time.Duration) (viol []Violation, died bool, hung bool, note string) {
	base := filepath.Join(dir, fmt.Sprintf("single-%d", idx))
	os.Remove(base + ".json")
	args := []string{"worker", "-prop", p.ID, "-tier", tier, "-seed", fmt.Sprint(seed), "-only", fmt.Sprint(idx), "-out", base}
	if shards > 0 {
		base = filepath.Join(dir, fmt.Sprintf("prefix-%d", idx))
		os.Remove(base + ".json")
		args = []string{"worker", "-prop", p.ID, "-tier", tier, "-seed", fmt.Sprint(seed), "-shard", fmt.Sprint(shard), "-shards", fmt.Sprint(shards), "-upto", fmt.Sprint(idx), "-out", base}
	}
	cmd := exec.Command(workerBinary(p), args...)
	var stderr bytes.Buffer
	cmd.Stderr = &stderr
	cmd.Stdout = &stderr
	cmd.Env = append(os.Environ(), "GOTRACEBACK=all", "VERIF_CASE_TIMEOUT=60")
	if p.Race {
		cmd.Env = append(cmd.Env, "GORACE=halt_on_error=0 exitcode=0 log_path="+base+".race")
	}
	if err := cmd.Start(); err != nil {
		return nil, false, false, err.Error()
	}
	done := make(chan error, 1)
	go func() { done <- cmd.Wait() }()
	select {
	case err := <-done:
		if err != nil {
			if ee, ok := err.(*exec.ExitError); ok && ee.ExitCode() == 97 {
				d, _ := os.ReadFile(base + ".hang")
				return nil, false, true, truncStr(string(d), 8000)
			}
			return nil, true, false, tail(stderr.Bytes(), 4000)
		}
	case <-time.After(limit):
		cmd.Process.Signal(os.Interrupt)
		cmd.Process.Kill()
		<-done
		return nil, false, true, "no result within " + limit.String()
	}
	rb, err := os.ReadFile(base + ".json")
	if err != nil {
		return nil, true, false, "no result file"
	}
	var r WorkerResult
	json.Unmarshal(rb, &r)
	if p.Race {
		m, _ := filepath.Glob(base + ".race.*")
		for _, rv := range parseRaceLogs(m) {
			r.Violations = append(r.Violations, Violation{Property: p.ID, Tier: tier, Seed: seed, Idx: idx, Kind: "data-race", Detail: D{"signature": rv.sig, "report": rv.text}})
		}
	}
	return r.Violations, false, false, ""
}

type knownFinding struct {
	property string
	id       string
	caseFile string
	what     string
}

func loadKnownFindings() []knownFinding {
	var out []knownFinding
	f, err := os.Open(filepath.Join(verifRoot, "KNOWN_FINDINGS.txt"))
	if err != nil {
		return nil
	}
	defer f.Close()
	sc := bufio.NewScanner(f)
	sc.Buffer(make([]byte, 1<<20), 1<<20)
	for sc.Scan() {
		line := strings.TrimSpace(sc.Text())
		if !strings.HasPrefix(line, "known:") {
			continue
		}
		kf := knownFinding{}
		rest := strings.TrimSpace(strings.TrimPrefix(line, "known:"))
		if i := strings.Index(rest, " what="); i >= 0 {
			kf.what = rest[i+6:]
			rest = rest[:i]
		}
		for _, fld := range strings.Fields(rest) {
			kv := strings.SplitN(fld, "=", 2)
			if len(kv) != 2 {
				continue
			}
			switch kv[0] {
			case "property":
				kf.property = kv[1]
			case "id":
				kf.id = kv[1]
			case "case":
				kf.caseFile = kv[1]
			}
		}
		out = append(out, kf)
	}
	return out
}

func checkMain(propID, tier string) int {
	p := props[propID]
	if p == nil {
		fmt.Printf("INCONCLUSIVE property=%s reason=unknown property\n", propID)
		return 2
	}
	if tier != "quick" && tier != "thorough" {
		fmt.Printf("INCONCLUSIVE property=%s reason=unknown tier %s\n", propID, tier)
		return 2
	}
	seed := int64(1)
	if s := os.Getenv("VERIF_SEED"); s != "" {
		if v, err := strconv.ParseInt(s, 10, 64); err == nil {
			seed = v
		}
	}
	start := time.Now()
	dir, err := os.MkdirTemp(filepath.Join(verifRoot, "work"), propID+"-")
	if err != nil {
		os.MkdirAll(filepath.Join(verifRoot, "work"), 0o755)
		dir, err = os.MkdirTemp(filepath.Join(verifRoot, "work"), propID+"-")
		if err != nil {
			fmt.Printf("INCONCLUSIVE property=%s reason=%v\n", propID, err)
			return 2
		}
	}
	defer os.RemoveAll(dir)

	shards := 16
	if p.Shards > 0 {
		shards = p.Shards
	}
	total := p.Cases(tier)
	if total < shards {
		shards = total
	}
	wallLimit := 20 * time.Minute
	if tier == "thorough" {
		wallLimit = 90 * time.Minute
	}
	outs := make([]shardOutcome, shards)
	var wg sync.WaitGroup
	for s := 0; s < shards; s++ {
		wg.Add(1)
		go func(s int) {
			defer wg.Done()
			outs[s] = runShard(p, tier, seed, s, shards, dir, wallLimit)
		}(s)
	}
	wg.Wait()

	// merge
	var evaluations, unjudged int64
	cases := 0
	cover := map[string]int64{}
	extra := map[string]any{}
	hashes := map[uint64]struct{}{}
	var samples []any
	var violations []Violation
	var inconclusive []string
	var raceLogs []string
	hangsConfirmed := 0
	for _, o := range outs {
		if o.incompl != "" {
			inconclusive = append(inconclusive, o.incompl)
		}
		for h := range o.hashes {
			hashes[h] = struct{}{}
		}
		raceLogs = append(raceLogs, o.raceLogs...)
		for _, r := range o.results {
			evaluations += r.Evaluations
			unjudged += r.Unjudged
			cases += r.Cases
			for k, v := range r.Cover {
				cover[k] += v
			}
			for k, v := range r.Extra {
				if f, ok := v.(float64); ok {
					if old, ok := extra[k].(float64); ok {
						extra[k] = old + f
					} else {
						extra[k] = f
					}
				} else if _, ok := extra[k]; !ok {
					extra[k] = v
				}
			}
			if len(samples) < 5 {
				for _, s := range r.Samples {
					if len(samples) < 5 {
						samples = append(samples, s)
					}
				}
			}
			violations = append(violations, r.Violations...)
			inconclusive = append(inconclusive, r.Inconcl...)
		}
		violations = append(violations, o.crashes...)
		// suspected hangs: confirm in isolation with a long budget (at most two per run: each confirmation costs minutes)
		for _, h := range o.hangs {
			if hangsConfirmed >= 2 {
				break
			}
			hangsConfirmed++
			_, _, hung, note := runSingle(p, tier, seed, h.Idx, dir, 90*time.Second)
			if hung {
				h.Kind = "hang"
				h.Detail["confirmation"] = note
				violations = append(violations, h)
			} else {
				inconclusive = append(inconclusive, fmt.Sprintf("case %d exceeded the per-case watchdog once but finished when re-run alone", h.Idx))
			}
		}
	}
	// race reports
	var raceSigs []string
	if p.Race {
		for _, rv := range parseRaceLogs(raceLogs) {
			raceSigs = append(raceSigs, rv.sig)
			if rv.engine {
				violations = append(violations, Violation{Property: p.ID, Tier: tier, Seed: seed, Idx: -1, Kind: "data-race",
					Detail: D{"signature": rv.sig, "report": truncStr(rv.text, 6000)}})
			} else {
				inconclusive = append(inconclusive, "race report without engine frames (harness bug?): "+rv.sig)
			}
		}
	}

	if p.PostCheck != nil {
		pv, pi, pe := p.PostCheck(tier, seed, dir)
		violations = append(violations, pv...)
		inconclusive = append(inconclusive, pi...)
		for k, v := range pe {
			extra[k] = v
		}
	}

	// known findings: replay each listed case
	exit := 0
	for _, kf := range loadKnownFindings() {
		if kf.property != p.ID || p.Finding == nil {
			continue
		}
		base := filepath.Join(dir, "finding-"+kf.id)
		cmd := exec.Command(workerBinary(p), "finding", "-prop", p.ID, "-case", filepath.Join(verifRoot, kf.caseFile), "-out", base)
		ob, _ := cmd.CombinedOutput()
		if strings.Contains(string(ob), "FINDING-REPRODUCED") {
			fmt.Printf("KNOWN-FINDING: property=%s %s (%s)\n", p.ID, kf.what, kf.id)
		}
	}

	// report violations (confirmed in a fresh worker, except races and process deaths which were observed directly)
	sort.SliceStable(violations, func(i, j int) bool { return violations[i].Idx < violations[j].Idx })
	reported := 0
	seenKinds := map[string]int{}
	nviol := 0
	for _, v := range violations {
		key := v.Kind
		if v.Kind == "data-race" {
			key = "race:" + fmt.Sprint(v.Detail["signature"])
		}
		if seenKinds[key] >= 2 || reported >= 6 {
			nviol++
			continue
		}
		confirmed := v
		if sd, _ := v.Detail["schedule_dependent"].(bool); sd {
			// observed in a workload that depends on how goroutines interleave (said so by the case itself): reported as
			// observed, like race reports; a re-execution that happens to interleave differently refutes nothing
		} else if v.Kind != "data-race" && v.Kind != "hang" && v.Idx >= 0 && !p.Race && v.Kind != "os-file-access-bypassing-loaders" {
			// (violations seen in the race-detector workloads depend on schedule and process history; they are
			// reported as observed, like race reports, instead of being re-executed alone)
			rv, died, hung, note := runSingle(p, tier, seed, v.Idx, dir, 150*time.Second)
			switch {
			case died:
				confirmed.Kind = "process-death"
				confirmed.Detail = D{"stderr_tail": note, "first_observation": v.Detail}
			case hung:
				confirmed.Kind = "hang"
				confirmed.Detail = D{"note": note, "first_observation": v.Detail}
			case len(rv) > 0:
				confirmed = rv[0]
			default:
				// not alone: does it depend on what the observing worker had executed before (state kept in
				// package-level variables, pools, caches)? Re-run that worker's cases up to this one in a fresh process.
				var pv []Violation
				for try := 0; try < 2 && len(pv) == 0; try++ {
					pv, _, _, _ = runPrefix(p, tier, seed, v.Idx, v.Idx%shards, shards, dir, wallLimit)
				}
				var hit *Violation
				for i := range pv {
					if pv[i].Idx == v.Idx || (hit == nil && pv[i].Kind == v.Kind) {
						hit = &pv[i]
					}
				}
				if hit == nil {
					inconclusive = append(inconclusive, fmt.Sprintf("violation of kind %s at case %d did not reproduce in a fresh worker, neither alone nor after the same earlier cases", v.Kind, v.Idx))
					continue
				}
				confirmed = *hit
				confirmed.HistShard, confirmed.HistShards = v.Idx%shards, shards
				if confirmed.Detail == nil {
					confirmed.Detail = D{}
				}
				confirmed.Detail["depends_on_process_history"] = fmt.Sprintf("case %d alone in a fresh process behaves correctly; the violation reproduces when one process executes the cases %d, %d, ... up to %d first (state surviving in the engine between executions)", v.Idx, v.Idx%shards, v.Idx%shards+shards, confirmed.Idx)
			}
		}
		nviol++
		seenKinds[key]++
		reported++
		path := writeReplay(confirmed)
		fmt.Printf("VIOLATION property=%s replay=%s\n", p.ID, path)
		fmt.Printf("  kind=%s case=%d %s\n", confirmed.Kind, confirmed.Idx, truncStr(oneLine(confirmed.Detail), 600))
		exit = 1
	}

	distinct := len(hashes)
	if exit == 0 {
		if len(inconclusive) > 0 {
			exit = 2
		} else if distinct < p.MinNontriv || distinct < 2 {
			inconclusive = append(inconclusive, fmt.Sprintf("only %d distinct non-trivial observations (minimum %d)", distinct, p.MinNontriv))
			exit = 2
		}
	}

	// evidence
	cov := D{
		"evaluations":         evaluations,
		"distinct_nontrivial": distinct,
		"rule":                p.Rule + ruleAdditions[p.ID] + round11Rule(p.ID),
		"samples":             samples,
		"cases":               cases,
		"cases_planned":       total,
		"unjudged":            unjudged,
		"constructs_covered":  cover,
	}
	for k, v := range extra {
		cov[k] = v
	}
	if p.Race {
		cov["race_reports_deduplicated"] = raceSigs
		cov["race_log_files"] = len(raceLogs)
	}
	if len(inconclusive) > 0 {
		cov["inconclusive"] = inconclusive
	}
	if len(samples) == 0 {
		cov["samples"] = []any{"(no samples: the run observed nothing)"}
	}
	ev := D{
		"property_id": p.ID,
		"tier":        tier,
		"seed":        seed,
		"level":       "exploration",
		"coverage":    cov,
		"assumptions": append([]string{"Go runtime and compiler are correct", "the harness's reference model/oracle for this property (see DESIGN.md)"}, p.Assumptions...),
		"wall_s":      time.Since(start).Seconds(),
		"violations":  nviol,
	}
	eb, _ := json.MarshalIndent(ev, "", " ")
	os.MkdirAll(filepath.Join(verifRoot, "evidence"), 0o755)
	os.WriteFile(filepath.Join(verifRoot, "evidence", p.ID+".json"), eb, 0o644)

	switch exit {
	case 0:
		fmt.Printf("HELD property=%s tier=%s seed=%d cases=%d evaluations=%d distinct_nontrivial=%d unjudged=%d wall=%.1fs\n",
			p.ID, tier, seed, cases, evaluations, distinct, unjudged, time.Since(start).Seconds())
	case 2:
		for _, r := range inconclusive {
			fmt.Printf("INCONCLUSIVE property=%s reason=%s\n", p.ID, truncStr(r, 500))
		}
	}
	return exit
}

func oneLine(d map[string]any) string {
	b, _ := json.Marshal(sanitizeJSON(d))
	return string(b)
}

func writeReplay(v Violation) string {
	dir := filepath.Join(verifRoot, "replays")
	os.MkdirAll(dir, 0o755)
	b, _ := json.MarshalIndent(sanitizeJSON(v), "", " ")
	name := fmt.Sprintf("%s-%s-s%d-%d-%x.json", v.Property, v.Tier, v.Seed, v.Idx, hashStr(v.Kind)&0xffff)
	path := filepath.Join(dir, name)
	os.WriteFile(path, b, 0o644)
	return path
}

// replayMain re-runs the case recorded in a replay file against the current tree.
func replayMain(path string) int {
	b, err := os.ReadFile(path)
	if err != nil {
		fmt.Println(err)
		return 2
	}
	var v Violation
	if err := json.Unmarshal(b, &v); err != nil {
		fmt.Println(err)
		return 2
	}
	p := props[v.Property]
	if p == nil {
		fmt.Println("unknown property", v.Property)
		return 2
	}
	dir, _ := os.MkdirTemp("", "replay-")
	defer os.RemoveAll(dir)
	fmt.Printf("recorded: kind=%s case=%d\n%s\n", v.Kind, v.Idx, oneLine(v.Detail))
	if v.Idx < 0 {
		fmt.Println("(race report: re-run the check itself; races are schedule dependent)")
		return 0
	}
	tries := 1
	if p.Race {
		tries = 20
	}
	for i := 0; i < tries; i++ {
		var rv []Violation
		var died, hung bool
		var note string
		if v.HistShards > 0 {
			fmt.Printf("(replaying the cases %d, %d, ... up to %d in one process)\n", v.HistShard, v.HistShard+v.HistShards, v.Idx)
			rv, died, hung, note = runPrefix(p, v.Tier, v.Seed, v.Idx, v.HistShard, v.HistShards, dir, 30*time.Minute)
		} else {
			rv, died, hung, note = runSingle(p, v.Tier, v.Seed, v.Idx, dir, 150*time.Second)
		}
		if died || hung {
			fmt.Printf("VIOLATION property=%s replay=%s\n  reproduced: died=%v hung=%v %s\n", v.Property, path, died, hung, note)
			return 1
		}
		if len(rv) > 0 {
			fmt.Printf("VIOLATION property=%s replay=%s\n  reproduced: kind=%s %s\n", v.Property, path, rv[0].Kind, oneLine(rv[0].Detail))
			return 1
		}
	}
	fmt.Println("not reproduced on the current tree")
	return 0
}
