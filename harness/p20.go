package main

import (
	"errors"
	"fmt"
	"io"
	"io/fs"
	"os"
	"path"
	"path/filepath"
	"runtime"
	"strings"
	"sync"
	"sync/atomic"
	"time"

	"github.com/anishathalye/porcupine"
	"github.com/flosch/pongo2/v6"
)

// C20 - template cache: one compile per name, coherent under concurrency.
// Histories are recorded at the client boundary and checked with porcupine against a
// sequential map model; loader fetches are counted (exactly-once accounting).

type c20Store struct {
	mu      sync.Mutex
	version map[string]int  // current content version per name
	broken  map[string]bool // current content does not compile
	failing map[string]bool // loader refuses the name
	panics  map[string]bool // ... by panicking (the caller recovers), not by returning an error
}

type c20Loader struct {
	store  *c20Store
	set    int
	mu     sync.Mutex
	okGets map[string]int
	delay  func()
}

func (l *c20Loader) Abs(base, name string) string {
	if !strings.HasPrefix(name, "/") {
		return "/" + name
	}
	return name
}

func (l *c20Loader) Get(p string) (io.Reader, error) {
	if l.delay != nil {
		l.delay()
	}
	l.store.mu.Lock()
	// the store is keyed by file; a name may denote its file in an unclean spelling ("/./a", "/x/../a"), which this loader -
	// like any loader that does not rewrite names - hands through as it is
	file := path.Clean(p)
	v, ok := l.store.version[file]
	broken, failing, panics := l.store.broken[file], l.store.failing[file], l.store.panics[file]
	l.store.mu.Unlock()
	if ok && failing && panics {
		panic(fmt.Sprintf("c20Loader: panic while fetching %s", p))
	}
	if !ok || failing {
		return nil, fmt.Errorf("c20Loader: %s unavailable", p)
	}
	l.mu.Lock()
	l.okGets[p]++
	l.mu.Unlock()
	if l.delay != nil {
		l.delay()
	}
	if broken {
		return strings.NewReader(fmt.Sprintf("%s#%d{%% if %%}", p, v)), nil
	}
	// the rendered text identifies the fetch the template came from; {{ g }} shows the set's globals, the block tag its TrimBlocks option
	return strings.NewReader(fmt.Sprintf("%s#%d|{{ g }}|{%% if true %%}\nT{%% endif %%}", p, v)), nil
}

type c20In struct {
	spelled  string   // how the name is written in the call ("/a" or the un-normalised "a")
	kind     string   // fromcache clean cleanmulti cleanall setdebug setcontent setfail use
	rawNames []string // cleanmulti: the names as passed to CleanCache (both spellings)
	names    []string // cleanmulti: CleanCache(names...) - every listed name is dropped, whether the others are cached or not
	set      int
	name     string
	arg      int // version (setcontent: negative = broken), bool as 0/1
}

func (in c20In) spell() string {
	if in.spelled != "" {
		return in.spelled
	}
	return in.name
}

type c20Out struct {
	id  int // identity of the returned template (-1 on error)
	ver int // content version it renders
	err bool
}

type c20State struct {
	cachedID  int
	cachedVer int
	content   int
	broken    bool
	failing   bool
	debug     bool
	seen      [4]uint64
}

func c20Model() porcupine.Model {
	return porcupine.Model{
		Partition: func(history []porcupine.Operation) [][]porcupine.Operation {
			// one partition per (set, name); per-set operations (cleanall, setdebug) are copied into all partitions of the set,
			// content operations (setcontent, setfail) into the partitions of the name in every set
			keys := map[string]bool{}
			for _, op := range history {
				in := op.Input.(c20In)
				if in.kind == "fromcache" || in.kind == "clean" {
					keys[fmt.Sprintf("%d|%s", in.set, in.name)] = true
				}
				if in.kind == "cleanmulti" {
					for _, nm := range in.names {
						keys[fmt.Sprintf("%d|%s", in.set, nm)] = true
					}
				}
			}
			var parts [][]porcupine.Operation
			for key := range keys {
				var setN int
				var name string
				fmt.Sscanf(key, "%d|%s", &setN, &name)
				var part []porcupine.Operation
				for _, op := range history {
					in := op.Input.(c20In)
					switch in.kind {
					case "fromcache", "clean", "use":
						if in.set == setN && in.name == name {
							part = append(part, op)
						}
					case "cleanall", "setdebug":
						if in.set == setN {
							part = append(part, op)
						}
					case "cleanmulti":
						if in.set == setN {
							for _, nm := range in.names {
								if nm == name {
									part = append(part, op)
									break
								}
							}
						}
					case "setcontent", "setfail":
						if in.name == path.Clean(name) {
							part = append(part, op)
						}
					}
				}
				parts = append(parts, part)
			}
			return parts
		},
		Init: func() interface{} { return c20State{cachedID: -1, content: 1} },
		Step: func(st, input, output interface{}) (bool, interface{}) {
			s := st.(c20State)
			in := input.(c20In)
			switch in.kind {
			case "clean", "cleanall", "cleanmulti":
				s.cachedID = -1
				return true, s
			case "setdebug":
				s.debug = in.arg == 1
				return true, s
			case "setcontent":
				s.content = in.arg
				s.broken = false
				if in.arg < 0 {
					s.content = -in.arg
					s.broken = true
				}
				return true, s
			case "setfail":
				s.failing = in.arg >= 1
				return true, s
			case "use":
				// the name is used by other means (FromFile, include, extends, ssi, RenderTemplateFile): the cache does not notice
				return true, s
			}
			out := output.(c20Out)
			if s.debug || s.cachedID < 0 {
				// a load: must fetch the current content and hand out a template never seen before
				if s.failing || s.broken {
					return out.err, s // failed loads are not cached: state unchanged
				}
				if out.err || out.id < 0 || out.id >= 256 || s.seen[out.id/64]&(1<<uint(out.id%64)) != 0 || out.ver != s.content {
					return false, s
				}
				s.seen[out.id/64] |= 1 << uint(out.id%64)
				if !s.debug {
					s.cachedID, s.cachedVer = out.id, out.ver
				}
				return true, s
			}
			// cache hit
			return !out.err && out.id == s.cachedID && out.ver == s.cachedVer, s
		},
		DescribeOperation: func(input, output interface{}) string {
			in := input.(c20In)
			if in.kind == "fromcache" {
				out := output.(c20Out)
				return fmt.Sprintf("FromCache(set%d,%q) -> id=%d ver=%d err=%v", in.set, in.spell(), out.id, out.ver, out.err)
			}
			if in.kind == "use" {
				return fmt.Sprintf("use(set%d,%q) by %s", in.set, in.spell(), []string{"FromFile", "static include", "computed-name include", "RenderTemplateFile", "extends", "ssi parsed"}[in.arg])
			}
			return fmt.Sprintf("%s(set%d,%q,%d)", in.kind, in.set, in.spell(), in.arg)
		},
	}
}

type c20Recorder struct {
	clock int64
	mu    sync.Mutex
	ops   []porcupine.Operation
	ids   map[*pongo2.Template]int
}

func (r *c20Recorder) idOf(t *pongo2.Template) int {
	r.mu.Lock()
	defer r.mu.Unlock()
	if id, ok := r.ids[t]; ok {
		return id
	}
	id := len(r.ids)
	r.ids[t] = id
	return id
}

func (r *c20Recorder) record(client int, in c20In, call int64, out c20Out, ret int64) {
	r.mu.Lock()
	r.ops = append(r.ops, porcupine.Operation{ClientId: client, Input: in, Call: call, Output: out, Return: ret})
	r.mu.Unlock()
}

type c20World struct {
	store   *c20Store
	sets    []*pongo2.TemplateSet
	loaders []*c20Loader
	rec     *c20Recorder
	globals []string
	trim    []bool
}

// c20EmptyLoader: a first loader that holds nothing and spells names its own way (relative, like the FSLoader and the
// HTTP loader do, where the loader behind it makes them absolute): the set's templates all come from the second loader.
type c20EmptyLoader struct{ inner *c20Loader }

func (l *c20EmptyLoader) Abs(base, name string) string {
	return strings.TrimPrefix(l.inner.Abs(base, name), "/")
}
func (l *c20EmptyLoader) Get(p string) (io.Reader, error) {
	return nil, fmt.Errorf("c20EmptyLoader: no template %s", p)
}

// variant (sets beyond the first): bit 0 = the set's templates come from its SECOND loader, bit 1 = the set has no
// globals of its own (while the package-level pongo2.Globals, i.e. the default set's, do define g)
func c20NewWorld(nsets int, delay func(), variant int) *c20World {
	w := &c20World{store: &c20Store{version: map[string]int{}, broken: map[string]bool{}, failing: map[string]bool{}, panics: map[string]bool{}}, rec: &c20Recorder{ids: map[*pongo2.Template]int{}}}
	for _, n := range []string{"/a", "/b", "/c"} {
		w.store.version[n] = 1
	}
	for i := 0; i < nsets; i++ {
		l := &c20Loader{store: w.store, set: i, okGets: map[string]int{}, delay: delay}
		s := pongo2.NewSet(fmt.Sprintf("set%d", i), l)
		g := fmt.Sprintf("G%d", i)
		if i > 0 && variant&1 != 0 {
			s = pongo2.NewSet(fmt.Sprintf("set%d", i), &c20EmptyLoader{inner: l}, l)
		}
		if i > 0 && variant&2 != 0 {
			g = ""
		} else {
			s.Globals["g"] = g
		}
		s.Options.TrimBlocks = i == 0
		w.sets = append(w.sets, s)
		w.loaders = append(w.loaders, l)
		w.globals = append(w.globals, g)
		w.trim = append(w.trim, i == 0)
	}
	return w
}

// do performs one operation and records it. It also returns a description of an isolation violation (globals/options of another set).
func (w *c20World) do(client int, in c20In) (c20Out, string) {
	call := atomic.AddInt64(&w.rec.clock, 1)
	out := c20Out{id: -1}
	useIso := ""
	var tpl *pongo2.Template
	switch in.kind {
	case "fromcache":
		var t *pongo2.Template
		var err error
		func() {
			defer func() {
				if r := recover(); r != nil { // a loader that panics: the caller recovers, the load has failed
					err = fmt.Errorf("panic: %v", r)
				}
			}()
			t, err = w.sets[in.set].FromCache(in.spell())
		}()
		if err != nil {
			out.err = true
		} else {
			tpl = t
		}
	case "clean":
		w.sets[in.set].CleanCache(in.spell())
	case "cleanall":
		w.sets[in.set].CleanCache()
	case "cleanmulti":
		w.sets[in.set].CleanCache(in.rawNames...)
	case "setdebug":
		w.sets[in.set].Debug = in.arg == 1
	case "setcontent":
		w.store.mu.Lock()
		if in.arg < 0 {
			w.store.version[in.name], w.store.broken[in.name] = -in.arg, true
		} else {
			w.store.version[in.name], w.store.broken[in.name] = in.arg, false
		}
		w.store.mu.Unlock()
	case "setfail":
		w.store.mu.Lock()
		w.store.failing[in.name] = in.arg >= 1
		w.store.panics[in.name] = in.arg == 2
		w.store.mu.Unlock()
	case "use":
		l := w.loaders[in.set]
		l.mu.Lock()
		before := l.okGets[in.name]
		l.mu.Unlock()
		w.store.mu.Lock()
		file := path.Clean(in.name)
		v0, b0, f0 := w.store.version[file], w.store.broken[file], w.store.failing[file]
		w.store.mu.Unlock()
		var text string
		var uerr error
		func() {
			defer func() {
				if r := recover(); r != nil { // RenderTemplateFile panics (documented, Must) when the template cannot be created
					uerr = fmt.Errorf("panic: %v", r)
				}
			}()
			set := w.sets[in.set]
			var t *pongo2.Template
			switch in.arg {
			case 0:
				t, uerr = set.FromFile(in.spell())
			case 1:
				t, uerr = set.FromString(`{% include "` + in.spell() + `" %}`)
			case 2:
				t, uerr = set.FromString(`{% include n %}`)
			case 3:
				text, uerr = set.RenderTemplateFile(in.spell(), nil)
			case 4:
				t, uerr = set.FromString(`{% extends "` + in.spell() + `" %}`)
			default:
				t, uerr = set.FromString(`{% ssi "` + in.spell() + `" parsed %}`)
			}
			if uerr == nil && t != nil {
				text, uerr = t.Execute(pongo2.Context{"n": in.spell()})
			}
		}()
		l.mu.Lock()
		out.ver = l.okGets[in.name] - before // exact in sequential histories only
		l.mu.Unlock()
		w.store.mu.Lock()
		stable := v0 == w.store.version[file] && b0 == w.store.broken[file] && f0 == w.store.failing[file]
		w.store.mu.Unlock()
		if stable && !b0 && !f0 {
			// the name is available and did not change meanwhile: whatever way it is used in this set, it is this set's
			// loader, globals and options that serve it
			body := "\nT"
			if w.trim[in.set] {
				body = "T"
			}
			want := fmt.Sprintf("%s#%d|%s|%s", in.name, v0, w.globals[in.set], body)
			if uerr != nil || text != want {
				useIso = fmt.Sprintf("use of %q in set%d by %s rendered %q (error: %v); this set's loader, globals and options give %q", in.spell(), in.set,
					[]string{"FromFile", "static include", "computed-name include", "RenderTemplateFile", "extends", "ssi parsed"}[in.arg], text, uerr, want)
			}
		}
	}
	ret := atomic.AddInt64(&w.rec.clock, 1)
	iso := ""
	if tpl != nil {
		out.id = w.rec.idOf(tpl)
		text, err := tpl.Execute(nil)
		if err != nil {
			iso = "cached template failed to execute: " + err.Error()
		} else {
			// "<name>#<ver>|<globals>|<T or \nT>"
			parts := strings.SplitN(text, "|", 3)
			var nm string
			if len(parts) == 3 {
				hash := strings.LastIndex(parts[0], "#")
				if hash >= 0 {
					nm = parts[0][:hash]
					fmt.Sscanf(parts[0][hash+1:], "%d", &out.ver)
				}
				if nm != in.name {
					iso = fmt.Sprintf("FromCache(%s) returned a template of %s", in.name, nm)
				}
				if parts[1] != w.globals[in.set] {
					iso = fmt.Sprintf("template of set%d rendered globals %q (its own are %q)", in.set, parts[1], w.globals[in.set])
				}
				wantBody := "\nT"
				if w.trim[in.set] {
					wantBody = "T"
				}
				if parts[2] != wantBody {
					iso = fmt.Sprintf("template of set%d rendered %q, with its own TrimBlocks option it renders %q", in.set, parts[2], wantBody)
				}
			} else {
				iso = "unexpected rendering " + text
			}
		}
	}
	w.rec.record(client, in, call, out, ret)
	if iso == "" {
		iso = useIso
	}
	return out, iso
}

var c20VerCounter int64 = 1000 // content versions handed out to concurrent writers (unique per process)

func c20RandOp(r *Rng, nsets int, names []string, concurrent bool) c20In {
	set := r.Intn(nsets)
	name := names[r.Intn(len(names))]
	spelled := name
	if r.Chance(40) && !strings.HasPrefix(name, "//") {
		spelled = strings.TrimPrefix(name, "/") // both spellings denote the same template
	}
	file := path.Clean(name) // content operations address the file
	switch k := r.Intn(20); {
	case k < 12:
		return c20In{kind: "fromcache", set: set, name: name, spelled: spelled}
	case k < 15:
		return c20In{kind: "clean", set: set, name: name, spelled: spelled}
	case k < 16:
		if r.Bool() {
			// several names in one call, in any order, known and unknown ones, spelled both ways
			pool := []string{"/a", "/b", "/c", "a", "b", "c", "/never-loaded", "/a"}
			for _, n := range names {
				pool = append(pool, n)
				if !strings.HasPrefix(n, "//") {
					pool = append(pool, strings.TrimPrefix(n, "/"))
				}
			}
			var ns []string
			for i := 2 + r.Intn(3); i > 0; i-- {
				ns = append(ns, pool[r.Intn(len(pool))])
			}
			in := c20In{kind: "cleanmulti", set: set, rawNames: ns}
			for _, n := range ns {
				if strings.HasPrefix(n, "/") {
					in.names = append(in.names, n)
				} else {
					in.names = append(in.names, "/"+n)
				}
			}
			in.spelled = strings.Join(ns, ",")
			return in
		}
		return c20In{kind: "cleanall", set: set}
	case k < 17:
		return c20In{kind: "use", set: set, name: name, spelled: spelled, arg: r.Intn(6)}
	default:
		if concurrent {
			// the content of a file may change while other clients load, clean and look up (Debug is only toggled at barriers)
			if r.Bool() {
				return c20In{kind: "setcontent", name: file, arg: int(atomic.AddInt64(&c20VerCounter, 1))}
			}
			return c20In{kind: "fromcache", set: set, name: name, spelled: spelled}
		}
		switch r.Intn(4) {
		case 0:
			return c20In{kind: "setdebug", set: set, arg: r.Intn(2)}
		case 1:
			return c20In{kind: "setfail", name: file, arg: r.Intn(3)}
		default:
			v := 2 + r.Intn(50)
			if r.Chance(20) {
				v = -v
			}
			return c20In{kind: "setcontent", name: file, arg: v}
		}
	}
}

func c20Describe(ops []porcupine.Operation) []string {
	m := c20Model()
	var out []string
	for _, op := range ops {
		out = append(out, fmt.Sprintf("[%d..%d] client %d: %s", op.Call, op.Return, op.ClientId, m.DescribeOperation(op.Input, op.Output)))
	}
	return out
}

// ---- the built-in FSLoader over a file system whose reads can fail half way -----------------------------

type c20FlakyFS struct {
	mu      sync.Mutex
	content map[string]string
	failing map[string]int // read error after this many bytes (0 = healthy)
	opens   map[string]int
}

type c20FlakyFile struct {
	name   string
	data   []byte
	off    int
	failAt int
}

func (f *c20FlakyFile) Stat() (fs.FileInfo, error) { return nil, errors.New("stat not supported") }
func (f *c20FlakyFile) Close() error               { return nil }
func (f *c20FlakyFile) Read(p []byte) (int, error) {
	if f.failAt > 0 && f.off >= f.failAt {
		return 0, errors.New("flaky fs: read error")
	}
	if f.off >= len(f.data) {
		return 0, io.EOF
	}
	end := len(f.data)
	if f.failAt > 0 && end > f.failAt {
		end = f.failAt
	}
	n := copy(p, f.data[f.off:end])
	f.off += n
	return n, nil
}

func (s *c20FlakyFS) Open(name string) (fs.File, error) {
	s.mu.Lock()
	defer s.mu.Unlock()
	s.opens[name]++
	txt, ok := s.content[name]
	if !ok {
		return nil, &fs.PathError{Op: "open", Path: name, Err: fs.ErrNotExist}
	}
	return &c20FlakyFile{name: name, data: []byte(txt), failAt: s.failing[name]}, nil
}

func c20FSLoaderCase(c *C) {
	r := c.R
	ffs := &c20FlakyFS{content: map[string]string{}, failing: map[string]int{}, opens: map[string]int{}}
	set := pongo2.NewSet("fsloader", pongo2.NewFSLoader(ffs))
	names := []string{"a.tpl", "mails/b.tpl"}
	version := map[string]int{}
	cached := map[string]*pongo2.Template{}
	var trace []string
	for _, n := range names {
		version[n] = 1
		ffs.content[n] = fmt.Sprintf("first part of %s version 1 {{ 1 }}; second part of %s version 1", n, n)
	}
	for step := 0; step < 6+r.Intn(10); step++ {
		n := names[r.Intn(len(names))]
		switch r.Intn(6) {
		case 0:
			version[n]++
			ffs.mu.Lock()
			ffs.content[n] = fmt.Sprintf("first part of %s version %d {{ 1 }}; second part of %s version %d", n, version[n], n, version[n])
			ffs.mu.Unlock()
			trace = append(trace, fmt.Sprintf("content(%s) = version %d", n, version[n]))
		case 1:
			ffs.mu.Lock()
			if ffs.failing[n] == 0 {
				ffs.failing[n] = 10 + r.Intn(25) // fails inside the (parseable) first part
			} else {
				ffs.failing[n] = 0
			}
			f := ffs.failing[n]
			ffs.mu.Unlock()
			trace = append(trace, fmt.Sprintf("reads of %s fail after %d bytes (0 = healthy)", n, f))
		case 2:
			set.CleanCache(n)
			delete(cached, n)
			trace = append(trace, "CleanCache("+n+")")
		default:
			tpl, err := set.FromCache(n)
			c.Eval(1)
			ffs.mu.Lock()
			failing := ffs.failing[n] > 0
			ffs.mu.Unlock()
			trace = append(trace, fmt.Sprintf("FromCache(%s) -> err=%v", n, err != nil))
			if prev, ok := cached[n]; ok {
				if err != nil || tpl != prev {
					c.Fail("cache-incoherent", D{"history": trace, "why": "a cached template must be returned again"})
					return
				}
				continue
			}
			if failing {
				if err == nil {
					out, _ := tpl.Execute(nil)
					c.Fail("failed-load-cached", D{"history": trace, "why": "the loader's read failed half way, yet FromCache returned a template", "rendered": out})
					return
				}
				continue
			}
			if err != nil {
				c.Fail("cache-incoherent", D{"history": trace, "why": "healthy file system but FromCache failed: " + err.Error()})
				return
			}
			out, _ := tpl.Execute(nil)
			want := fmt.Sprintf("first part of %s version %d 1; second part of %s version %d", n, version[n], n, version[n])
			if out != want {
				c.Fail("cache-incoherent", D{"history": trace, "why": "loaded template does not render the current, complete content", "rendered": out, "expected": want})
				return
			}
			cached[n] = tpl
		}
	}
	// a directory name is not a template
	ffs.content["mails"] = ""
	ffs.failing["mails"] = 0
	c.Cover("fsloader_flaky_reads")
	c.Nontrivial("fsloader:" + strings.Join(trace, ";"))
}

// c20LocalLoaderCase: the cache contract over the engine's LocalFilesystemLoader and real files. Between two operations
// a file is replaced - by text of another or of the SAME length, with a new modification time or with the old one put
// back (rsync -t, cp -p, tar, reproducible builds) - or removed: after CleanCache(name) / CleanCache() or with Debug on,
// FromCache compiles what the file says NOW; without a clean it keeps returning the cached template.
func c20LocalLoaderCase(c *C) {
	r := c.R
	dir := filepath.Join(workerScratch, fmt.Sprintf("c20local-%d", c.Idx))
	os.MkdirAll(dir, 0o755)
	defer os.RemoveAll(dir)
	loader, err := pongo2.NewLocalFileSystemLoader(dir)
	if err != nil {
		c.Fail("fetch-accounting", D{"error": err.Error()})
		return
	}
	set := pongo2.NewSet("c20-local", loader)
	path := filepath.Join(dir, "page.tpl")
	part := filepath.Join(dir, "part.tpl")
	write := func(p, txt string, keepTime bool) {
		var old os.FileInfo
		if keepTime {
			old, _ = os.Stat(p)
		}
		os.WriteFile(p, []byte(txt), 0o644)
		if old != nil {
			os.Chtimes(p, old.ModTime(), old.ModTime())
		}
	}
	version := 1
	body := func(v int) string { return fmt.Sprintf("page v%03d {{ 1 }}|{%% include pn %%}", v) }
	partBody := func(v int) string { return fmt.Sprintf("part v%03d", v) }
	write(path, body(version), false)
	write(part, partBody(version), false)
	cachedVer, partVer := 0, version
	var trace []string
	ctx := pongo2.Context{"pn": "part.tpl"}
	for step := 0; step < 10; step++ {
		switch r.Intn(6) {
		case 0:
			version++
			keep := r.Bool()
			write(path, body(version), keep)
			trace = append(trace, fmt.Sprintf("page.tpl rewritten (same length, modification time %s) -> v%03d", map[bool]string{true: "put back", false: "new"}[keep], version))
		case 1:
			partVer++
			keep := r.Bool()
			write(part, partBody(partVer), keep)
			trace = append(trace, fmt.Sprintf("part.tpl rewritten (same length, modification time %s) -> v%03d", map[bool]string{true: "put back", false: "new"}[keep], partVer))
		case 2:
			if r.Bool() {
				set.CleanCache("page.tpl")
				trace = append(trace, "CleanCache(page.tpl)")
			} else {
				set.CleanCache()
				trace = append(trace, "CleanCache()")
			}
			cachedVer = 0
		case 3:
			set.Debug = !set.Debug
			trace = append(trace, fmt.Sprintf("Debug = %v", set.Debug))
		default:
			tpl, ferr := set.FromCache("page.tpl")
			out := ""
			if ferr == nil {
				out, ferr = tpl.Execute(ctx)
			}
			wantVer := version
			if !set.Debug {
				if cachedVer == 0 {
					cachedVer = version
				}
				wantVer = cachedVer
			}
			want := fmt.Sprintf("page v%03d 1|part v%03d", wantVer, partVer) // the computed-name include is loaded at every execution
			c.Eval(1)
			trace = append(trace, fmt.Sprintf("FromCache(page.tpl) + Execute -> %s %s", q(out), errStr(ferr)))
			if ferr != nil || out != want {
				c.Fail("cache-incoherent", D{"loader": "pongo2.NewLocalFileSystemLoader(dir)", "history": trace, "output": q(out), "expected": q(want), "error": errStr(ferr),
					"why": "after a clean (or with Debug on) FromCache compiles the file as it is now; a computed-name include is fetched at every execution"})
				return
			}
		}
	}
	c.Cover("local_filesystem_loader_files_replaced")
	c.Nontrivial(fmt.Sprintf("local:%d:%s", c.Idx, strings.Join(trace, ";")))
}

func c20Run(c *C) {
	if c.Idx%10 == 4 {
		c20LocalLoaderCase(c)
		return
	}
	if c.Idx%10 == 9 {
		c20FSLoaderCase(c)
		return
	}
	r := c.R
	nsets := 1 + r.Intn(2)
	names := []string{"/a", "/b", "/c"}[:1+r.Intn(3)]
	files := append([]string(nil), names...) // content operations address files
	if r.Chance(40) {
		// a second, unclean spelling of one of the files: a name of its own as far as the cache is concerned
		names = append(names, r.Pick([]string{"/./a", "/x/../a", "/a/.", "//a"}))
	}
	concurrent := c.Idx%4 != 0
	var delayRng *Rng
	var delayMu sync.Mutex
	delay := func() {}
	if concurrent {
		delayRng = r.Fork()
		delay = func() {
			delayMu.Lock()
			k := delayRng.Intn(6)
			us := delayRng.Intn(500)
			delayMu.Unlock()
			switch k {
			case 0, 1:
				runtime.Gosched()
			case 2:
				time.Sleep(time.Duration(us) * time.Microsecond)
			}
		}
	}
	variant := r.Intn(4)
	if variant&1 != 0 {
		// the relative spelling of the first loader maps "//a" and "/a" to one name for the second loader: not an alias
		// with a fetch count of its own there
		for i, n := range names {
			if n == "//a" {
				names[i] = "/./a"
			}
		}
	}
	if pongo2.Globals["g"] == nil {
		pongo2.Globals["g"] = "GLOBAL-OF-THE-DEFAULT-SET" // the default set is one more set: its globals are its own
	}
	w := c20NewWorld(nsets, delay, variant)
	if nsets > 1 {
		c.Cover(fmt.Sprintf("second_set_variant_two_loaders_%v_no_globals_%v", variant&1 != 0, variant&2 != 0))
	}
	var isoMu sync.Mutex
	iso := ""
	noteIso := func(s string) {
		if s != "" {
			isoMu.Lock()
			if iso == "" {
				iso = s
			}
			isoMu.Unlock()
		}
	}
	if !concurrent {
		n := 8 + r.Intn(28)
		for i := 0; i < n; i++ {
			_, s := w.do(0, c20RandOp(r, nsets, names, false))
			noteIso(s)
		}
	} else {
		k := []int{2, 4, 8}[r.Intn(3)]
		phases := 1 + r.Intn(3)
		perClient := 2 + r.Intn(4)
		procs := []int{2, 4, 16}[r.Intn(3)]
		old := runtime.GOMAXPROCS(procs)
		defer runtime.GOMAXPROCS(old)
		for ph := 0; ph < phases; ph++ {
			// barrier operations by the coordinator (Debug/content changes must not overlap other calls)
			for b := r.Intn(3); b > 0; b-- {
				var in c20In
				switch r.Intn(3) {
				case 0:
					in = c20In{kind: "setdebug", set: r.Intn(nsets), arg: r.Intn(2)}
				case 1:
					in = c20In{kind: "setfail", name: files[r.Intn(len(files))], arg: r.Intn(3)}
				default:
					in = c20In{kind: "setcontent", name: files[r.Intn(len(files))], arg: 2 + ph*10 + r.Intn(9)}
				}
				w.do(0, in)
			}
			var wg sync.WaitGroup
			start := make(chan struct{})
			for cl := 0; cl < k; cl++ {
				gr := r.Fork()
				wg.Add(1)
				go func(cl int, gr *Rng) {
					defer wg.Done()
					<-start
					for i := 0; i < perClient; i++ {
						_, s := w.do(cl+1, c20RandOp(gr, nsets, names, true))
						noteIso(s)
					}
				}(cl, gr)
			}
			close(start)
			wg.Wait()
		}
		c.Cover(fmt.Sprintf("clients_%d", k))
	}
	c.Eval(len(w.rec.ops))
	hist := w.rec.ops
	if iso != "" {
		c.Fail("set-isolation", D{"why": iso, "history": c20Describe(hist)})
		return
	}
	res, info := porcupine.CheckOperationsVerbose(c20Model(), hist, 10*time.Second)
	_ = info
	switch res {
	case porcupine.Illegal:
		c.Fail("not-linearizable", D{"sets": nsets, "names": names, "concurrent": concurrent, "history": c20Describe(hist),
			"model": "per (set,name): FromCache with Debug or on a miss must return a never-seen template compiled from the current content (error if the loader fails or the content is broken, and then nothing is cached); a hit returns the cached one; CleanCache(name)/CleanCache() empty the entry"})
		return
	case porcupine.Unknown:
		c.Inconclusive(fmt.Sprintf("porcupine returned Unknown (timeout) on a history of %d operations", len(hist)))
		return
	}
	c.Cover("porcupine_ok")
	// exactly-once accounting: successful fetches == templates created (+ compile failures of broken content)
	for si, l := range w.loaders {
		for _, n := range names {
			ids := map[int]bool{}
			brokenErrs := 0
			useGets, uses := 0, 0
			for _, op := range hist {
				in := op.Input.(c20In)
				if in.kind == "use" && in.set == si && in.name == n {
					uses++
					useGets += op.Output.(c20Out).ver
				}
				if in.kind == "fromcache" && in.set == si && in.name == n {
					out := op.Output.(c20Out)
					if out.err {
						brokenErrs++
					} else {
						ids[out.id] = true
					}
				}
			}
			l.mu.Lock()
			gets := l.okGets[n]
			l.mu.Unlock()
			if uses > 0 && concurrent {
				continue // fetches of concurrent include/FromFile uses cannot be told apart from FromCache's
			}
			gets -= useGets // fetches made by FromFile/include/extends/ssi uses of the name (measured around each use)
			// every successful fetch yields a distinct template or (broken content) an error; errors of a failing loader do not fetch
			if gets < len(ids) || gets > len(ids)+brokenErrs {
				c.Fail("fetch-accounting", D{"set": si, "name": n, "successful_loader_fetches": gets, "distinct_templates_returned": len(ids), "errors_returned": brokenErrs, "history": c20Describe(hist)})
				return
			}
			if !w.hasBroken(hist, n) && gets != len(ids) {
				c.Fail("fetch-accounting", D{"set": si, "name": n, "successful_loader_fetches": gets, "distinct_templates_returned": len(ids), "history": c20Describe(hist)})
				return
			}
		}
	}
	c.Nontrivial(strings.Join(c20Describe(hist), ";"))
	if c.WantSample() && len(hist) < 16 && concurrent {
		c.Sample(D{"history": c20Describe(hist), "verdict": "linearizable, fetches == templates created"})
	}
}

func (w *c20World) hasBroken(hist []porcupine.Operation, name string) bool {
	for _, op := range hist {
		in := op.Input.(c20In)
		if in.kind == "setcontent" && in.name == path.Clean(name) && in.arg < 0 {
			return true
		}
	}
	return false
}

func init() {
	register(&Prop{
		ID:   "C20",
		Race: true,
		Cases: func(tier string) int {
			if tier == "thorough" {
				return 120000
			}
			return 3600
		},
		Run:         c20Run,
		CaseTimeout: 120,
		Rule: "histories over {FromCache(n), CleanCache(n), CleanCache(), toggle Debug, change content (incl. content that does not compile), make the loader fail} on 1-3 names and 1-2 sets recorded at the client boundary with call/return stamps of one atomic clock; every returned template is identified by pointer identity and by the content version it renders (unique per fetch). " +
			"One quarter of the histories are sequential (8-35 operations, all operation kinds interleaved freely), three quarters concurrent (2/4/8 clients x 2-5 operations in 1-3 phases separated by barriers at which Debug/content/failure change; the loader yields or sleeps up to 500us inside Get), run in the -race worker under GOMAXPROCS 2/4/16. " +
			"Oracle: porcupine CheckOperationsVerbose against the sequential map model, partitioned per (set, name); successful loader fetches == distinct templates returned (+ compile errors of broken content); every template renders its own set's globals and TrimBlocks option; zero race reports with engine frames. One case in ten drives the built-in FSLoader over a file system whose reads fail half way (after a parseable prefix): a failed load must be an error and must not be cached, a healthy load must render the complete current content. distinct_nontrivial = distinct histories.",
		MinNontriv:  500,
		Assumptions: []string{"Debug, content and loader failures change only at barriers in concurrent phases (the documentation makes synchronising Debug the caller's job)", "porcupine v1.3.0 is a correct linearizability checker"},
	})
}
