package main

import (
	"fmt"
	"net/http"
	"os"
	"path/filepath"
	"strings"

	"github.com/flosch/pongo2/v6"
)

// c11BuiltinLoaders: the same composition claim through the engine's OWN loaders. A small directory tree is written to
// the worker's scratch directory (every base name exists in several directories with different contents, so a name
// resolved against the wrong directory yields another file or none) and rendered through
//   - LocalFilesystemLoader without base directory (names relative to the referring template, absolute names as they are),
//   - LocalFilesystemLoader / SandboxedFilesystemLoader with a base directory (names relative to the base directory),
//   - FSLoader over os.DirFS (names relative to the referring template),
//   - HttpFilesystemLoader with and without base directory (names relative to the root),
//   - two base-directory loaders (NewSet + AddLoader): the first loader that has a name wins.
//
// The references are spelled for the loader at hand so that the intended target is what the documented resolution gives.
type c11bFile struct {
	rel  string // path below the root
	id   string
	refs []c11bRef
	ext  *c11bRef // extends (entry only)
	lib  bool     // defines the exported macro lm()
}

type c11bRef struct {
	kind   string // include lazy ifexists ssi ssiparsed import
	target int
	name   string // as written
}

func c11BuiltinLoaders(c *C) {
	r := c.R
	root := filepath.Join(workerScratch, fmt.Sprintf("c11b-%d", c.Idx))
	rootB := root + "-second"
	defer os.RemoveAll(root)
	defer os.RemoveAll(rootB)
	kind := r.Pick([]string{"local-nobase", "local-nobase-cwd", "local-base", "sandboxed-base", "fs", "http", "http-base", "two-local-base"})
	dirs := []string{"", "a", "a/b", "c"}
	bases := []string{"x.tpl", "y.tpl", "z.tpl"}
	n := 4 + r.Intn(4)
	files := []*c11bFile{{rel: "m.tpl", id: "F0"}}
	used := map[string]bool{"m.tpl": true}
	for len(files) < n {
		rel := filepath.Join(r.Pick(dirs), r.Pick(bases))
		if used[rel] {
			continue
		}
		used[rel] = true
		files = append(files, &c11bFile{rel: rel, id: fmt.Sprintf("F%d", len(files))})
	}
	files[n-1].lib = true
	// two-local-base: the second loader has a copy of everything; some files exist only there
	onlyInSecond := map[int]bool{}
	if kind == "two-local-base" {
		for i := 1; i < n; i++ {
			if r.Chance(30) {
				onlyInSecond[i] = true
			}
		}
	}
	// how a reference to `to` is written in `from` for this loader kind
	spell := func(from, to string) string {
		relref, _ := filepath.Rel(filepath.Dir(from), to)
		switch kind {
		case "local-nobase-cwd":
			if r.Intn(3) == 0 {
				return "./" + relref
			}
			return relref
		case "local-nobase":
			switch r.Intn(4) {
			case 0:
				return filepath.Join(root, to) // absolute names are taken as they are
			case 1:
				return "./" + relref
			}
			return relref
		case "fs":
			if r.Intn(3) == 0 {
				return "./" + relref
			}
			return relref
		case "local-base", "sandboxed-base", "two-local-base":
			switch r.Intn(5) {
			case 0:
				if kind != "two-local-base" {
					return filepath.Join(root, to)
				}
			case 1:
				return "./" + to
			case 2:
				return "c/../" + to
			}
			return to
		default: // http: names are relative to the root (Abs returns the name as written)
			return to
		}
	}
	for i, f := range files {
		if f.lib {
			continue
		}
		for k := r.Intn(3); k >= 0 && i+1 < n; k-- {
			t := i + 1 + r.Intn(n-i-1)
			rk := r.Pick([]string{"include", "include", "lazy", "ifexists", "ssi", "ssiparsed"})
			if files[t].lib {
				rk = "import"
			}
			if onlyInSecond[t] && rk == "ifexists" {
				rk = "include" // (a target the engine does not find would silently render nothing)
			}
			f.refs = append(f.refs, c11bRef{kind: rk, target: t, name: spell(f.rel, files[t].rel)})
		}
	}
	source := func(f *c11bFile) string {
		var sb strings.Builder
		if f.lib {
			return "[" + f.id + " lib]{% macro lm() export %}<" + f.id + " macro>{% endmacro %}"
		}
		sb.WriteString("[" + f.id + " ")
		for _, rf := range f.refs {
			switch rf.kind {
			case "include":
				sb.WriteString(`{% include "` + rf.name + `" %}`)
			case "lazy":
				sb.WriteString(`{% with nm="` + rf.name + `" %}{% include nm %}{% endwith %}`)
			case "ifexists":
				sb.WriteString(`{% include "` + rf.name + `" if_exists %}{% include "` + rf.name + `.missing" if_exists %}`)
			case "ssi":
				sb.WriteString(`{% ssi "` + rf.name + `" %}`)
			case "ssiparsed":
				sb.WriteString(`{% ssi "` + rf.name + `" parsed %}`)
			case "import":
				sb.WriteString(`{% import "` + rf.name + `" lm %}{{ lm() }}`)
			}
		}
		sb.WriteString("]")
		return sb.String()
	}
	srcs := make([]string, n)
	for i := n - 1; i >= 0; i-- {
		srcs[i] = source(files[i])
	}
	var expect func(i int) string
	expect = func(i int) string {
		f := files[i]
		if f.lib {
			return "[" + f.id + " lib]"
		}
		var sb strings.Builder
		sb.WriteString("[" + f.id + " ")
		for _, rf := range f.refs {
			switch rf.kind {
			case "ssi":
				sb.WriteString(srcs[rf.target])
			case "import":
				sb.WriteString("<" + files[rf.target].id + " macro>")
			default:
				sb.WriteString(expect(rf.target))
			}
		}
		sb.WriteString("]")
		return sb.String()
	}
	write := func(base, rel, txt string) {
		p := filepath.Join(base, rel)
		os.MkdirAll(filepath.Dir(p), 0o755)
		os.WriteFile(p, []byte(txt), 0o644)
	}
	// decoys: every base name in every directory that is not a file of the tree
	for _, d := range dirs {
		for _, b := range append([]string{"m.tpl"}, bases...) {
			if rel := filepath.Join(d, b); !used[rel] {
				write(root, rel, "[DECOY "+rel+"]")
			}
		}
	}
	for i, f := range files {
		if kind == "two-local-base" {
			write(rootB, f.rel, strings.Replace(srcs[i], "["+f.id+" ", "[SECOND-LOADER-COPY-OF-"+f.id+" ", 1))
			if onlyInSecond[i] {
				write(rootB, f.rel, srcs[i])
				continue
			}
		}
		write(root, f.rel, srcs[i])
	}
	// is a file that only the second loader has referenced from another template (reachable from the entry)?
	nestedOnlyInSecond := false
	reach := map[int]bool{0: true}
	for i := 0; i < n; i++ {
		if !reach[i] {
			continue
		}
		for _, rf := range files[i].refs {
			if onlyInSecond[rf.target] {
				nestedOnlyInSecond = true
			}
			if rf.kind != "ssi" {
				reach[rf.target] = true
			}
		}
	}
	var set *pongo2.TemplateSet
	entry := "m.tpl"
	var lerr error
	switch kind {
	case "local-nobase":
		l, e := pongo2.NewLocalFileSystemLoader("")
		lerr = e
		set = pongo2.NewSet("c11b", l)
		entry = filepath.Join(root, "m.tpl")
	case "local-nobase-cwd":
		// no base directory and a RELATIVE entry name: resolved against the process's working directory as it is NOW - the
		// application was in another directory (with files of the same names) when it rendered before
		l, e := pongo2.NewLocalFileSystemLoader("")
		lerr = e
		set = pongo2.NewSet("c11b", l)
		if old, werr := os.Getwd(); werr == nil && e == nil {
			defer os.Chdir(old)
			write(rootB, "m.tpl", "[WRONG-WORKING-DIRECTORY]")
			os.Chdir(rootB)
			if t0, e0 := pongo2.NewSet("c11b-before", l).FromFile("m.tpl"); e0 == nil {
				t0.Execute(nil)
			}
			os.Chdir(root)
		}
	case "local-base":
		l, e := pongo2.NewLocalFileSystemLoader(root)
		if e == nil && r.Bool() {
			l = pongo2.MustNewLocalFileSystemLoader("")
			e = l.SetBaseDir(root)
		}
		lerr = e
		set = pongo2.NewSet("c11b", l)
	case "sandboxed-base":
		l, e := pongo2.NewSandboxedFilesystemLoader(root)
		lerr = e
		set = pongo2.NewSet("c11b", l)
	case "fs":
		set = pongo2.NewSet("c11b", pongo2.NewFSLoader(os.DirFS(root)))
	case "http":
		l, e := pongo2.NewHttpFileSystemLoader(http.Dir(root), "")
		lerr = e
		set = pongo2.NewSet("c11b", l)
	case "http-base":
		l, e := pongo2.NewHttpFileSystemLoader(http.Dir(filepath.Dir(root)), filepath.Base(root))
		if e == nil && r.Bool() {
			l = pongo2.MustNewHttpFileSystemLoader(http.Dir(filepath.Dir(root)), filepath.Base(root))
		}
		lerr = e
		set = pongo2.NewSet("c11b", l)
	default:
		l1, e1 := pongo2.NewLocalFileSystemLoader(root)
		l2, e2 := pongo2.NewLocalFileSystemLoader(rootB)
		if e1 != nil {
			lerr = e1
		} else {
			lerr = e2
		}
		set = pongo2.NewSet("c11b", l1)
		set.AddLoader(l2)
	}
	tree := D{}
	for i, f := range files {
		where := ""
		if onlyInSecond[i] {
			where = " (only below the second loader's directory)"
		}
		tree[f.rel+where] = srcs[i]
	}
	d := D{"loader": kind, "root": root, "files": tree, "entry": entry}
	if lerr != nil || set == nil {
		d["error"] = errStr(lerr)
		c.Fail("composition-mismatch", d)
		return
	}
	want := expect(0)
	for run := 0; run < 2; run++ {
		var tpl *pongo2.Template
		var err error
		if run == 0 {
			tpl, err = set.FromFile(entry)
		} else {
			tpl, err = set.FromCache(entry)
		}
		var out string
		if err == nil {
			out, err = execSpread(tpl, pongo2.Context{}, uint64(c.Idx+run))
		}
		c.Eval(1)
		if nestedOnlyInSecond && err != nil && strings.Contains(err.Error(), "unable to resolve template") {
			// known finding (KNOWN_FINDINGS.txt, C11 fallback-loader-nested): a reference written inside a template is resolved
			// by the FIRST loader only; the absolute name it produces is not found below the second loader's base directory
			c.AddExtra("known_finding_shape_seen", 1)
			c.Cover("builtin_loader_two-local-base_known_finding_shape")
			return
		}
		if err != nil || out != want {
			d["output"], d["expected"], d["error"], d["via_FromCache"] = q(out), q(want), errStr(err), run == 1
			d["why"] = "every reference is spelled so that the documented resolution of this loader leads to the intended file; same base names in other directories are decoys"
			c.Fail("composition-mismatch", d)
			return
		}
	}
	// a name that only the second loader has, asked for at the top level: found there (its own references go on as above)
	for i := 1; i < n; i++ {
		if !onlyInSecond[i] {
			continue
		}
		// (not if its own references, directly or further down, lead to another such file: the known finding)
		var leads func(j int) bool
		leads = func(j int) bool {
			for _, rf := range files[j].refs {
				if onlyInSecond[rf.target] || (rf.kind != "ssi" && leads(rf.target)) {
					return true
				}
			}
			return false
		}
		if leads(i) {
			continue
		}
		tpl, err := set.FromFile(files[i].rel)
		var out string
		if err == nil {
			out, err = tpl.Execute(pongo2.Context{})
		}
		c.Eval(1)
		if err != nil || out != expect(i) {
			d["entry"], d["output"], d["expected"], d["error"] = files[i].rel, q(out), q(expect(i)), errStr(err)
			d["why"] = "the first loader has no such file, the second one has: the first loader that has a name wins"
			c.Fail("composition-mismatch", d)
			return
		}
		c.Cover("builtin_loader_top_level_name_from_second_loader")
	}
	c.Cover("builtin_loader_" + kind)
	c.Nontrivial("builtin:" + kind + ":" + srcs[0])
	if c.WantSample() {
		c.Sample(d)
	}
}

// c11Finding replays the listed known finding: two base-directory loaders, a partial that only the second one has,
// included from a template of the first.
func c11Finding(c *C, spec map[string]any) bool {
	root := filepath.Join(workerScratch, "c11-finding")
	defer os.RemoveAll(root)
	var loaders []pongo2.TemplateLoader
	for _, key := range []string{"first", "second"} {
		dir := filepath.Join(root, key)
		os.MkdirAll(dir, 0o755)
		for k, v := range spec[key].(map[string]any) {
			p := filepath.Join(dir, k)
			os.MkdirAll(filepath.Dir(p), 0o755)
			os.WriteFile(p, []byte(v.(string)), 0o644)
		}
		l, err := pongo2.NewLocalFileSystemLoader(dir)
		if err != nil {
			return false
		}
		loaders = append(loaders, l)
	}
	set := pongo2.NewSet("c11-finding", loaders...)
	tpl, err := set.FromFile(spec["entry"].(string))
	if err == nil {
		_, err = tpl.Execute(pongo2.Context{})
	}
	return err != nil && strings.Contains(err.Error(), "unable to resolve template")
}
