package main

import (
	"fmt"
	"math"
	"strconv"
	"strings"
	"sync/atomic"

	"github.com/flosch/pongo2/v6"
)

// C07 - expressions evaluate according to the documented C-like semantics.
// An independent evaluator works on the TREE; the printer emits minimal
// parentheses for the property's precedence table; the engine sees only text.

type xkind int

const (
	kI xkind = iota
	kF
	kS
	kB
	kLI // []int (only right of `in`, or as truthiness operand)
	kLS // []string
	kM  // map[string]int
)

type xval struct {
	k      xkind
	i      int64
	f      float64
	s      string
	b      bool
	n      int  // container length
	notAmb bool // result of `not` on a non-bool: printed form has accepted alternatives
	notSrc xkind
	exo    bool // leaf of a pointer, sized or named non-integer type: equality and list membership compare Go values (cross-type, not judged)
	zamb   bool // string that contains the printed form of a float zero (its sign is unspecified)
}

type xnode struct {
	op   string // "" = leaf; "neg" "not"; binary operators by canonical spelling
	l, r *xnode
	text string // leaf source text
	val  xval   // leaf value
	call int    // 1 = counting call returning true, 2 = returning false
}

var c07Calls int64
var c07Swapped = c07CtxSwapped()

func c07Ctx() pongo2.Context {
	return pongo2.Context{
		"i0": 0, "i1": 1, "i2": 2, "i7": 7, "in3": -3, "u8": uint8(2),
		"f05": 0.5, "f2": 2.0, "fn15": -1.5, "big": c07Big62, "nan": math.NaN(),
		"se": "", "sa": "a", "s1": "1",
		"bt": true, "bf": false,
		"li": []int{1, 2, 3}, "ls": []string{"a", "b"}, "m": map[string]int{"a": 1},
		"le": []int{},
		"ct": func() bool { atomic.AddInt64(&c07Calls, 1); return true },
		"cf": func() bool { atomic.AddInt64(&c07Calls, 1); return false },
		// the same four kinds behind pointers, sized and named types
		"pf25": &c07pf, "pi3": &c07pi, "ps": &c07ps, "pbt": &c07pb,
		"ubig": uint64(1<<53 + 1), "ibig": int64(1 << 53), "ubig2": uint64(1 << 53), "ibig1": int(1<<53 + 1),
		"f32": float32(1.5), "i64n": int64(-2), "u16": uint16(5), "nf": c07NF(0.25), "ni": c07NI(4), "ns": c07NS("a"), "nb": c07NB(true),
	}
}

// c07CtxSwapped binds the numeric variables to values of the OTHER kind (ints where the normal context has floats
// and vice versa). Every compiled expression is evaluated once with it before the judged evaluations: what a
// compiled node learned from earlier operands must not influence later evaluations.
func c07CtxSwapped() pongo2.Context {
	ctx := c07Ctx()
	for k, v := range map[string]any{"i0": 0.0, "i1": 1.5, "i2": 2.5, "i7": 7.0, "in3": -3.5, "u8": 2.25, "f05": 1, "f2": 2, "fn15": -2,
		"pf25": &c07pi, "pi3": &c07pf, "f32": int8(1), "i64n": -2.5, "u16": float32(5.5), "nf": c07NI(1), "ni": c07NF(4.5), "big": 3,
		"se": 0, "sa": 1.5, "s1": 1, "bt": 1, "bf": 0.0} {
		ctx[k] = v
	}
	return ctx
}

type c07NF float64
type c07NI int
type c07NS string
type c07NB bool

var c07pf, c07pi, c07ps, c07pb = 2.5, 3, "a", true

const c07Big62 = float64(1 << 62) // results around 2^63 and beyond must still print as plain six-decimal floats

func leafI(t string, v int64) *xnode   { return &xnode{text: t, val: xval{k: kI, i: v}} }
func leafF(t string, v float64) *xnode { return &xnode{text: t, val: xval{k: kF, f: v}} }
func leafS(t string, v string) *xnode  { return &xnode{text: t, val: xval{k: kS, s: v}} }
func leafB(t string, v bool) *xnode    { return &xnode{text: t, val: xval{k: kB, b: v}} }

var c07FullLeaves = []*xnode{
	leafI("0", 0), leafI("1", 1), leafI("2", 2), leafI("3", 3), leafI("7", 7), leafI("010", 10), leafI("08", 8), leafF("010.50", 10.5),
	leafF("0.5", 0.5), leafF("2.0", 2.0),
	leafS(`""`, ""), leafS(`"a"`, "a"), leafS(`"1"`, "1"),
	leafB("true", true), leafB("false", false),
	leafI("i0", 0), leafI("i2", 2), leafI("in3", -3), leafI("u8", 2),
	leafF("f05", 0.5), leafF("fn15", -1.5), leafF("big", c07Big62), leafF("nan", math.NaN()),
	leafS("sa", "a"), leafS("se", ""),
	leafB("bt", true), leafB("bf", false),
	{text: "li", val: xval{k: kLI, n: 3}}, {text: "ls", val: xval{k: kLS, n: 2}}, {text: "m", val: xval{k: kM, n: 1}},
	{text: "ct()", val: xval{k: kB, b: true}, call: 1}, {text: "cf()", val: xval{k: kB, b: false}, call: 2},
	{text: "[1, 2, 3]", val: xval{k: kLI, n: 3}}, {text: "[\"a\", \"b\"]", val: xval{k: kLS, n: 2}},
	// the four kinds behind pointers, sized and named types
	leafI("pi3", 3), leafI("i64n", -2), leafI("u16", 5), leafI("ni", 4),
	// integers beyond 2^53 of signed and unsigned kinds, one float64 ulp apart: equality is decided on the integers
	leafI("ubig", 1<<53+1), leafI("ibig", 1<<53), leafI("ubig2", 1<<53), leafI("ibig1", 1<<53+1),
	exo(leafF("pf25", 2.5)), exo(leafF("f32", 1.5)), exo(leafF("nf", 0.25)),
	exo(leafS("ps", "a")), exo(leafS("ns", "a")), exo(leafB("pbt", true)), exo(leafB("nb", true)),
}

func exo(n *xnode) *xnode { n.val.exo = true; return n }

var c07SmallLeaves = []*xnode{leafI("2", 2), leafI("i0", 0), leafF("0.5", 0.5), leafB("bt", true), leafS(`"a"`, "a")}

var c07BinOps = []string{"+", "-", "*", "/", "%", "^", "==", "!=", "<", "<=", ">", ">=", "in", "and", "or"}

func xprec(n *xnode) int {
	switch n.op {
	case "":
		return 7
	case "^":
		return 6
	case "neg", "not":
		return 5
	case "*", "/", "%":
		return 4
	case "+", "-":
		return 3
	case "and", "or":
		return 1
	default:
		return 2
	}
}

type xstatus int

const (
	stOK xstatus = iota
	stErr
	stUnjudged
)

type xeval struct {
	powInt bool
	calls  int
}

func truthy(v xval) bool {
	switch v.k {
	case kI:
		return v.i != 0
	case kF:
		return v.f != 0
	case kS:
		return v.s != ""
	case kB:
		return v.b
	default:
		return v.n > 0
	}
}

func printed(v xval) string {
	switch v.k {
	case kI:
		return strconv.FormatInt(v.i, 10)
	case kF:
		return fmt.Sprintf("%f", v.f)
	case kS:
		return v.s
	case kB:
		if v.b {
			return "True"
		}
		return "False"
	}
	return "?"
}

const c07Big = 1e12   // integers beyond it are not judged (overflow)
const c07BigF = 1e100 // floats beyond it are not judged

func (e *xeval) eval(n *xnode) (xval, xstatus) {
	if n.op == "" {
		if n.call > 0 {
			e.calls++
		}
		return n.val, stOK
	}
	if n.op == "and" || n.op == "or" {
		l, st := e.eval(n.l)
		if st != stOK {
			return l, st
		}
		if n.op == "and" && !truthy(l) {
			return xval{k: kB, b: false}, stOK
		}
		if n.op == "or" && truthy(l) {
			return xval{k: kB, b: true}, stOK
		}
		r, st := e.eval(n.r)
		if st != stOK {
			return r, st
		}
		return xval{k: kB, b: truthy(r)}, stOK
	}
	if n.op == "neg" || n.op == "not" {
		v, st := e.eval(n.l)
		if st != stOK {
			return v, st
		}
		if n.op == "not" {
			if v.k == kB && !v.notAmb {
				return xval{k: kB, b: !v.b}, stOK
			}
			return xval{k: kB, b: !truthy(v), notAmb: true, notSrc: v.k}, stOK
		}
		if v.notAmb {
			return v, stUnjudged
		}
		switch v.k {
		case kI:
			return xval{k: kI, i: -v.i}, stOK
		case kF:
			return xval{k: kF, f: -v.f}, stOK
		}
		return v, stUnjudged
	}
	l, st := e.eval(n.l)
	if st != stOK {
		return l, st
	}
	r, st := e.eval(n.r)
	if st != stOK {
		return r, st
	}
	if l.notAmb || r.notAmb {
		return l, stUnjudged
	}
	num := func(v xval) bool { return v.k == kI || v.k == kF }
	fl := func(v xval) float64 {
		if v.k == kI {
			return float64(v.i)
		}
		return v.f
	}
	chk := func(v xval) (xval, xstatus) {
		if v.k == kI && (v.i > c07Big || v.i < -c07Big) {
			return v, stUnjudged
		}
		// NaN is a float like any other: arithmetic keeps it, every ordering comparison with it is false, it is != itself and true
		if v.k == kF && (math.IsInf(v.f, 0) || math.Abs(v.f) > c07BigF) {
			return v, stUnjudged
		}
		return v, stOK
	}
	switch n.op {
	case "+":
		if l.k == kS || r.k == kS {
			if l.k > kB || r.k > kB {
				return l, stUnjudged
			}
			zamb := l.zamb || r.zamb || (l.k == kF && l.f == 0) || (r.k == kF && r.f == 0)
			return xval{k: kS, s: printed(l) + printed(r), zamb: zamb}, stOK
		}
		if !num(l) || !num(r) {
			return l, stUnjudged
		}
		if l.k == kF || r.k == kF {
			return chk(xval{k: kF, f: fl(l) + fl(r)})
		}
		return chk(xval{k: kI, i: l.i + r.i})
	case "-", "*", "/":
		if !num(l) || !num(r) {
			return l, stUnjudged
		}
		isF := l.k == kF || r.k == kF
		switch n.op {
		case "-":
			if isF {
				return chk(xval{k: kF, f: fl(l) - fl(r)})
			}
			return chk(xval{k: kI, i: l.i - r.i})
		case "*":
			if isF {
				return chk(xval{k: kF, f: fl(l) * fl(r)})
			}
			return chk(xval{k: kI, i: l.i * r.i})
		default:
			if isF {
				if fl(r) == 0 {
					return l, stErr
				}
				return chk(xval{k: kF, f: fl(l) / fl(r)})
			}
			if r.i == 0 {
				return l, stErr
			}
			return chk(xval{k: kI, i: l.i / r.i})
		}
	case "%":
		if l.k != kI || r.k != kI {
			return l, stUnjudged
		}
		if r.i == 0 {
			return l, stErr
		}
		return xval{k: kI, i: l.i % r.i}, stOK
	case "^":
		if !num(l) || !num(r) {
			return l, stUnjudged
		}
		p := math.Pow(fl(l), fl(r))
		if math.IsInf(p, 0) || math.Abs(p) > c07BigF || (l.k == kI && r.k == kI && (math.IsNaN(p) || math.Abs(p) > c07Big)) {
			return l, stUnjudged
		}
		if e.powInt && l.k == kI && r.k == kI {
			return xval{k: kI, i: int64(p)}, stOK
		}
		return xval{k: kF, f: p}, stOK
	case "<", "<=", ">", ">=":
		if !num(l) || !num(r) {
			return l, stUnjudged
		}
		var b bool
		if l.k == kF || r.k == kF {
			a, c := fl(l), fl(r)
			switch n.op {
			case "<":
				b = a < c
			case "<=":
				b = a <= c
			case ">":
				b = a > c
			default:
				b = a >= c
			}
		} else {
			switch n.op {
			case "<":
				b = l.i < r.i
			case "<=":
				b = l.i <= r.i
			case ">":
				b = l.i > r.i
			default:
				b = l.i >= r.i
			}
		}
		return xval{k: kB, b: b}, stOK
	case "==", "!=":
		if l.k != r.k || l.k > kB || l.zamb || r.zamb || l.exo || r.exo {
			return l, stUnjudged
		}
		var eq bool
		switch l.k {
		case kI:
			eq = l.i == r.i
		case kF:
			eq = l.f == r.f
		case kS:
			eq = l.s == r.s
		case kB:
			eq = l.b == r.b
		}
		if n.op == "!=" {
			eq = !eq
		}
		return xval{k: kB, b: eq}, stOK
	case "in":
		if l.zamb || r.zamb || (l.exo && r.k != kS) {
			return l, stUnjudged
		}
		switch {
		case l.k == kS && r.k == kS:
			return xval{k: kB, b: strings.Contains(r.s, l.s)}, stOK
		case l.k == kI && r.k == kLI:
			return xval{k: kB, b: l.i >= 1 && l.i <= 3}, stOK
		case l.k == kS && r.k == kLS:
			return xval{k: kB, b: l.s == "a" || l.s == "b"}, stOK
		case l.k == kS && r.k == kM:
			return xval{k: kB, b: l.s == "a"}, stOK
		}
		return l, stUnjudged
	}
	return l, stUnjudged
}

// ---- printer ---------------------------------------------------------------

type xprinter struct {
	r      *Rng
	plain  bool // canonical spellings and single spaces
	tokens []string
}

func (p *xprinter) emit(t string) { p.tokens = append(p.tokens, t) }

func (p *xprinter) opText(op string) string {
	if p.plain {
		return op
	}
	switch op {
	case "and":
		return p.r.Pick([]string{"and", "&&"})
	case "or":
		return p.r.Pick([]string{"or", "||"})
	case "not":
		return p.r.Pick([]string{"not", "!"})
	case "!=":
		return p.r.Pick([]string{"!=", "<>"})
	}
	return op
}

func (p *xprinter) paren(n *xnode) {
	p.emit("(")
	p.print(n, true)
	p.emit(")")
}

func (p *xprinter) print(n *xnode, lead bool) {
	switch {
	case n.op == "":
		t := n.text
		if !p.plain && strings.HasPrefix(t, `"`) && p.r.Bool() {
			t = "'" + strings.Trim(t, `"`) + "'"
		}
		p.emit(t)
	case n.op == "neg" || n.op == "not":
		if !lead {
			p.paren(n)
			return
		}
		if n.op == "neg" {
			p.emit("-")
		} else {
			p.emit(p.opText("not"))
		}
		if xprec(n.l) < 6 {
			p.paren(n.l)
		} else {
			p.print(n.l, false)
		}
	default:
		pr := xprec(n)
		// left operand
		lp := xprec(n.l)
		needL := lp < pr
		switch {
		case pr == 1 && lp == 1:
			needL = n.l.op != n.op
		case pr == 2 && lp == 2:
			needL = true
		case pr == 6 && lp == 6:
			needL = true
		}
		if n.l.op == "not" && (pr == 3 || pr == 4 || n.op == "in") {
			needL = true
		}
		if needL {
			p.paren(n.l)
		} else {
			p.print(n.l, lead)
		}
		p.emit(p.opText(n.op))
		rp := xprec(n.r)
		needR := rp < pr
		switch {
		case pr == 1 && rp == 1:
			needR = n.r.op != n.op
		case pr == 2 || pr == 3 || pr == 4:
			if rp == pr {
				needR = true
			}
		}
		if needR {
			p.paren(n.r)
		} else {
			p.print(n.r, pr <= 2)
		}
	}
}

func wordEdge(b byte) bool {
	return b == '_' || b >= '0' && b <= '9' || b >= 'a' && b <= 'z' || b >= 'A' && b <= 'Z'
}

func (p *xprinter) String() string {
	var sb strings.Builder
	for i, t := range p.tokens {
		if i > 0 {
			prev := p.tokens[i-1]
			must := wordEdge(prev[len(prev)-1]) && wordEdge(t[0])
			// quotes next to word characters are fine; keep a space between a quote and a quote
			if prev[len(prev)-1] == '"' || prev[len(prev)-1] == '\'' {
				if t[0] == '"' || t[0] == '\'' {
					must = true
				}
			}
			n := 1
			if !p.plain {
				n = p.r.Intn(3)
			}
			if must && n == 0 {
				n = 1
			}
			sb.WriteString(strings.Repeat(" ", n))
		}
		sb.WriteString(t)
	}
	return sb.String()
}

func c07Print(n *xnode, r *Rng, plain bool) string {
	p := &xprinter{r: r, plain: plain}
	p.print(n, true)
	return p.String()
}

// full parenthesisation, for the report
func c07Full(n *xnode) string {
	switch {
	case n.op == "":
		return n.text
	case n.op == "neg":
		return "(-" + c07Full(n.l) + ")"
	case n.op == "not":
		return "(not " + c07Full(n.l) + ")"
	}
	return "(" + c07Full(n.l) + " " + n.op + " " + c07Full(n.r) + ")"
}

// ---- judging one tree --------------------------------------------------------

type c07Expect struct {
	status xstatus
	out    map[string]bool
	truth  bool
	calls  int
}

func c07Expected(n *xnode) (outPos c07Expect, ifPos c07Expect) {
	outPos.out = map[string]bool{}
	var res [2]xval
	var st [2]xstatus
	var calls [2]int
	for m := 0; m < 2; m++ {
		e := &xeval{powInt: m == 1}
		res[m], st[m] = e.eval(n)
		calls[m] = e.calls
	}
	if st[0] == stUnjudged || st[1] == stUnjudged || st[0] != st[1] || calls[0] != calls[1] {
		outPos.status, ifPos.status = stUnjudged, stUnjudged
		return
	}
	outPos.status, ifPos.status = st[0], st[0]
	outPos.calls, ifPos.calls = calls[0], calls[0]
	if st[0] == stErr {
		return
	}
	if truthy(res[0]) != truthy(res[1]) {
		ifPos.status = stUnjudged
	}
	ifPos.truth = truthy(res[0])
	for m := 0; m < 2; m++ {
		v := res[m]
		if v.k > kB {
			outPos.status = stUnjudged
			return
		}
		if v.notAmb {
			if v.notSrc == kI {
				outPos.out[printed(v)] = true
				if v.b {
					outPos.out["1"] = true
				} else {
					outPos.out["0"] = true
				}
			} else {
				outPos.status = stUnjudged
				return
			}
			continue
		}
		outPos.out[printed(v)] = true
	}
	return
}

func c07Judge(c *C, set *pongo2.TemplateSet, ctx pongo2.Context, n *xnode, layouts int) bool {
	outE, ifE := c07Expected(n)
	if outE.status == stUnjudged && ifE.status == stUnjudged {
		c.Unjudged()
		return true
	}
	for lay := 0; lay < layouts; lay++ {
		text := c07Print(n, c.R, lay == 0)
		for pos := 0; pos < 2; pos++ {
			exp := outE
			src := "{{ " + text + " }}"
			if pos == 1 {
				exp = ifE
				src = "{% if " + text + " %}T{% else %}F{% endif %}"
			}
			if exp.status == stUnjudged {
				continue
			}
			tpl, err := set.FromString(src)
			c.Eval(1)
			if err != nil {
				c.Fail("compile-error", D{"tree": c07Full(n), "source": src, "error": err.Error()})
				return false
			}
			// the compiled expression is evaluated twice: the value of an expression does not depend on earlier evaluations
			tpl.Execute(c07Swapped)
			first, ferr := tpl.Execute(ctx)
			before := atomic.LoadInt64(&c07Calls)
			out, xerr := execSpread(tpl, ctx, hashStr(src))
			ncalls := int(atomic.LoadInt64(&c07Calls) - before)
			if first != out || (ferr == nil) != (xerr == nil) {
				c.Fail("second-evaluation-differs", D{"tree": c07Full(n), "source": src, "first_output": first, "second_output": out, "first_error": errStr(ferr), "second_error": errStr(xerr)})
				return false
			}
			d := D{"tree": c07Full(n), "source": src, "output": out, "error": errStr(xerr)}
			if exp.status == stErr {
				if xerr == nil {
					d["expected"] = "an execution error (division or modulo by zero)"
					c.Fail("missing-error", d)
					return false
				}
			} else {
				if xerr != nil {
					d["expected"] = "no error"
					c.Fail("unexpected-error", d)
					return false
				}
				if pos == 0 && !exp.out[out] && !c07ZeroEq(exp.out, out) {
					d["expected"] = keys(exp.out)
					c.Fail("wrong-value", d)
					return false
				}
				if pos == 1 && (out == "T") != exp.truth {
					d["expected_branch_taken"] = exp.truth
					c.Fail("wrong-branch", d)
					return false
				}
			}
			if ncalls != exp.calls {
				d["expected_calls"] = exp.calls
				d["observed_calls"] = ncalls
				c.Fail("short-circuit", d)
				return false
			}
			// a leading unary plus is the identity, wherever a signed expression may stand
			if lay == 0 && pos == 0 && xerr == nil && exp.status != stErr && hashStr(src)%6 == 0 {
				forms := []string{"{{ +(" + text + ") }}", "{% set z = +(" + text + ") %}{{ z }}", "{{ (+(" + text + ")) }}"}
				if n.op == "" && !strings.HasPrefix(text, "-") {
					forms = append(forms, "{{ +"+text+" }}", "{% with z=+"+text+" %}{{ z }}{% endwith %}")
				}
				for _, ps := range forms {
					ptpl, perr := set.FromString(ps)
					if perr != nil {
						c.Fail("compile-error", D{"tree": c07Full(n), "source": ps, "error": perr.Error()})
						return false
					}
					pout, pxerr := ptpl.Execute(ctx)
					c.Eval(1)
					if pxerr != nil || pout != out {
						c.Fail("wrong-value", D{"tree": c07Full(n), "source": ps, "output": pout, "error": errStr(pxerr), "expected": out, "why": "a leading + sign is the identity: the same as " + src})
						return false
					}
				}
				c.Cover("unary_plus_identity")
			}
			if lay == 0 && pos == 0 && c.WantSample() && n.op != "" && n.l.op != "" {
				c.Sample(D{"tree": c07Full(n), "source": src, "output": out, "error": errStr(xerr)})
			}
		}
	}
	c.Nontrivial(c07Full(n))
	c.Cover("root_" + n.op)
	return true
}

// The sign of a float zero is not specified by the property (and the two readings of
// `-a * b` differ in it), so -0.000000 and 0.000000 are not distinguished.
func c07ZeroEq(exp map[string]bool, out string) bool {
	norm := func(s string) string { return strings.ReplaceAll(s, "-0.000000", "0.000000") }
	for e := range exp {
		if norm(e) == norm(out) {
			return true
		}
	}
	return false
}

func keys(m map[string]bool) []string {
	var out []string
	for k := range m {
		out = append(out, k)
	}
	return out
}

// ---- enumeration ---------------------------------------------------------------

// all trees of exactly the given depth structure up to depth d over leaves
func c07Enum(leaves []*xnode, depth int) []*xnode {
	if depth == 1 {
		return leaves
	}
	sub := c07Enum(leaves, depth-1)
	out := append([]*xnode{}, sub...)
	for _, s := range sub {
		out = append(out, &xnode{op: "neg", l: s}, &xnode{op: "not", l: s})
	}
	for _, op := range c07BinOps {
		for _, a := range sub {
			for _, b := range sub {
				out = append(out, &xnode{op: op, l: a, r: b})
			}
		}
	}
	return out
}

var c07Depth2 []*xnode  // full alphabet, depth <= 2
var c07Depth2s []*xnode // small alphabet, depth <= 2 (building blocks of depth 3)
var c07Depth3N int      // number of depth-3 trees over the small alphabet

func c07Init() {
	c07Depth2 = c07Enum(c07FullLeaves, 2)
	c07Depth2s = c07Enum(c07SmallLeaves, 2)
	n := len(c07Depth2s)
	c07Depth3N = n + 2*n + len(c07BinOps)*n*n
}

func c07Depth3Tree(i int) *xnode {
	n := len(c07Depth2s)
	if i < n {
		return c07Depth2s[i]
	}
	i -= n
	if i < 2*n {
		if i%2 == 0 {
			return &xnode{op: "neg", l: c07Depth2s[i/2]}
		}
		return &xnode{op: "not", l: c07Depth2s[i/2]}
	}
	i -= 2 * n
	op := c07BinOps[i/(n*n)]
	i %= n * n
	return &xnode{op: op, l: c07Depth2s[i/n], r: c07Depth2s[i%n]}
}

const c07Batch = 512

func c07Plan(tier string) (d2Batches, d3Batches, d3Stride, random int) {
	if c07Depth2 == nil {
		c07Init()
	}
	d2Batches = (len(c07Depth2) + c07Batch - 1) / c07Batch
	d3Stride = 8
	random = 2000
	if tier == "thorough" {
		d3Stride = 1
		random = 20000
	}
	d3Batches = (c07Depth3N/d3Stride + c07Batch - 1) / c07Batch
	return
}

// kind-directed random deep trees
func c07Rand(r *Rng, k xkind, depth int) *xnode {
	pickLeaf := func(k xkind) *xnode {
		for {
			l := c07FullLeaves[r.Intn(len(c07FullLeaves))]
			if l.val.k == k {
				// huge values and NaN make most of a deep tree unjudgeable (overflow bounds): they stay rare in random
				// trees; the exhaustive depth-2 enumeration covers them against every other leaf
				if huge := (l.val.k == kI && (l.val.i > 1e12 || l.val.i < -1e12)) || (l.val.k == kF && (l.val.f > 1e12 || l.val.f != l.val.f)); huge && !r.Chance(8) {
					continue
				}
				return l
			}
		}
	}
	if depth <= 1 || r.Chance(15) {
		return pickLeaf(k)
	}
	numKind := func() xkind {
		if r.Bool() {
			return kI
		}
		return kF
	}
	switch k {
	case kI:
		switch r.Intn(7) {
		case 0:
			return &xnode{op: "neg", l: c07Rand(r, kI, depth-1)}
		default:
			op := r.Pick([]string{"+", "-", "*", "/", "%", "+", "-"})
			return &xnode{op: op, l: c07Rand(r, kI, depth-1), r: c07Rand(r, kI, depth-1)}
		}
	case kF:
		switch r.Intn(8) {
		case 0:
			return &xnode{op: "neg", l: c07Rand(r, kF, depth-1)}
		case 1:
			return &xnode{op: "^", l: c07Rand(r, numKind(), depth-1), r: pickLeaf(kI)}
		default:
			op := r.Pick([]string{"+", "-", "*", "/"})
			if r.Bool() {
				return &xnode{op: op, l: c07Rand(r, kF, depth-1), r: c07Rand(r, numKind(), depth-1)}
			}
			return &xnode{op: op, l: c07Rand(r, numKind(), depth-1), r: c07Rand(r, kF, depth-1)}
		}
	case kS:
		other := []xkind{kS, kS, kI, kF, kB}[r.Intn(5)]
		if r.Bool() {
			return &xnode{op: "+", l: c07Rand(r, kS, depth-1), r: c07Rand(r, other, depth-1)}
		}
		return &xnode{op: "+", l: c07Rand(r, other, depth-1), r: c07Rand(r, kS, depth-1)}
	default: // kB
		switch r.Intn(8) {
		case 0:
			return &xnode{op: "not", l: c07Rand(r, kB, depth-1)}
		case 1, 2:
			op := r.Pick([]string{"<", "<=", ">", ">="})
			return &xnode{op: op, l: c07Rand(r, numKind(), depth-1), r: c07Rand(r, numKind(), depth-1)}
		case 3:
			k2 := []xkind{kI, kS, kB, kF}[r.Intn(4)]
			return &xnode{op: r.Pick([]string{"==", "!="}), l: c07Rand(r, k2, depth-1), r: c07Rand(r, k2, depth-1)}
		case 4:
			switch r.Intn(4) {
			case 0:
				return &xnode{op: "in", l: c07Rand(r, kS, depth-1), r: c07Rand(r, kS, depth-1)}
			case 1:
				return &xnode{op: "in", l: c07Rand(r, kI, depth-1), r: c07FullLeaves[22]}
			case 2:
				return &xnode{op: "in", l: c07Rand(r, kS, depth-1), r: c07FullLeaves[23]}
			default:
				return &xnode{op: "in", l: c07Rand(r, kS, depth-1), r: c07FullLeaves[24]}
			}
		default:
			op := r.Pick([]string{"and", "or"})
			ks := []xkind{kB, kB, kI, kF, kS}
			return &xnode{op: op, l: c07Rand(r, ks[r.Intn(5)], depth-1), r: c07Rand(r, ks[r.Intn(5)], depth-1)}
		}
	}
}

// c07ErrorPlaces: a division or modulo by zero is an execution error wherever the expression is written
func c07ErrorPlaces(c *C) bool {
	ctx := c07Ctx()
	ctx["ident"] = func(v *pongo2.Value) *pongo2.Value { return v }
	ctx["im"] = map[int]string{0: "zero", 1: "one"}
	for _, e := range []string{"1 / i0", "i7 % i0", "2.5 / i0", "1 / (i2 - 2)", "i1 / 0"} {
		for _, src := range []string{
			"{{ m[" + e + "] }}", "{{ im[" + e + "] }}", "{{ li[" + e + "] }}", "{{ ls[" + e + "] }}", "{{ sa[" + e + "] }}", "{% if m[" + e + "] %}t{% else %}f{% endif %}", "{{ im[0] + im[" + e + "] }}",
			"{{ ident(" + e + ") }}", "{{ [1, " + e + "] }}", "{{ 1|add:(" + e + ")|add:1 }}", "{% with w=" + e + " %}w{% endwith %}", "{% set w = " + e + " %}x", "{% for q in li[" + e + "] %}q{% endfor %}",
			"{% firstof 0 " + e + " %}", "{% ifequal 1 " + e + " %}e{% endifequal %}", "{% widthratio " + e + " 2 3 %}", "{% cycle " + e + " 2 %}", "{% ifchanged " + e + " %}c{% endifchanged %}",
			"{% macro mm(a=" + e + ") %}{{ a }}{% endmacro %}{{ mm() }}", "{% macro mn(a) %}{{ a }}{% endmacro %}{{ mn(" + e + ") }}", "{% filter add:(" + e + ") %}1{% endfilter %}", "{% include \"/p.tpl\" with w=" + e + " %}",
			"{{ true and " + e + " }}", "{{ false or " + e + " }}", "{{ not (" + e + ") }}", "{{ -(" + e + ") }}", "{{ (" + e + ") in li }}", "{{ 1 < " + e + " }}",
		} {
			set, _ := newSet(map[string]string{"/p.tpl": "p"})
			tpl, err := set.FromString(src)
			if err != nil {
				continue // not every form is valid syntax (e.g. a parenthesised filter argument)
			}
			out, xerr := tpl.Execute(ctx)
			c.Eval(1)
			if xerr == nil {
				c.Fail("missing-error", D{"source": src, "output": out, "expected": "an execution error (division or modulo by zero inside " + e + ")"})
				return false
			}
			c.Nontrivial("errplace:" + src)
		}
	}
	c.Cover("zero_division_in_every_expression_place")
	return true
}

func c07Run(c *C) {
	d2b, d3b, stride, _ := c07Plan(c.Tier)
	set, _ := newSet(emptySetFiles)
	ctx := c07Ctx()
	if c.Idx == 0 && !c07ErrorPlaces(c) {
		return
	}
	switch {
	case c.Idx < d2b:
		lo := c.Idx * c07Batch
		hi := lo + c07Batch
		if hi > len(c07Depth2) {
			hi = len(c07Depth2)
		}
		for i := lo; i < hi; i++ {
			if !c07Judge(c, set, ctx, c07Depth2[i], 3) {
				return
			}
		}
		c.CoverN("enumerated_depth<=2_full_alphabet", hi-lo)
	case c.Idx < d2b+d3b:
		b := c.Idx - d2b
		for k := 0; k < c07Batch; k++ {
			i := (b*c07Batch+k)*stride + int(uint64(c.Seed)%uint64(stride))
			if i >= c07Depth3N {
				break
			}
			if !c07Judge(c, set, ctx, c07Depth3Tree(i), 2) {
				return
			}
			c.CoverN("enumerated_depth3_small_alphabet", 1)
		}
	default:
		for k := 0; k < 50; k++ {
			kind := []xkind{kI, kF, kS, kB, kB}[c.R.Intn(5)]
			n := c07Rand(c.R, kind, 2+c.R.Intn(7))
			if !c07Judge(c, set, ctx, n, 3) {
				return
			}
			c.CoverN("random_deep", 1)
		}
	}
}

func init() {
	register(&Prop{
		ID:   "C07",
		Init: c07Init,
		Cases: func(tier string) int {
			a, b, _, r := c07Plan(tier)
			return a + b + r
		},
		Run: c07Run,
		Rule: "expression trees over {+ - * / % ^ == != < <= > >= in and or, unary - and not}: exhaustively all trees of depth <= 2 over 40 leaves (int/float/string/bool literals and variables incl. uint8, negative and zero values, lists, a map, counting calls), " +
			"all (thorough) or every 8th (quick, offset by seed) depth-3 tree over 5 leaves, plus kind-directed random trees of depth <= 8; each printed with minimal parentheses for the property's precedence table in a canonical and in random layouts (spacing, and/&&, or/||, not/!, !=/<>, quote style), in {{ }} and in {% if %}; " +
			"an independent evaluator of the tree gives the expected value / error / number of calls of the counting functions (short-circuit). Trees outside the judged fragment (kind mismatches, overflow, NaN) are counted as unjudged. distinct_nontrivial = distinct judged trees.",
		MinNontriv:  1000,
		Assumptions: []string{"int^int may print as integer or float (both accepted)", "not on an integer may print 0/1 or False/True", "mixed and/or, chained comparisons, cross-kind equality are always parenthesised or not generated"},
	})
}
