package main

import (
	"fmt"
	"strings"
	"sync/atomic"

	"github.com/flosch/pongo2/v6"
)

// C03 - sandbox: a banned tag or filter cannot be used by any route.

var c03ParseCount, c03ExecCount, c03FilterCount [2]int64

type c03ProbeNode struct{ which int }

func (n *c03ProbeNode) Execute(ctx *pongo2.ExecutionContext, w pongo2.TemplateWriter) *pongo2.Error {
	atomic.AddInt64(&c03ExecCount[n.which], 1)
	w.WriteString("[probe-tag]")
	return nil
}

var c03Tags, c03Filters []string

func c03ProbeTagParser(i int) pongo2.TagParser {
	return func(doc *pongo2.Parser, start *pongo2.Token, arguments *pongo2.Parser) (pongo2.INodeTag, *pongo2.Error) {
		atomic.AddInt64(&c03ParseCount[i], 1)
		return &c03ProbeNode{which: i}, nil
	}
}

func c03ProbeFilter(i int) pongo2.FilterFunction {
	return func(in *pongo2.Value, param *pongo2.Value) (*pongo2.Value, *pongo2.Error) {
		atomic.AddInt64(&c03FilterCount[i], 1)
		return pongo2.AsValue("F(" + in.String() + ")"), nil
	}
}

func c03Init() {
	for i, name := range []string{"vprobe_tag_a", "vprobe_tag_b"} {
		i := i
		pongo2.RegisterTag(name, c03ProbeTagParser(i))
	}
	for i, name := range []string{"vprobe_f_a", "vprobe_f_b"} {
		i := i
		if !pongo2.FilterExists(name) {
			pongo2.RegisterFilter(name, c03ProbeFilter(i))
		}
	}
	c03Tags = pongo2.VerifRegisteredTags()
	c03Filters = pongo2.VerifRegisteredFilters()
}

// usage snippets of the registered tags (victim files are served by the loader)
var c03TagSnippets = map[string]string{
	"autoescape": "{% autoescape off %}a{% endautoescape %}", "block": "{% block sbx %}b{% endblock %}", "comment": "{% comment %}c{% endcomment %}", "cycle": "{% cycle 1 2 %}",
	"extends": "", "filter": "{% filter upper %}f{% endfilter %}", "firstof": "{% firstof 1 %}", "for": "{% for i in two %}x{% endfor %}", "if": "{% if 1 %}y{% endif %}",
	"ifchanged": "{% ifchanged %}c{% endifchanged %}", "ifequal": "{% ifequal 1 1 %}e{% endifequal %}", "ifnotequal": "{% ifnotequal 1 2 %}n{% endifnotequal %}",
	"import": "{% import \"/victim_lib.tpl\" vm %}{{ vm() }}", "include": "{% include \"/victim.tpl\" %}", "lorem": "{% lorem 2 w %}", "macro": "{% macro sbm() %}m{% endmacro %}{{ sbm() }}",
	"now": "{% now \"2006\" fake %}", "set": "{% set sv = 1 %}{{ sv }}", "spaceless": "{% spaceless %}<a> <b>{% endspaceless %}", "ssi": "{% ssi \"/victim.tpl\" parsed %}",
	"templatetag": "{% templatetag openblock %}", "widthratio": "{% widthratio 1 2 100 %}", "with": "{% with w=1 %}{{ w }}{% endwith %}",
	"vprobe_tag_a": "{% vprobe_tag_a %}", "vprobe_tag_b": "{% vprobe_tag_b %}",
}

func c03FilterUse(f string) string {
	p := ""
	if ps, ok := genParamFilters[f]; ok {
		if len(ps) > 0 {
			p = ":" + ps[0]
		} else {
			p = ":\"x\""
		}
	}
	return f + p
}

// c03FilterSnippet writes filter use `fu` (e.g. upper or cut:"x") at a random expression position.
func c03FilterSnippet(r *Rng, fu string) string {
	e := r.Pick([]string{"val|" + fu, "val|lower|" + fu, "val|" + fu + "|lower", "\"lit\"|" + fu, "val|default:val|" + fu, "3|" + fu, "(val|" + fu + ")", "not val|" + fu, "val|" + fu + " == 1", "1 + 2|" + fu,
		// corners of the grammar (some of them are not valid syntax at all: whatever the parser accepts must still be checked)
		"(val)|" + fu, "((val))|" + fu, "(1 + 2)|" + fu, "(val|lower)|" + fu, "-3|" + fu, "- val|" + fu, "!val|" + fu, "val.0|" + fu, "two.1|" + fu, "two[0]|" + fu, "two[0|" + fu + "]",
		"ident(val)|" + fu, "ident(val|" + fu + ")|lower", "val|lower:(val|" + fu + ")", "val|default:(val)|" + fu, "[val]|" + fu, "[val|" + fu + "]|first", "val in two|" + fu, "val|" + fu + " in two",
		"true|" + fu, "nil|" + fu, "1.5|" + fu, "'single'|" + fu, "val |" + fu, "val| " + fu, "val\n|\n" + fu})
	forms := []string{
		"{{ " + e + " }}", "{% if " + e + " %}t{% endif %}", "{% if 0 %}{% elif " + e + " %}t{% endif %}", "{% for i in " + e + " %}i{% endfor %}", "{% with w=" + e + " %}{{ w }}{% endwith %}",
		"{% with " + e + " as w %}{{ w }}{% endwith %}", "{% set w = " + e + " %}", "{% include \"/plain.tpl\" with w=" + e + " %}", "{% macro sbm(a) %}{{ a }}{% endmacro %}{{ sbm(" + e + ") }}",
		"{% macro sbd(a=" + e + ") %}{{ a }}{% endmacro %}", "{{ two[" + e + "] }}", "{{ ident(" + e + ") }}", "{% firstof " + e + " %}", "{% ifequal " + e + " 1 %}{% endifequal %}", "{% ifnotequal 1 " + e + " %}{% endifnotequal %}",
		"{% widthratio " + e + " 2 3 %}", "{% widthratio 1 2 " + e + " %}", "{% cycle " + e + " 2 %}", "{% ifchanged " + e + " %}{% endifchanged %}", "{% filter " + fu + " %}body{% endfilter %}", "{% filter lower|" + fu + " %}body{% endfilter %}",
		"{% filter " + fu + "|lower %}body{% endfilter %}", "{{ [1, " + e + "] }}", "{% include \"/plain.tpl\" with a=1 b=" + e + " only %}", "{{ val|default:" + "val" + "|" + fu + " }}", "{% for i in two %}{{ i|" + fu + " }}{% empty %}e{% endfor %}",
	}
	return forms[r.Intn(len(forms))]
}

type c03Route struct {
	files map[string]string
	lazy  bool // the banned use is only reached through a lazy include (error at execution)
	desc  []string
}

// c03Wrap nests the snippet in random (executed) contexts and file-composition routes, to depth 3.
func c03Wrap(r *Rng, snippet string, isBlockSnippet bool) c03Route {
	rt := c03Route{files: map[string]string{"/victim.tpl": "victim", "/victim_lib.tpl": "{% macro vm() export %}vm{% endmacro %}", "/plain.tpl": "plain{{ w }}"}}
	cur := snippet
	nfile := 0
	depth := r.Intn(4)
	for i := 0; i < depth; i++ {
		k := r.Intn(19)
		if isBlockSnippet && (k == 6 || k == 12 || k == 16) {
			k = 0
		}
		switch k {
		case 0:
			cur = "{% if 1 %}" + cur + "{% endif %}"
			rt.desc = append(rt.desc, "if")
		case 1:
			cur = "{% if 0 %}n{% else %}" + cur + "{% endif %}"
			rt.desc = append(rt.desc, "else")
		case 2:
			cur = "{% if 0 %}n{% elif 1 %}" + cur + "{% endif %}"
			rt.desc = append(rt.desc, "elif")
		case 3:
			cur = "{% for q in two %}" + cur + "{% endfor %}"
			rt.desc = append(rt.desc, "for")
		case 4:
			cur = "{% for q in none %}n{% empty %}" + cur + "{% endfor %}"
			rt.desc = append(rt.desc, "empty")
		case 5:
			cur = "{% with z=1 %}" + cur + "{% endwith %}"
			rt.desc = append(rt.desc, "with")
		case 6:
			nfile++
			cur = fmt.Sprintf("{%% macro wm%d() %%}", nfile) + cur + fmt.Sprintf("{%% endmacro %%}{{ wm%d() }}", nfile)
			rt.desc = append(rt.desc, "macro")
		case 7:
			nfile++
			cur = fmt.Sprintf("{%% block wb%d %%}", nfile) + cur + "{% endblock %}"
			rt.desc = append(rt.desc, "block")
		case 8:
			cur = "{% filter lower %}" + cur + "{% endfilter %}"
			rt.desc = append(rt.desc, "filtertag")
		case 9:
			cur = "{% spaceless %}" + cur + "{% endspaceless %}"
			rt.desc = append(rt.desc, "spaceless")
		case 10:
			cur = "{% autoescape on %}" + cur + "{% endautoescape %}"
			rt.desc = append(rt.desc, "autoescape")
		case 11:
			cur = "{% ifchanged %}" + cur + "{% endifchanged %}{% ifequal 1 1 %}x{% endifequal %}"
			rt.desc = append(rt.desc, "ifchanged")
		case 12:
			nfile++
			name := fmt.Sprintf("/inc%d.tpl", nfile)
			rt.files[name] = cur
			if r.Chance(40) {
				cur = "{% include \"" + name + "\" if_exists %}" // the file exists: if_exists must not hide what is wrong inside it
				rt.desc = append(rt.desc, "static-include-if_exists")
			} else {
				cur = "{% include \"" + name + "\" %}"
				rt.desc = append(rt.desc, "static-include")
			}
		case 13:
			nfile++
			name := fmt.Sprintf("/lazy%d.tpl", nfile)
			rt.files[name] = cur
			if r.Chance(40) {
				cur = "{% include (\"" + name + "\") if_exists %}"
				rt.desc = append(rt.desc, "lazy-include-if_exists")
			} else {
				cur = "{% include (\"" + name + "\") %}"
				rt.desc = append(rt.desc, "lazy-include")
			}
			rt.lazy = true
		case 14:
			nfile++
			name := fmt.Sprintf("/ssi%d.tpl", nfile)
			rt.files[name] = cur
			cur = "{% ssi \"" + name + "\" parsed %}"
			rt.desc = append(rt.desc, "ssi-parsed")
		case 15:
			// the use sits in a parent template
			nfile++
			name := fmt.Sprintf("/parent%d.tpl", nfile)
			rt.files[name] = "P" + cur + "{% block pb %}pb{% endblock %}"
			cur = "{% extends \"" + name + "\" %}{% block pb %}child{% endblock %}"
			rt.desc = append(rt.desc, "extends-parent")
			rt.files["/main.tpl"] = cur
			return rt // extends must stay the first tag
		case 16:
			// the use sits in a child's block
			nfile++
			name := fmt.Sprintf("/base%d.tpl", nfile)
			rt.files[name] = "B{% block cb %}b{% endblock %}"
			cur = "{% extends \"" + name + "\" %}{% block cb %}" + cur + "{% endblock %}"
			rt.desc = append(rt.desc, "child-block")
			rt.files["/main.tpl"] = cur
			return rt
		case 17:
			// inside an imported macro
			nfile++
			name := fmt.Sprintf("/lib%d.tpl", nfile)
			rt.files[name] = fmt.Sprintf("{%% macro im%d() export %%}", nfile) + cur + "{% endmacro %}"
			cur = fmt.Sprintf("{%% import \"%s\" im%d %%}{{ im%d() }}", name, nfile, nfile)
			rt.desc = append(rt.desc, "imported-macro")
		default:
			cur = "text " + cur + " text"
			rt.desc = append(rt.desc, "text")
		}
	}
	rt.files["/main.tpl"] = cur
	return rt
}

func c03Ctx() pongo2.Context {
	return pongo2.Context{"val": "v", "two": []int{1, 2}, "none": []int{}, "ident": func(v *pongo2.Value) *pongo2.Value { return v }}
}

type c03Obs struct {
	compileErr, execErr error
	out                 string
	gets                []string
}

func c03RunIn(files map[string]string, banTags, banFilters []string) (c03Obs, []error) {
	set, loader := newSet(files)
	var banErrs []error
	for _, t := range banTags {
		banErrs = append(banErrs, set.BanTag(t))
	}
	for _, f := range banFilters {
		banErrs = append(banErrs, set.BanFilter(f))
	}
	var o c03Obs
	tpl, err := set.FromFile("/main.tpl")
	if err != nil {
		o.compileErr = err
	} else {
		o.out, o.execErr = tpl.Execute(c03Ctx())
	}
	o.gets, _ = loader.snapshotGets()
	return o, banErrs
}

func c03Routes(c *C) {
	r := c.R
	var target, twin, snippet, kind string
	switch r.Intn(4) {
	case 0:
		kind, target, twin = "tag", "vprobe_tag_a", "vprobe_tag_b"
		snippet = c03TagSnippets[target]
	case 1:
		kind, target, twin = "filter", "vprobe_f_a", "vprobe_f_b"
		snippet = c03FilterSnippet(r, target)
	case 2:
		kind = "tag"
		for {
			target = c03Tags[r.Intn(len(c03Tags))]
			if c03TagSnippets[target] != "" {
				break
			}
		}
		snippet = c03TagSnippets[target]
	default:
		kind = "filter"
		target = c03Filters[r.Intn(len(c03Filters))]
		snippet = c03FilterSnippet(r, c03FilterUse(target))
	}
	rt := c03Wrap(r, snippet, strings.Contains(snippet, "{% block"))
	var route c03Route = rt
	if kind == "tag" && target == "extends" {
		return
	}
	banT, banF := []string{}, []string{}
	if kind == "tag" {
		banT = []string{target}
	} else {
		banF = []string{target}
	}
	d := D{"banned_" + kind: target, "route": route.desc, "files": route.files}
	pBefore, eBefore, fBefore := atomic.LoadInt64(&c03ParseCount[0]), atomic.LoadInt64(&c03ExecCount[0]), atomic.LoadInt64(&c03FilterCount[0])
	obs, banErrs := c03RunIn(route.files, banT, banF)
	c.Eval(1)
	for _, e := range banErrs {
		if e != nil {
			d["ban_error"] = e.Error()
			c.Fail("ban-refused-on-a-fresh-set", d)
			return
		}
	}
	d["compile_err"], d["exec_err"], d["output"] = errStr(obs.compileErr), errStr(obs.execErr), q(obs.out)
	if route.lazy {
		if obs.compileErr == nil && obs.execErr == nil {
			c.Fail("banned-use-accepted", d)
			return
		}
	} else if obs.compileErr == nil {
		c.Fail("banned-use-compiled", d)
		return
	}
	if atomic.LoadInt64(&c03ParseCount[0]) != pBefore || atomic.LoadInt64(&c03ExecCount[0]) != eBefore || atomic.LoadInt64(&c03FilterCount[0]) != fBefore {
		if target == "vprobe_tag_a" || target == "vprobe_f_a" {
			d["probe_parser_calls"], d["probe_node_executions"], d["probe_filter_calls"] = atomic.LoadInt64(&c03ParseCount[0])-pBefore, atomic.LoadInt64(&c03ExecCount[0])-eBefore, atomic.LoadInt64(&c03FilterCount[0])-fBefore
			c.Fail("banned-code-ran", d)
			return
		}
	}
	if kind == "tag" && (target == "include" || target == "ssi" || target == "import") {
		for _, g := range obs.gets {
			if g == "/victim.tpl" || g == "/victim_lib.tpl" {
				d["loader_gets"] = obs.gets
				c.Fail("banned-tag-fetched-its-file", d)
				return
			}
		}
	}
	// everything not banned keeps working, other sets are unaffected
	ref, _ := c03RunIn(route.files, nil, nil)
	other := "vprobe_tag_b"
	otherF := "vprobe_f_b"
	if target == other || target == otherF {
		other, otherF = "vprobe_tag_a", "vprobe_f_a"
	}
	elsewhere, _ := c03RunIn(route.files, []string{other}, []string{otherF})
	c.Eval(2)
	if ref.compileErr != nil || ref.execErr != nil || target == "random" || strings.Contains(fmt.Sprint(route.files), "|random") {
		// the generated program is not a working (or not a deterministic) one even without any ban: the
		// "everything else keeps working" half is not judged for it; the ban itself was judged above
		c.Unjudged()
		c.Cover("target_" + kind)
		c.Nontrivial(target + "|" + fmt.Sprint(route.files))
		return
	}
	if elsewhere.compileErr != nil || elsewhere.execErr != nil || elsewhere.out != ref.out {
		d["with_unrelated_bans"] = D{"out": q(elsewhere.out), "err": errStr(elsewhere.compileErr) + errStr(elsewhere.execErr)}
		d["unrestricted_output"] = q(ref.out)
		c.Fail("unbanned-program-affected", d)
		return
	}
	if twin != "" {
		twinFiles := map[string]string{}
		for k, v := range route.files {
			twinFiles[k] = strings.ReplaceAll(v, target, twin)
		}
		tw, _ := c03RunIn(twinFiles, banT, banF)
		c.Eval(1)
		if tw.compileErr != nil || tw.execErr != nil || tw.out != ref.out {
			d["twin_files"] = twinFiles
			d["twin"] = D{"out": q(tw.out), "err": errStr(tw.compileErr) + errStr(tw.execErr)}
			d["unrestricted_output"] = q(ref.out)
			c.Fail("unbanned-twin-affected", d)
			return
		}
	}
	c.Cover("target_" + kind)
	for _, w := range route.desc {
		c.Cover("route_" + w)
	}
	c.Nontrivial(target + "|" + fmt.Sprint(route.files))
	if c.WantSample() && len(route.desc) >= 2 {
		c.Sample(d)
	}
}

// ---- histories ------------------------------------------------------------------------

type c03Model struct {
	tags, filters map[string]bool
	frozen        bool
}

func c03Histories(c *C) {
	r := c.R
	nsets := 1 + r.Intn(2)
	files := map[string]string{"/page.tpl": "page {{ val }}", "/broken.tpl": "{% if %}", "/uses.tpl": "{{ val|upper }}{% lorem 1 w %}"}
	var sets []*pongo2.TemplateSet
	var models []*c03Model
	for i := 0; i < nsets; i++ {
		s, _ := newSet(files)
		sets = append(sets, s)
		models = append(models, &c03Model{tags: map[string]bool{}, filters: map[string]bool{}})
	}
	tagPool := []string{"lorem", "now", "vprobe_tag_a", "for", "nosuchtag", "include"}
	filterPool := []string{"upper", "lower", "vprobe_f_a", "safe", "nosuchfilter", "length"}
	var trace []string
	fail := func(kind, why string) {
		c.Fail(kind, D{"history": trace, "why": why})
	}
	// probes: which targets are effectively banned in set i? (only usable once the set is frozen)
	effective := func(i int) (map[string]bool, map[string]bool) {
		et, ef := map[string]bool{}, map[string]bool{}
		for _, t := range tagPool {
			if c03TagSnippets[t] == "" {
				continue
			}
			if _, err := sets[i].FromString(c03TagSnippets[t]); err != nil && strings.Contains(err.Error(), "sandbox") {
				et[t] = true
			}
		}
		for _, f := range filterPool {
			if f == "nosuchfilter" {
				continue
			}
			if _, err := sets[i].FromString("{{ val|" + f + " }}"); err != nil && strings.Contains(err.Error(), "sandbox") {
				ef[f] = true
			}
		}
		return et, ef
	}
	check := func() bool {
		for i := range sets {
			if !models[i].frozen {
				continue
			}
			et, ef := effective(i)
			for _, t := range tagPool {
				if et[t] != models[i].tags[t] {
					fail("effective-ban-set-differs", fmt.Sprintf("set %d: tag %s banned=%v, model says %v", i, t, et[t], models[i].tags[t]))
					return false
				}
			}
			for _, f := range filterPool {
				if ef[f] != models[i].filters[f] {
					fail("effective-ban-set-differs", fmt.Sprintf("set %d: filter %s banned=%v, model says %v", i, f, ef[f], models[i].filters[f]))
					return false
				}
			}
		}
		return true
	}
	n := 4 + r.Intn(9)
	perStep := r.Chance(30)
	for step := 0; step < n; step++ {
		i := r.Intn(nsets)
		m := models[i]
		switch k := r.Intn(10); {
		case k < 3:
			t := r.Pick(tagPool)
			err := sets[i].BanTag(t)
			trace = append(trace, fmt.Sprintf("set%d.BanTag(%s) -> %v", i, t, err))
			switch {
			case m.frozen:
				if err == nil {
					fail("late-ban-accepted", "BanTag after the first template must be refused")
					return
				}
			case t != "nosuchtag" && !m.tags[t]:
				if err != nil {
					fail("ban-refused", "banning an existing, not yet banned tag before the first template must succeed")
					return
				}
				m.tags[t] = true
			}
		case k < 6:
			f := r.Pick(filterPool)
			err := sets[i].BanFilter(f)
			trace = append(trace, fmt.Sprintf("set%d.BanFilter(%s) -> %v", i, f, err))
			switch {
			case m.frozen:
				if err == nil {
					fail("late-ban-accepted", "BanFilter after the first template must be refused")
					return
				}
			case f != "nosuchfilter" && !m.filters[f]:
				if err != nil {
					fail("ban-refused", "banning an existing, not yet banned filter before the first template must succeed")
					return
				}
				m.filters[f] = true
			}
		default:
			// a template creation; the first one of a set is always a compilable source that uses nothing bannable
			if r.Intn(8) == 0 {
				// the application re-registers its own tag / filter under the same name (same behaviour): a ban is a ban
				// of the NAME and stays in force for the replacement; the set's frozen state is untouched
				w := r.Intn(2)
				e1 := pongo2.ReplaceTag([]string{"vprobe_tag_a", "vprobe_tag_b"}[w], c03ProbeTagParser(w))
				e2 := pongo2.ReplaceFilter([]string{"vprobe_f_a", "vprobe_f_b"}[w], c03ProbeFilter(w))
				trace = append(trace, fmt.Sprintf("pongo2.ReplaceTag(vprobe_tag_%c) -> %v, pongo2.ReplaceFilter(vprobe_f_%c) -> %v", 'a'+w, e1, 'a'+w, e2))
				if e1 != nil || e2 != nil {
					fail("replace-refused", "replacing a registered tag/filter must succeed")
					return
				}
				c.Cover("history_replace_tag_filter")
				if perStep && !check() {
					return
				}
				continue
			}
			how := r.Intn(12)
			if !m.frozen && how >= 6 {
				how = how % 6
			}
			var err error
			var what string
			switch how {
			case 0:
				_, err = sets[i].FromString("plain {{ val }}")
				what = "FromString"
			case 1:
				_, err = sets[i].FromBytes([]byte("plain bytes"))
				what = "FromBytes"
			case 2:
				_, err = sets[i].FromFile("/page.tpl")
				what = "FromFile"
			case 3:
				_, err = sets[i].FromCache("/page.tpl")
				what = "FromCache"
			case 4:
				_, err = sets[i].RenderTemplateString("render {{ val }}", c03Ctx())
				what = "RenderTemplateString"
			case 5:
				_, err = sets[i].RenderTemplateFile("/page.tpl", c03Ctx())
				what = "RenderTemplateFile"
			case 6:
				_, err = sets[i].FromFile("/broken.tpl")
				what = "FromFile(broken)"
				err = nil
			// failing look-ups and executions in an already frozen set: none of them may thaw it
			case 7:
				_, err = sets[i].FromFile("/missing.tpl")
				what = "FromFile(missing)"
				err = nil
			case 8:
				_, err = sets[i].FromCache("/missing.tpl")
				what = "FromCache(missing)"
				err = nil
			case 9:
				func() {
					defer func() { recover() }() // documented: RenderTemplate* panic (Must) when the template cannot be created
					sets[i].RenderTemplateFile("/missing.tpl", c03Ctx())
				}()
				what = "RenderTemplateFile(missing)"
				err = nil
			case 10:
				if lt, lerr := sets[i].FromString("{% include incname " + r.Pick([]string{"", "if_exists "}) + "%}"); lerr == nil {
					lt.Execute(pongo2.Context{"incname": "/missing.tpl"})
				}
				what = "execute lazy include of a missing file"
			default:
				func() {
					defer func() { recover() }()
					sets[i].RenderTemplateString("{{ 1|nosuchfilter }}", c03Ctx())
				}()
				sets[i].FromString("{% extends \"/missing.tpl\" %}")
				sets[i].CleanCache()
				what = "failing RenderTemplateString, extends of a missing file, CleanCache"
			}
			trace = append(trace, fmt.Sprintf("set%d.%s -> %v", i, what, err))
			if err != nil {
				fail("plain-template-rejected", "a template that uses nothing banned must compile")
				return
			}
			m.frozen = true
		}
		// probe compiles freeze a set themselves, so they would hide a creation route that forgets to freeze:
		// most histories are therefore only probed at their end
		if perStep && !check() {
			return
		}
		c.Eval(1)
	}
	// finally freeze all sets and compare
	for i := range sets {
		if !models[i].frozen {
			sets[i].FromString("x")
			models[i].frozen = true
			trace = append(trace, fmt.Sprintf("set%d.FromString (final) -> <nil>", i))
		}
	}
	if !check() {
		return
	}
	c.Cover(fmt.Sprintf("histories_sets_%d", nsets))
	c.Nontrivial(strings.Join(trace, ";"))
	if c.WantSample() && len(trace) > 6 {
		c.Sample(D{"history": trace})
	}
}

// c03BanWhileCompiling: a ban is attempted while the set's first template is still being created (from the loader's
// callback during an include fetch, or from a second goroutine parked on that callback). Whatever the answer is, it must
// be consistent: a ban that was ACCEPTED holds for that template too - it must not come out compiled with the banned
// filter or tag in it.
func c03BanWhileCompiling(c *C) {
	r := c.R
	useTag := r.Bool()
	otherGoroutine := r.Bool()
	use := "[{{ val|vprobe_f_a }}]"
	if useTag {
		use = "[{% vprobe_tag_a %}]"
	}
	before, after := "", use
	if r.Chance(30) {
		before, after = use, "" // the use was parsed before the ban is attempted
	}
	wrap := r.Pick([]string{"%s", "{%% if 1 %%}%s{%% endif %%}", "{%% block b %%}%s{%% endblock %%}"})
	files := map[string]string{"/gate.tpl": "gate", "/first.tpl": fmt.Sprintf(wrap, before+`{% include "/gate.tpl" %}`+after)}
	if r.Chance(30) {
		files["/first.tpl"] = `{% extends "/gate.tpl" %}{% block b %}` + use + `{% endblock %}`
		files["/gate.tpl"] = "gate{% block b %}{% endblock %}"
	}
	set, loader := newSet(files)
	var banErr error
	attempted := false
	loader.onGet = func(p string) error {
		if p != "/gate.tpl" || attempted {
			return nil
		}
		attempted = true
		ban := func() {
			if useTag {
				banErr = set.BanTag("vprobe_tag_a")
			} else {
				banErr = set.BanFilter("vprobe_f_a")
			}
		}
		if otherGoroutine {
			done := make(chan struct{})
			go func() { defer close(done); ban() }()
			<-done
		} else {
			ban()
		}
		return nil
	}
	pBefore, eBefore, fBefore := atomic.LoadInt64(&c03ParseCount[0]), atomic.LoadInt64(&c03ExecCount[0]), atomic.LoadInt64(&c03FilterCount[0])
	tpl, err := set.FromFile("/first.tpl")
	c.Eval(1)
	out := ""
	var xerr error
	if err == nil {
		out, xerr = tpl.Execute(c03Ctx())
	}
	ran := atomic.LoadInt64(&c03ExecCount[0]) != eBefore || atomic.LoadInt64(&c03FilterCount[0]) != fBefore
	_ = pBefore
	d := D{"files": files, "ban_attempted_during_the_fetch_of": "/gate.tpl", "from_another_goroutine": otherGoroutine, "ban_result": errStr(banErr), "compile_err": errStr(err), "exec_err": errStr(xerr), "output": q(out), "banned_code_ran": ran}
	if !attempted {
		c.Fail("setup", d)
		return
	}
	if banErr == nil && ran {
		c.Fail("banned-code-ran", d)
		return
	}
	// and afterwards the set is frozen for good
	var late error
	if useTag {
		late = set.BanTag("vprobe_tag_b")
	} else {
		late = set.BanFilter("vprobe_f_b")
	}
	if err == nil && late == nil {
		d["late_ban"] = "accepted"
		c.Fail("late-ban-accepted", d)
		return
	}
	c.Cover("ban_while_compiling")
	c.Nontrivial("banwhile:" + fmt.Sprint(files, useTag, otherGoroutine))
}

func c03Run(c *C) {
	if c.Idx%16 == 5 {
		c03BanWhileCompiling(c)
		return
	}
	if c.Idx%3 == 2 {
		c03Histories(c)
		return
	}
	c03Routes(c)
}

func init() {
	register(&Prop{
		ID:   "C03",
		Init: c03Init,
		Cases: func(tier string) int {
			if tier == "thorough" {
				return 1500000
			}
			return 60000
		},
		Run: c03Run,
		Rule: "routes (2/3 of the cases): a target (harness probe tag/filter with invocation counters, or any registered tag/filter from the hook) is banned in a fresh set and used through a random route: 26 expression/filter-tag positions x up to 3 nesting levels drawn from if/else/elif, for/empty, with, macro body, block, filter tag, spaceless, autoescape, ifchanged, static include, lazy include, ssi parsed, parent template, child block, imported macro; " +
			"the program must fail at compile time (static routes) or at the latest when the lazy include executes, the probe's parser/node/filter counters must not move, a banned include/ssi/import must not fetch its file; the same program must compile and render identically in a set with unrelated bans and (probes) with the un-banned twin. " +
			"histories (1/3): random call histories of length 4-12 over {BanTag, BanFilter (existing, unknown, already banned), FromString, FromBytes, FromFile, FromCache, RenderTemplateString, RenderTemplateFile, failing compile} on 1-2 sets against a model {banned tags, banned filters, frozen}; after every step the effective ban set of every frozen set (probe compiles) must equal the model's. distinct_nontrivial = distinct programs / histories.",
		MinNontriv:  3000,
		Assumptions: []string{"the first template creation of every history is a successful one (freezing on a failed first compile is unspecified)", "return values of banning unknown or already banned names are not judged, only their (absent) effect", "comment bodies are never parsed and are not a route"},
	})
}
