package main

import (
	"errors"
	"fmt"
	"io"
	"regexp"
	"runtime"
	"sort"
	"strings"
	"sync"
	"time"

	"github.com/flosch/pongo2/v6"
)

// C04 - compile once, render many: execution never alters the compiled template.
// Also hosts the deterministic program/context-pool generator shared with C05.

var detCtxVars = []string{"d", "maybe()", "flag", "s", "lst", "n", "z_str", "z_ints", "z_strs", "z_struct.Name", "z_int", "z_true", "z_f64", "rec.Name", "rec.Label", "rec.Email"}

// records of different Go types behind one name: the same fields at different positions, the same method with
// value and pointer receivers
type DetRecA struct {
	ID    int
	Name  string
	Email string
}

func (r DetRecA) Label() string   { return "A:" + r.Name }
func (r *DetRecA) PLabel() string { return "pA:" + r.Name }

type DetRecB struct{ Name string }

func (r *DetRecB) Label() string { return "B:" + r.Name }

type DetRecC struct {
	Email string
	Extra []int
	Name  string
	ID    int
}

func (r DetRecC) PLabel() string { return "C:" + r.Name }
func (r DetRecC) Label() string  { return "C:" + r.Email }

// detPool returns the pool of contexts of one case. Contexts 0 and 4 are equal.
// yield != nil makes the context functions yield/sleep (C05: interleaving variation).
func detPool(inc string, yield func()) []pongo2.Context {
	mk := func(s string, d int, fail bool, lst []string, flag bool) pongo2.Context {
		ctx := zooContext(s)
		ctx["incname"] = inc
		ctx["d"] = d
		ctx["flag"] = flag
		ctx["s"] = s
		ctx["n"] = len(lst)
		ctx["lst"] = lst
		// arguments that are within the filters' limits in the healthy contexts and beyond them in the failing ones
		ctx["bigdec"], ctx["bigpad"], ctx["plur"] = 2, 7, "y,ies"
		if fail {
			ctx["bigdec"], ctx["bigpad"], ctx["plur"] = 2000+d, 20000+d, "a,b,c"
		}
		// an output well beyond any buffer-size threshold (kept ExecuteBytes results are compared at the end of the history)
		ctx["bigtext"] = strings.Repeat(s+"-0123456789abcdef-", 1500+100*d)
		ctx["maybe"] = func() (string, error) {
			if yield != nil {
				yield()
			}
			if fail {
				return "", errors.New("maybe failed")
			}
			return "ok-" + s, nil
		}
		return ctx
	}
	pool0 := mk("A<a>", 5, false, []string{"x", "y", "z"}, true)
	pool1 := mk("B&b", 0, true, []string{"q"}, false)
	pool4 := mk("A<a>", 5, false, []string{"x", "y", "z"}, true)
	pool5 := mk("Dd", 1, true, []string{"1", "1", "2", "2", "1"}, false)
	swapped := mk("Cc", 2, false, []string{}, true)
	pool0["rec"] = DetRecA{1, "na<m>e", "e@x"}
	// distinct struct types that print alike (reflect.Type.String() is equal): same field names, other layouts
	pool0["twin"], pool1["twin"], pool4["twin"], pool5["twin"], swapped["twin"] = c8TwinA("p0"), c8TwinB("p1"), c8TwinA("p0"), c8TwinB("p5"), c8TwinC("sw")
	pool1["rec"] = DetRecB{"nb"}
	pool4["rec"] = DetRecA{1, "na<m>e", "e@x"}
	pool5["rec"] = &DetRecA{2, "pa", "pe@x"}
	swapped["rec"] = DetRecC{"ce@x", nil, "nc", 3}
	// same names, other dynamic types: value <-> pointer, slice <-> array, int <-> float
	swapped["z_struct"], swapped["z_pstruct"] = swapped["z_pstruct"], swapped["z_struct"]
	swapped["z_ints"] = [3]int{3, 1, 2}
	swapped["z_int"] = 42.0
	swapped["z_stringer"] = &ZPStr{V: "Cc"}
	// computed include names differ between the contexts of one history / between concurrent executions
	if inc != "" {
		pool1["incname"], swapped["incname"] = "/alt.tpl", "/alt.tpl"
	}
	return []pongo2.Context{pool0, pool1, swapped, nil, pool4, pool5}
}

type detProg struct {
	main  string
	files map[string]string
	inc   string
}

func detProgram(r *Rng) detProg {
	g := newGen(r, GenOpts{Filters: c01Filters, Deterministic: true, MaxDepth: 4, ErrorRate: 2, CtxVars: detCtxVars, CtxVarBias: 60})
	main, files := g.program()
	// make sure the stateful-looking constructs are frequent
	if r.Chance(50) {
		extra := []string{
			"{% for i in lst %}{% cycle \"a\" \"b\" %}{% ifchanged i %}c{% else %}s{% endifchanged %}{% ifchanged %}{{ i }}{% endifchanged %}{% endfor %}",
			"{% for i in z_ints %}{% cycle s n as cy silent %}{{ cy }}{% cycle cy %}{% endfor %}",
			"{% ifchanged %}top{% endifchanged %}{% cycle 1 2 3 %}",
			"\n  {% if flag %}\n  yes\n  {% endif %}\n{% for i in lst %}\n  {{ i }}\n{% endfor %}\n",
			"{% macro mm(a) %}[{{ a }}{{ s }}{% cycle \"o\" \"e\" %}]{% endmacro %}{{ mm(1) }}{{ mm(d) }}",
			"{{ 100 / d }}tail",
			"{{ twin.Name }}|{{ twin.Note }}|{{ twin.N }}|{{ twin[\"Note\"] }}|{% if \"Name\" in twin %}has{% endif %}|{% for i in lst %}{{ twin.Note }}{% endfor %}",
			"{{ twin.Note|upper }}{% with t=twin %}{{ t.Name }}{{ t.N }}{% endwith %}",
			"{{ bigtext }}|{{ s }}", "{% for i in lst %}{{ bigtext|upper }}{% endfor %}{{ n }}", "{% filter lower %}{{ bigtext }}{{ bigtext }}{% endfilter %}{{ d }}",
			"head{{ maybe() }}",
			"{% with w=maybe() %}{{ w }}{% endwith %}",
			"{% spaceless %}<a> {{ s }} <b>{% endspaceless %}{% filter upper %}{{ s }}{% endfilter %}",
			"{% widthratio n 3 100 as w %}{{ w }}{% set q = s %}{{ q }}{% autoescape off %}{{ s }}{% endautoescape %}{{ s }}",
			"{{ f_ctx3(s, \"b\", s) }}|{{ f_ctx5(s, 1, 2, n, 4) }}|{{ f_ctxv(1, n, 3) }}|{{ f_ctx3(\"x\", \"y\", \"z\") }}",
			"[{{ leak }}]{% set leak = \"L\" %}{% with other=1 %}{% ssi \"/ssipart.tpl\" parsed %}{% endwith %}",
			"{{ -1 + 2 }}{{ -2.5 * 2 }}{% for i in lst %}{{ -3 + n }}{% endfor %}",
			"<{{ rec.Name }}|{{ rec.Email }}|{{ rec.ID }}|{{ rec.Label }}|{{ rec.PLabel }}|{{ rec.Extra }}>",
			"{{ lst|slice:\"1:\" }}|{{ s|slice:\":2\" }}|{{ lst|slice:\"-2:\" }}|{{ z_ints|slice:\"1:\" }}|{{ s|truncatechars:3 }}|{{ lst|join:s }}|{{ s|center:9 }}|{{ lst|first }}{{ lst|last }}",
			"{% macro fm(a) %}{% firstof nothing \"<li&t>\" %}{{ a }}{{ \"<l>\" }}{% cycle \"<c>\" \"&\" %}{% filter cut:\"~\" %}{{ \"<f>\" }}{% endfilter %}{% endmacro %}{% if flag %}{% autoescape off %}{{ fm(s) }}{% endautoescape %}{{ fm(s) }}{% else %}{{ fm(s) }}{% autoescape off %}{{ fm(s) }}{% endautoescape %}{% endif %}",
			"{% for v in z_ints %}{{ \"ab\"|center:v }}|{{ \"abcdef\"|slice:s }}|{{ 10|add:n }}|{{ \"\"|default:s }}|{{ 5|add:v }};{% endfor %}{{ \"x\"|ljust:n }}|{{ \"lit\"|add:s }}|{{ 3|add:d }}",
			"{% widthratio n 3 100 as wr %}{{ wr|add:1 }}|{{ wr + 1 }}|{% if wr == 100 %}full{% endif %}{% with a=s %}{% ssi \"/ssipart.tpl\" parsed %}{% endwith %}[{{ a }}]{% autoescape off %}{% set inauto = s %}{% endautoescape %}[{{ inauto }}]",
			"{{ 2.5|floatformat:bigdec }}|{{ s|center:bigpad }}|{{ n|pluralize:plur }}",
			"\n\n  {{ s|ljust:bigpad }}{% for i in lst %}\n{{ i|rjust:bigpad }}{% endfor %}|{{ z_f64|floatformat:bigdec }}",
			"{% filter rjust:bigpad %}x{% endfilter %}\n{{ \"y\"|ljust:bigpad }}\n\n{{ n|pluralize:plur }}",
			"{{ n * 2 }}|{{ d * 1.5 }}|{{ z_int * 2 }}|{{ z_int / 4 }}|{{ z_f64 * n }}|{% for x in z_ints %}{{ x * d }};{% endfor %}",
		}
		k := 1 + r.Intn(3)
		for i := 0; i < k; i++ {
			main += extra[r.Intn(len(extra))]
		}
		files["/ssipart.tpl"] = "<{{ leak }}{{ other }}>"
		if r.Chance(40) {
			// an included template that may fail after it has written something
			files["/part.tpl"] = "part:" + extra[r.Intn(len(extra))]
			main += "{% include \"/part.tpl\" %}" + r.Pick([]string{"", "{% include incname %}"})
		}
	}
	inc := files["#incname"]
	delete(files, "#incname")
	if inc == "" && files["/part.tpl"] != "" {
		inc = "/part.tpl"
	}
	files["/main.tpl"] = main
	files["/alt.tpl"] = "alt:{{ s }}{{ n }}{% cycle \"p\" \"q\" %}"
	return detProg{main: main, files: files, inc: inc}
}

type execResult struct {
	out string
	err string
}

func detCompile(p detProg, opt int, onSet bool, viaCache bool) (*pongo2.Template, *pongo2.TemplateSet, error) {
	set, _ := newSet(p.files)
	tb, ls := opt&1 == 1, opt&2 == 2
	if onSet {
		set.Options.TrimBlocks = tb
		set.Options.LStripBlocks = ls
	}
	var tpl *pongo2.Template
	var err error
	if viaCache {
		tpl, err = set.FromCache("/main.tpl")
	} else {
		tpl, err = set.FromFile("/main.tpl")
	}
	if err != nil {
		return nil, set, err
	}
	if !onSet {
		tpl.Options.TrimBlocks = tb
		tpl.Options.LStripBlocks = ls
	}
	return tpl, set, nil
}

func detExec(tpl *pongo2.Template, ctx pongo2.Context, which int) execResult {
	r, _ := detExecErr(tpl, ctx, which)
	return r
}

// detErrorInSources checks that an execution error's position lies in one of the program's own sources
// (an error object shared between executions would carry another execution's position).
func detErrorInSources(err error, p detProg, extra map[string]string) string {
	pe, ok := err.(*pongo2.Error)
	if !ok || pe == nil {
		return ""
	}
	sources := map[string]string{}
	for k, v := range p.files {
		sources[k] = v
	}
	for k, v := range extra {
		sources[k] = v
	}
	why, _ := c16JudgeError(c16Obs{err: pe, phase: "execute"}, sources)
	return why
}

func detExecErr(tpl *pongo2.Template, ctx pongo2.Context, which int) (execResult, error) {
	out, err := c01Exec(tpl, ctx, which)
	if err != nil && which%4 != 3 {
		out = ""
	}
	if which%4 == 3 && err != nil {
		out = "" // the unbuffered variant may have written a prefix; only the error is compared
	}
	return execResult{out, errStr(err)}, err
}

// c04Overlap: two executions of one compiled template overlap in time (the first one is parked inside a context
// function at the innermost point of a deep nesting while the second runs to completion). Neither notices the other.
func c04Overlap(c *C) {
	r := c.R
	depth := r.Pick2([]int{3, 40, 300, 600, 900})
	var sb strings.Builder
	sb.WriteString("{% for i in lst %}{% cycle \"a\" \"b\" %}{% ifchanged i %}c{% endifchanged %}{% endfor %}")
	kind := r.Intn(4)
	for i := 0; i < depth && kind < 3; i++ {
		switch kind {
		case 0:
			fmt.Fprintf(&sb, "{%% block n%d %%}", i)
		case 1:
			sb.WriteString("{% if flag %}")
		default:
			sb.WriteString("{% with w=n %}")
		}
	}
	if kind == 3 {
		// a macro recursion that terminates at this depth: the bound on macro recursion is a bound per execution
		fmt.Fprintf(&sb, "{%% macro rec(k) %%}{%% if k > 0 %%}({{ rec(k - 1) }}){%% else %%}[{{ park() }}{{ s }}]{%% endif %%}{%% endmacro %%}{{ rec(%d) }}", depth)
	} else {
		sb.WriteString("[{{ park() }}{{ s }}{% cycle 1 2 3 %}]")
	}
	for i := 0; i < depth && kind < 3; i++ {
		sb.WriteString([]string{"{% endblock %}", "{% endif %}", "{% endwith %}"}[kind])
	}
	sb.WriteString("{% for i in lst %}{% cycle \"x\" \"y\" %}{% endfor %}tail")
	src := sb.String()
	set, _ := newSet(emptySetFiles)
	tpl, err := set.FromString(src)
	if err != nil {
		c.Fail("fresh-compile-failed", D{"nesting": depth, "error": err.Error()})
		return
	}
	mkCtx := func(s string, lst []string, park func() string) pongo2.Context {
		return pongo2.Context{"s": s, "lst": lst, "n": len(lst), "flag": true, "park": park}
	}
	noPark := func() string { return "" }
	// sequential references on a fresh compile
	ref, _ := set.FromString(src)
	wantA, eA := ref.Execute(mkCtx("A", []string{"1", "2", "2"}, noPark))
	wantB, eB := ref.Execute(mkCtx("B", []string{"7"}, noPark))
	if eA != nil || eB != nil {
		c.Fail("fresh-compile-failed", D{"nesting": depth, "error": errStr(eA) + errStr(eB)})
		return
	}
	entered, release := make(chan struct{}), make(chan struct{})
	type res struct {
		out string
		err error
	}
	resA := make(chan res, 1)
	go func() {
		out, xerr := c01Exec(tpl, mkCtx("A", []string{"1", "2", "2"}, func() string { close(entered); <-release; return "" }), r.Intn(4))
		resA <- res{out, xerr}
	}()
	select {
	case <-entered:
	case ra := <-resA:
		c.Fail("history-dependent", D{"why": "the parked execution ended before reaching its innermost point", "output": q(truncStr(ra.out, 200)), "error": errStr(ra.err)})
		return
	}
	outB, errB := c01Exec(tpl, mkCtx("B", []string{"7"}, noPark), r.Intn(4))
	close(release)
	ra := <-resA
	c.Eval(4)
	if errB != nil || outB != wantB || ra.err != nil || ra.out != wantA {
		c.Fail("history-dependent", D{"nesting_depth": depth, "nesting_kind": []string{"block", "if", "with", "terminating macro recursion"}[kind], "why": "two overlapping executions of one compiled template (the first parked at its innermost point while the second ran)",
			"second_execution": D{"out": q(truncStr(outB, 300)), "err": errStr(errB), "alone": q(truncStr(wantB, 300))}, "first_execution": D{"out": q(truncStr(ra.out, 300)), "err": errStr(ra.err), "alone": q(truncStr(wantA, 300))}})
		return
	}
	c.Cover("overlapping_executions")
	c.Nontrivial(fmt.Sprintf("overlap:%d:%d", depth, kind))
}

var reBlockName = regexp.MustCompile(`\{%-?\s*block\s+([A-Za-z_][A-Za-z0-9_]*)`)

// c04ParkLoader: a memory loader in which ONE armed call of Abs or Get (for one name) waits until it is released.
type c04ParkLoader struct {
	files    map[string]string
	mu       sync.Mutex
	parkName string
	parkIn   string // "abs" or "get"; "" = not armed
	entered  chan struct{}
	release  chan struct{}
}

func (l *c04ParkLoader) park(where, name string) {
	l.mu.Lock()
	hit := l.parkIn == where && l.parkName == name
	if hit {
		l.parkIn = ""
	}
	l.mu.Unlock()
	if hit {
		close(l.entered)
		<-l.release
	}
}

func (l *c04ParkLoader) Abs(base, name string) string {
	l.park("abs", name)
	return name
}

func (l *c04ParkLoader) Get(p string) (io.Reader, error) {
	l.park("get", p)
	s, ok := l.files[p]
	if !ok {
		return nil, fmt.Errorf("c04ParkLoader: no template %q", p)
	}
	return strings.NewReader(s), nil
}

// c04OverlapInLoader: one compiled template with computed-name includes; an execution is parked INSIDE the loader
// (name resolution or fetch of its include) while another execution of the same template - with the same or another
// name - runs to its end. Every execution renders the files its own names say, during the overlap and afterwards.
func c04OverlapInLoader(c *C) {
	r := c.R
	l := &c04ParkLoader{files: map[string]string{
		"/main.tpl": "<{% include nm %}|{% include nm2 if_exists %}|{% for x in both %}{% include x %}{% endfor %}>",
		"/a.tpl":    "[A{{ s }}]", "/b.tpl": "[B{{ s }}]", "/c.tpl": "[C{{ s }}{% include \"/a.tpl\" %}]"}}
	set := pongo2.NewSet("c04-park", l)
	tpl, err := set.FromFile("/main.tpl")
	if err != nil {
		c.Fail("fresh-compile-failed", D{"error": err.Error()})
		return
	}
	names := []string{"/a.tpl", "/b.tpl", "/c.tpl"}
	body := func(n, s string) string {
		switch n {
		case "/a.tpl":
			return "[A" + s + "]"
		case "/b.tpl":
			return "[B" + s + "]"
		case "/c.tpl":
			return "[C" + s + "[A" + s + "]]"
		}
		return ""
	}
	type job struct{ nm, nm2, s string }
	mk := func(s string) job {
		j := job{nm: r.Pick(names), nm2: r.Pick(append([]string{"/none.tpl"}, names...)), s: s}
		return j
	}
	want := func(j job) string {
		return "<" + body(j.nm, j.s) + "|" + body(j.nm2, j.s) + "|" + body(j.nm, j.s) + body(j.nm2, j.s) + ">"
	}
	ctxOf := func(j job) pongo2.Context {
		both := []string{j.nm}
		if j.nm2 != "/none.tpl" {
			both = append(both, j.nm2)
		}
		return pongo2.Context{"nm": j.nm, "nm2": j.nm2, "s": j.s, "both": both}
	}
	var trace []string
	run := func(j job, label string) bool {
		out, xerr := c01Exec(tpl, ctxOf(j), r.Intn(4))
		c.Eval(1)
		trace = append(trace, fmt.Sprintf("%s: nm=%s nm2=%s -> %s %s", label, j.nm, j.nm2, q(out), errStr(xerr)))
		if xerr != nil || out != want(j) {
			c.Fail("history-dependent", D{"files": l.files, "history": trace, "output": q(out), "expected": q(want(j)), "error": errStr(xerr),
				"why": "computed-name includes render the files their names say in THIS execution, whatever other executions of the compiled template resolved before or are resolving right now"})
			return false
		}
		return true
	}
	for i := r.Intn(3); i > 0; i-- {
		if !run(mk("w"), "warm-up") {
			return
		}
	}
	for round := 0; round < 3; round++ {
		j1 := mk("1")
		l.mu.Lock()
		l.parkName, l.parkIn = j1.nm, r.Pick([]string{"abs", "get"})
		where := l.parkIn
		l.entered, l.release = make(chan struct{}), make(chan struct{})
		l.mu.Unlock()
		type res struct {
			out string
			err error
		}
		done := make(chan res, 1)
		go func() {
			out, xerr := tpl.Execute(ctxOf(j1))
			done <- res{out, xerr}
		}()
		select {
		case <-l.entered:
		case rs := <-done: // (cannot happen: the include of j1.nm goes through Abs and Get)
			c.Fail("history-dependent", D{"history": trace, "why": "the parked execution ended without reaching the loader", "output": q(rs.out), "error": errStr(rs.err)})
			return
		}
		trace = append(trace, fmt.Sprintf("execution with nm=%s parked inside loader.%s", j1.nm, where))
		for k := 1 + r.Intn(2); k > 0; k-- {
			j2 := mk("2")
			if r.Chance(40) {
				j2.nm = j1.nm
			}
			if !run(j2, "while parked") {
				close(l.release)
				<-done
				return
			}
		}
		close(l.release)
		rs := <-done
		c.Eval(1)
		trace = append(trace, fmt.Sprintf("parked execution released -> %s %s", q(rs.out), errStr(rs.err)))
		if rs.err != nil || rs.out != want(j1) {
			c.Fail("history-dependent", D{"files": l.files, "history": trace, "output": q(rs.out), "expected": q(want(j1)), "error": errStr(rs.err), "why": "the execution that was parked inside the loader"})
			return
		}
		for k := r.Intn(3); k > 0; k-- {
			if !run(mk("3"), "afterwards") {
				return
			}
		}
	}
	c.Cover("overlapping_executions_parked_in_loader")
	c.Nontrivial("parkloader:" + strings.Join(trace, ";"))
}

func c04Run(c *C) {
	if c.Idx%40 == 31 {
		c04OverlapInLoader(c)
		return
	}
	if c.Idx%40 == 11 {
		c04Overlap(c)
		return
	}
	r := c.R
	p := detProgram(r)
	opt := r.Intn(4)
	onSet := r.Bool()
	viaCache := r.Chance(25)
	used, _, err := detCompile(p, opt, onSet, viaCache)
	c.Eval(1)
	if err != nil {
		c.Cover("rejected")
		return
	}
	pool := detPool(p.inc, nil)
	n := 2 + r.Intn(7)
	if !c.Thorough() && n > 5 {
		n = 5
	}
	hist := make([]int, n)
	type keptResult struct {
		raw  []byte
		want string
		step int
	}
	var kept []keptResult
	var blockBase []string
	var trace []D
	okSeen, errSeen := false, false
	for i := range hist {
		hist[i] = r.Intn(len(pool))
		which := r.Intn(4)
		if which == 1 {
			// the bytes returned by ExecuteBytes belong to the caller: they are kept and inspected again at the end of the history
			if b, e := used.ExecuteBytes(pool[hist[i]]); e == nil {
				kept = append(kept, keptResult{raw: b, want: string(b), step: i})
			}
			c.Eval(1)
		}
		if r.Chance(15) {
			// a delivery that breaks down: the caller's writer fails (or accepts only a part) while the page is handed over
			fw := &recWriter{failAt: 1 + r.Intn(2), err: errors.New("c04: caller's writer is broken"), short: r.Intn(3)}
			if r.Bool() {
				used.ExecuteWriter(pool[r.Intn(len(pool))], fw)
			} else {
				used.ExecuteWriterUnbuffered(pool[r.Intn(len(pool))], fw)
			}
			c.Eval(1)
			trace = append(trace, D{"step": i, "extra": "an ExecuteWriter/ExecuteWriterUnbuffered call whose writer failed"})
		}
		if r.Chance(25) {
			// block by block: ExecuteBlocks with a list of names - real ones, unknown ones, names that are no identifiers (an
			// unsplit request parameter "a,b"), duplicates, the empty list - gives what a fresh compile gives for that list
			if blockBase == nil {
				// the names of this history: chosen once, then asked for in different shapes (so that a list and its joined
				// spelling, a list and its duplicate, meet on the same compiled template)
				var real []string
				for _, m := range reBlockName.FindAllStringSubmatch(p.main, -1) {
					real = append(real, m[1])
				}
				var fnames []string
				for fn := range p.files {
					fnames = append(fnames, fn)
				}
				sort.Strings(fnames)
				for _, fn := range fnames {
					for _, m := range reBlockName.FindAllStringSubmatch(p.files[fn], -1) {
						real = append(real, m[1])
					}
				}
				real = append(real, "nosuchblock")
				for k := 1 + r.Intn(3); k > 0; k-- {
					blockBase = append(blockBase, real[r.Intn(len(real))])
				}
			}
			names := append([]string(nil), blockBase...)
			switch r.Intn(6) {
			case 0:
				names = []string{strings.Join(names, ",")}
			case 1:
				names = append(names, strings.Join(names, ","), "")
			case 2:
				names = append(names, names...)
			case 3:
				names = names[:1]
			}
			bctx := pool[hist[i]]
			gotB, gotErr := used.ExecuteBlocks(bctx, append([]string(nil), names...))
			if freshB, _, fe := detCompile(p, opt, onSet, false); fe == nil {
				wantB, wantErr := freshB.ExecuteBlocks(bctx, append([]string(nil), names...))
				c.Eval(2)
				gs, ws := fmt.Sprint(gotB, errStr(gotErr)), fmt.Sprint(wantB, errStr(wantErr))
				trace = append(trace, D{"step": i, "extra": fmt.Sprintf("ExecuteBlocks(%q)", names), "used": q(truncStr(gs, 300)), "fresh": q(truncStr(ws, 300))})
				if gs != ws {
					c.Fail("history-dependent", D{"main": q(p.main), "files": p.files, "entry": "ExecuteBlocks", "names": names, "history": trace})
					return
				}
				c.Cover("history_with_execute_blocks")
			}
		}
		got, rawErr := detExecErr(used, pool[hist[i]], which)
		if rawErr != nil {
			if why := detErrorInSources(rawErr, p, nil); why != "" {
				c.Fail("error-position-not-in-own-sources", D{"main": q(p.main), "files": p.files, "error": rawErr.Error(), "why": why})
				return
			}
		}
		fresh, _, ferr := detCompile(p, opt, onSet, false)
		if ferr != nil {
			c.Fail("fresh-compile-failed", D{"main": q(p.main), "error": ferr.Error()})
			return
		}
		want := detExec(fresh, pool[hist[i]], which)
		c.Eval(2)
		trace = append(trace, D{"step": i, "context": hist[i], "entry": []string{"Execute", "ExecuteBytes", "ExecuteWriter", "ExecuteWriterUnbuffered"}[which], "used": D{"out": q(truncStr(got.out, 400)), "err": got.err}, "fresh": D{"out": q(truncStr(want.out, 400)), "err": want.err}})
		if got != want {
			c.Fail("history-dependent", D{"main": q(p.main), "files": p.files, "TrimBlocks": opt&1 == 1, "LStripBlocks": opt&2 == 2, "options_on_set": onSet, "via_cache": viaCache,
				"history": trace, "note": "contexts 0 and 4 are equal; 1 and 5 make d == 0 and maybe() fail; 3 is nil"})
			return
		}
		if got.err == "" {
			okSeen = true
		} else {
			errSeen = true
		}
	}
	for _, k := range kept {
		if string(k.raw) != k.want {
			c.Fail("returned-bytes-changed-later", D{"main": q(p.main), "files": p.files, "step": k.step, "bytes_when_returned": q(truncStr(k.want, 300)), "bytes_at_end_of_history": q(truncStr(string(k.raw), 300)), "history": trace})
			return
		}
	}
	c.Cover(fmt.Sprintf("history_len_%d", n))
	if okSeen && errSeen {
		c.Cover("history_mixes_success_and_failure")
	}
	if okSeen {
		c.Nontrivial(p.main)
		if c.WantSample() && len(p.main) < 300 && errSeen {
			c.Sample(D{"main": q(p.main), "history": trace})
		}
	}
}

func init() {
	_ = runtime.Gosched
	_ = time.Now
	_ = strings.Contains
	register(&Prop{
		ID:   "C04",
		Init: c01Init,
		Cases: func(tier string) int {
			if tier == "thorough" {
				return 400000
			}
			return 40000
		},
		Run: c04Run,
		Rule: "random deterministic programs over every tag (no now without fake, random, lorem random, unsorted map iteration; one with-pair / default per construct because several are evaluated in Go's map order), with loader files (static and lazy includes, imports, inheritance, macros) and a high share of stateful-looking constructs (cycle, ifchanged, TrimBlocks-sensitive text, macros with cycle, includes that fail after writing); " +
			"each is compiled once (FromFile or FromCache, options set on the set or on the template, all four TrimBlocks x LStripBlocks settings) and executed 2..8 times with contexts drawn with repetition from a pool of six (two equal, two failing, one nil) through alternating Execute entry points, with deliveries to a failing writer in between; after every execution the (output, error) pair is compared with that of a FRESH compile of the same sources executed exactly once with the same context. " +
			"distinct_nontrivial = distinct programs with at least one successful execution in their history.",
		MinNontriv:  1000,
		Assumptions: []string{"only the dynamic half of the property is decided (no static write-effect analysis)", "documented non-determinism (clock, randomness, Go map order) is not generated"},
	})
}
