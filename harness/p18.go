package main

import (
	"fmt"
	"math"
	"reflect"
	"strconv"
	"strings"
	"time"
	"unicode"

	"github.com/flosch/pongo2/v6"
)

// C18 - built-in data filters match their reference semantics (DESIGN.md appendix A).

type c18Case struct {
	filter string
	in     any
	param  any    // nil = no parameter
	want   string // expected printed form
	seq    bool   // compare fmt.Sprint(result.Interface()) instead of result.String()
	errOK  bool   // an error is the expected outcome
}

var c18Strings = []string{"", "a", "ab", "abc", "abcd", "abcde", "abcdef", "é", "aé", "aé日", "aé日😀", "aé日😀x", "aé日😀xß", "hello world", "Joel is a slug", "  two  words ", "a b c d e f g", "日本 語 テキスト", "x\ny\nz", "tab\tsep", "MiXeD cAsE", "0123456789ab", "über straße"}

func pySlice(n int, hasI bool, i int, hasJ bool, j int) (int, int) {
	lo, hi := 0, n
	if hasI {
		lo = i
		if lo < 0 {
			lo += n
			if lo < 0 {
				lo = 0
			}
		}
		if lo > n {
			lo = n
		}
	}
	if hasJ {
		hi = j
		if hi < 0 {
			hi += n
			if hi < 0 {
				hi = 0
			}
		}
		if hi > n {
			hi = n
		}
	}
	if hi < lo {
		hi = lo
	}
	return lo, hi
}

func c18SeqInputs() []any {
	var out []any
	for n := 0; n <= 6; n++ {
		out = append(out, "abcdef"[:n])
		out = append(out, string([]rune("aé日😀xß")[:n]))
		sl := make([]int, n)
		for k := range sl {
			sl[k] = 10 + k
		}
		out = append(out, sl)
		at := reflect.ArrayOf(n, reflect.TypeOf(0))
		av := reflect.New(at).Elem()
		for k := 0; k < n; k++ {
			av.Index(k).SetInt(int64(10 + k))
		}
		out = append(out, av.Interface()) // a non-addressable array value
		ss := make([]string, n)
		for k := range ss {
			ss[k] = string(rune('p' + k))
		}
		out = append(out, ss)
	}
	return out
}

// elements of a sequence input as printed forms
func c18Elems(in any) []string {
	if s, ok := in.(string); ok {
		var out []string
		for _, r := range s {
			out = append(out, string(r))
		}
		return out
	}
	rv := reflect.ValueOf(in)
	var out []string
	for i := 0; i < rv.Len(); i++ {
		out = append(out, fmt.Sprint(rv.Index(i).Interface()))
	}
	return out
}

func c18SprintSeq(in any, elems []string) string {
	if _, ok := in.(string); ok {
		return strings.Join(elems, "")
	}
	return "[" + strings.Join(elems, " ") + "]"
}

func spaces(n int) string { return strings.Repeat(" ", n) }

func runeLen(s string) int { return len([]rune(s)) }

func simpleCase(s string) bool {
	for _, r := range s {
		if r > 0x7f && !(r == 'é' || r == 'ü' || r == '日' || r == '本' || r == '語' || r == '😀') {
			return false
		}
	}
	return true
}

// c18Window enumerates the exhaustive windows; family selects a slice of the work.
func c18Window(family int, emit func(c18Case)) {
	seqs := c18SeqInputs()
	switch family {
	case 0: // slice
		for _, in := range seqs {
			elems := c18Elems(in)
			n := len(elems)
			for i := -9; i <= 8; i++ { // -9 = omitted
				for j := -9; j <= 8; j++ {
					p := ""
					if i > -9 {
						p += strconv.Itoa(i)
					}
					p += ":"
					if j > -9 {
						p += strconv.Itoa(j)
					}
					lo, hi := pySlice(n, i > -9, i, j > -9, j)
					_, isStr := in.(string)
					emit(c18Case{filter: "slice", in: in, param: p, want: c18SprintSeq(in, elems[lo:hi]), seq: !isStr})
				}
			}
		}
	case 1: // first last length length_is join make_list
		for _, in := range seqs {
			elems := c18Elems(in)
			n := len(elems)
			f, l := "", ""
			if n > 0 {
				f, l = elems[0], elems[n-1]
			}
			emit(c18Case{filter: "first", in: in, want: f})
			emit(c18Case{filter: "last", in: in, want: l})
			emit(c18Case{filter: "length", in: in, want: strconv.Itoa(n)})
			for k := 0; k <= 7; k++ {
				w := "False"
				if k == n {
					w = "True"
				}
				emit(c18Case{filter: "length_is", in: in, param: k, want: w})
			}
			for _, sep := range []string{"", ",", ", ", "é", "--"} {
				emit(c18Case{filter: "join", in: in, param: sep, want: strings.Join(elems, sep)})
			}
		}
		for _, s := range c18Strings {
			var chars []string
			for _, r := range s {
				chars = append(chars, string(r))
			}
			emit(c18Case{filter: "make_list", in: s, want: "[" + strings.Join(chars, " ") + "]", seq: true})
			emit(c18Case{filter: "length", in: s, want: strconv.Itoa(runeLen(s))})
			for _, sep := range []string{",", " ", "b", "é", "--"} {
				emit(c18Case{filter: "split", in: s, param: sep, want: fmt.Sprint(strings.Split(s, sep)), seq: true})
			}
			for _, x := range []string{"a", " ", "b", "é", "ab", "日"} {
				emit(c18Case{filter: "cut", in: s, param: x, want: strings.ReplaceAll(s, x, "")})
			}
		}
		emit(c18Case{filter: "make_list", in: 1234, want: "[1 2 3 4]", seq: true})
	case 2: // truncation and padding
		for _, s := range c18Strings {
			rs := []rune(s)
			for w := 0; w <= 20; w++ {
				if w >= 3 {
					want := s
					if len(rs) > w {
						want = string(rs[:w-3]) + "..."
					}
					emit(c18Case{filter: "truncatechars", in: s, param: w, want: want})
				}
				if w >= 1 {
					words := strings.Fields(s)
					want := strings.Join(words, " ")
					if len(words) > w {
						want = strings.Join(words[:w], " ") + " ..."
					}
					emit(c18Case{filter: "truncatewords", in: s, param: w, want: want})
				}
				pad := w - len(rs)
				if pad < 0 {
					pad = 0
				}
				emit(c18Case{filter: "ljust", in: s, param: w, want: s + spaces(pad)})
				emit(c18Case{filter: "rjust", in: s, param: w, want: spaces(pad) + s})
				emit(c18Case{filter: "center", in: s, param: w, want: fmt.Sprintf("CENTER:%d:%s", pad, s)})
				// wordwrap (pinned by TestIssue297: n words per line)
				words := strings.Fields(s)
				if w >= 1 {
					var lines []string
					for i := 0; i < len(words); i += w {
						e := i + w
						if e > len(words) {
							e = len(words)
						}
						lines = append(lines, strings.Join(words[i:e], " "))
					}
					emit(c18Case{filter: "wordwrap", in: s, param: w, want: strings.Join(lines, "\n")})
				} else {
					emit(c18Case{filter: "wordwrap", in: s, param: w, want: s})
				}
			}
			emit(c18Case{filter: "wordcount", in: s, want: strconv.Itoa(len(strings.Fields(s)))})
			lines := strings.Split(s, "\n")
			for i := range lines {
				lines[i] = fmt.Sprintf("%d. %s", i+1, lines[i])
			}
			emit(c18Case{filter: "linenumbers", in: s, want: strings.Join(lines, "\n")})
			emit(c18Case{filter: "linebreaksbr", in: s, want: strings.ReplaceAll(s, "\n", "<br />")})
			if simpleCase(s) {
				emit(c18Case{filter: "upper", in: s, want: strings.Map(unicode.ToUpper, s)})
				emit(c18Case{filter: "lower", in: s, want: strings.Map(unicode.ToLower, s)})
				if s != "" {
					r := []rune(s)
					emit(c18Case{filter: "capfirst", in: s, want: string(unicode.ToUpper(r[0])) + string(r[1:])})
				} else {
					emit(c18Case{filter: "capfirst", in: s, want: ""})
				}
			}
		}
	case 3: // numbers
		ints := []int{0, 1, 2, 5, 9, 10, 12, 99, 100, 123, 1000, 9876543210, -1, -7, -12}
		for _, a := range ints {
			for _, b := range ints {
				emit(c18Case{filter: "add", in: a, param: b, want: strconv.Itoa(a + b)})
				emit(c18Case{filter: "add", in: a, param: float64(b) + 0.5, want: fmt.Sprintf("%f", float64(a)+float64(b)+0.5)})
				if b != 0 {
					w := "False"
					if a%b == 0 {
						w = "True"
					}
					emit(c18Case{filter: "divisibleby", in: a, param: b, want: w})
				}
			}
			emit(c18Case{filter: "add", in: a, param: "test", want: strconv.Itoa(a) + "test"})
			emit(c18Case{filter: "add", in: "x", param: a, want: "x" + strconv.Itoa(a)})
			if a >= 0 {
				ds := strconv.Itoa(a)
				for k := 0; k <= 12; k++ {
					want := ds
					if k >= 1 && k <= len(ds) {
						want = string(ds[len(ds)-k])
					}
					emit(c18Case{filter: "get_digit", in: a, param: k, want: want})
				}
			}
			for _, p := range []any{nil, "es", "y,ies"} {
				want := ""
				switch p {
				case nil:
					if a != 1 {
						want = "s"
					}
				case "es":
					if a != 1 {
						want = "es"
					}
				case "y,ies":
					want = "y"
					if a != 1 {
						want = "ies"
					}
				}
				emit(c18Case{filter: "pluralize", in: a, param: p, want: want})
			}
			emit(c18Case{filter: "integer", in: a, want: strconv.Itoa(a)})
			emit(c18Case{filter: "integer", in: strconv.Itoa(a), want: strconv.Itoa(a)})
			emit(c18Case{filter: "float", in: a, want: fmt.Sprintf("%f", float64(a))})
			emit(c18Case{filter: "integer", in: float64(a) + 0.75, want: strconv.Itoa(int(float64(a) + 0.75))})
			emit(c18Case{filter: "float", in: strconv.Itoa(a) + ".5", want: fmt.Sprintf("%f", mustFloat(strconv.Itoa(a)+".5"))})
			emit(c18Case{filter: "stringformat", in: a, param: "%05d|", want: fmt.Sprintf("%05d|", a)})
			emit(c18Case{filter: "stringformat", in: float64(a) / 4, param: "%.2f", want: fmt.Sprintf("%.2f", float64(a)/4)})
		}
		emit(c18Case{filter: "integer", in: "nonsense", want: "0"})
		// numbers written as text are read as DECIMAL numbers, whatever zeros or signs they carry in front
		for _, zs := range []struct {
			s string
			n int
		}{{"010", 10}, {"012", 12}, {"007", 7}, {"08", 8}, {"0010", 10}, {"+5", 5}, {"-010", -10}, {"00", 0}, {"3.7", 3}, {"010.9", 10}} {
			emit(c18Case{filter: "integer", in: zs.s, want: strconv.Itoa(zs.n)})
			if zs.n >= 0 {
				txt := "abcdefghijklmnopqrstuvwxyz"
				if zs.n >= 3 && zs.n < len(txt) {
					emit(c18Case{filter: "truncatechars", in: txt, param: zs.s, want: txt[:zs.n-3] + "..."})
				}
				emit(c18Case{filter: "ljust", in: "ab", param: zs.s, want: "ab" + spaces(maxInt(0, zs.n-2))})
				emit(c18Case{filter: "rjust", in: "ab", param: zs.s, want: spaces(maxInt(0, zs.n-2)) + "ab"})
				emit(c18Case{filter: "length_is", in: strings.Repeat("x", zs.n), param: zs.s, want: "True"})
				if zs.n > 0 {
					emit(c18Case{filter: "divisibleby", in: zs.n * 3, param: zs.s, want: "True"})
					emit(c18Case{filter: "divisibleby", in: zs.n*3 + 1, param: zs.s, want: map[bool]string{true: "True", false: "False"}[zs.n == 1]})
				}
			}
		}
		emit(c18Case{filter: "slice", in: "abcdefghijklmnop", param: "01:012", want: "bcdefghijkl"})
		emit(c18Case{filter: "slice", in: "abcdefghijklmnop", param: "010:", want: "klmnop"})
		emit(c18Case{filter: "get_digit", in: 987654321, param: "02", want: "2"})
		emit(c18Case{filter: "get_digit", in: 987654321, param: "010", want: "987654321"})
		emit(c18Case{filter: "float", in: "nonsense", want: fmt.Sprintf("%f", 0.0)})
		emit(c18Case{filter: "stringformat", in: "str", param: "<%s>", want: "<str>"})
		// floatformat on dyadic rationals (exact in binary), ties skipped
		for n := -80; n <= 80; n++ {
			x := float64(n) / 16
			for _, d := range []any{nil, 0, 1, 2, 3, 4, 5, -1, -2, -3, -4} {
				dec := 1
				trim := true
				if d != nil {
					dec = d.(int)
					trim = dec <= 0
					if dec < 0 {
						dec = -dec
					}
				}
				// tie check: frac(n*10^dec/16) == 1/2
				pow := 1
				for k := 0; k < dec; k++ {
					pow *= 10
				}
				num := n * pow
				rem := ((num % 16) + 16) % 16
				if rem == 8 {
					continue
				}
				want := ""
				if trim && n%16 == 0 {
					want = strconv.Itoa(n / 16)
				} else {
					want = strconv.FormatFloat(math.Round(x*float64(pow))/float64(pow), 'f', dec, 64)
				}
				emit(c18Case{filter: "floatformat", in: x, param: d, want: want})
			}
		}
		// a NEGATIVE argument shows decimals only if there are any: whole numbers print as integers however large the count,
		// fractional ones are refused beyond the limit of 1000 decimals (and printed up to it)
		for _, whole := range []any{34.0, -2.0, 0.0, 7, int64(-12), 1e6} {
			w := pongo2.AsValue(whole).Integer()
			for _, d := range []any{-1000, -1001, -5000, -1 << 40, "-1001", "-99999"} {
				emit(c18Case{filter: "floatformat", in: whole, param: d, want: strconv.Itoa(w)})
			}
		}
		for _, d := range []any{-1001, 1001, -5000, "-1001", 99999} {
			emit(c18Case{filter: "floatformat", in: 2.5, param: d, errOK: true})
		}
		emit(c18Case{filter: "floatformat", in: 2.5, param: 1000, want: "2.5" + strings.Repeat("0", 999)})
		emit(c18Case{filter: "floatformat", in: 2.5, param: -1000, want: "2.5" + strings.Repeat("0", 999)})
	case 4: // yesno default default_if_none date
		type tv struct {
			v     any
			truth int // 0 true 1 false 2 nil
		}
		vals := []tv{{true, 0}, {false, 1}, {nil, 2}, {1, 0}, {0, 1}, {"x", 0}, {"", 1}, {[]int{1}, 0}, {[]int{}, 1}, {1.5, 0}, {0.0, 1}, {0.5, 0}, {-0.25, 0}, {float32(0.5), 0}, {1e-9, 0}, {uint8(0), 1}, {uint16(3), 0}, {int64(-1), 0}, {map[string]int{}, 1}, {map[string]int{"a": 1}, 0}}
		for _, t := range vals {
			emit(c18Case{filter: "yesno", in: t.v, want: []string{"yes", "no", "maybe"}[t.truth]})
			emit(c18Case{filter: "yesno", in: t.v, param: "ja,nein", want: []string{"ja", "nein", "maybe"}[t.truth]})
			emit(c18Case{filter: "yesno", in: t.v, param: "ja,nein,vielleicht", want: []string{"ja", "nein", "vielleicht"}[t.truth]})
			emit(c18Case{filter: "yesno", in: t.v, param: "only", errOK: true})
			emit(c18Case{filter: "yesno", in: t.v, param: "a,b,c,d", errOK: true})
			printed := pongo2.AsValue(t.v).String()
			_, isSeq := t.v.([]int)
			_, isMap := t.v.(map[string]int)
			if !isSeq && !isMap {
				w := printed
				if t.truth != 0 {
					w = "DEF"
				}
				emit(c18Case{filter: "default", in: t.v, param: "DEF", want: w})
				w = printed
				if t.truth == 2 {
					w = "DEF"
				}
				emit(c18Case{filter: "default_if_none", in: t.v, param: "DEF", want: w})
			}
		}
		tm := time.Date(2023, 2, 3, 4, 5, 6, 7000, time.UTC)
		for _, layout := range []string{"2006-01-02", "15:04:05", time.RFC1123, "Mon Jan _2", "02.01.2006 15h", ""} {
			emit(c18Case{filter: "date", in: tm, param: layout, want: tm.Format(layout)})
			emit(c18Case{filter: "time", in: tm, param: layout, want: tm.Format(layout)})
		}
		emit(c18Case{filter: "date", in: "not a time", param: "2006", errOK: true})
		emit(c18Case{filter: "pluralize", in: "str", errOK: true})
		emit(c18Case{filter: "center", in: "x", param: 1000000, errOK: true})
		emit(c18Case{filter: "ljust", in: "x", param: 1000000, errOK: true})
		emit(c18Case{filter: "rjust", in: "x", param: 1000000, errOK: true})
		emit(c18Case{filter: "floatformat", in: 1.5, param: 100000, errOK: true})
		emit(c18Case{filter: "slice", in: "abc", param: "1", errOK: true})
	}
}

func mustFloat(s string) float64 { f, _ := strconv.ParseFloat(s, 64); return f }

const c18Families = 5

func c18Check(c *C, k c18Case, viaTemplate bool) bool {
	var param *pongo2.Value
	if k.param != nil {
		param = pongo2.AsValue(k.param)
	}
	v, err := pongo2.ApplyFilter(k.filter, pongo2.AsValue(k.in), param)
	c.Eval(1)
	c.Cover("filter_" + k.filter)
	desc := func() D {
		return D{"filter": k.filter, "input": q(fmt.Sprintf("%#v", k.in)), "param": q(fmt.Sprintf("%#v", k.param)), "expected": q(k.want)}
	}
	if k.errOK {
		if err == nil {
			d := desc()
			d["why"] = "expected an error"
			d["output"] = q(v.String())
			c.Fail("reference-mismatch", d)
			return false
		}
		return true
	}
	if err != nil {
		d := desc()
		d["error"] = err.Error()
		c.Fail("reference-mismatch", d)
		return false
	}
	got := v.String()
	if k.seq {
		got = fmt.Sprint(v.Interface())
	}
	ok := got == k.want
	if strings.HasPrefix(k.want, "CENTER:") {
		// shape check: spaces only, total padding as expected, sides differ by at most one
		parts := strings.SplitN(k.want, ":", 3)
		pad, _ := strconv.Atoi(parts[1])
		s := parts[2]
		ok = false
		for l := 0; l <= pad; l++ {
			r := pad - l
			if l-r <= 1 && r-l <= 1 && got == spaces(l)+s+spaces(r) {
				ok = true
			}
		}
	}
	if !ok {
		d := desc()
		d["output"] = q(got)
		c.Fail("reference-mismatch", d)
		return false
	}
	if viaTemplate {
		src := "{% autoescape off %}{{ v|" + k.filter
		ctx := pongo2.Context{"v": k.in}
		if k.param != nil {
			src += ":p"
			ctx["p"] = k.param
		}
		src += " }}{% endautoescape %}"
		out, cerr, xerr := renderString(src, ctx)
		c.Eval(1)
		if cerr != nil || xerr != nil || out != v.String() {
			d := desc()
			d["template"] = src
			d["template_output"] = q(out)
			d["applyfilter_output"] = q(v.String())
			d["error"] = errStr(cerr) + errStr(xerr)
			c.Fail("routes-disagree", d)
			return false
		}
	}
	// the panicking twin of ApplyFilter gives the same value (its only difference is how an error is reported)
	if must, perr := func() (mv *pongo2.Value, perr any) {
		defer func() { perr = recover() }()
		return pongo2.MustApplyFilter(k.filter, pongo2.AsValue(k.in), param), nil
	}(); perr != nil || must == nil || must.String() != v.String() {
		d := desc()
		d["route"] = "MustApplyFilter"
		d["panic"] = fmt.Sprint(perr)
		if must != nil {
			d["output"] = q(must.String())
		}
		d["applyfilter_output"] = q(v.String())
		c.Fail("routes-disagree", d)
		return false
	}
	// a pointer to a number, string or bool is the value it points to - as filter input and as filter argument
	if pin, ok1 := c18Ptr(k.in); ok1 || k.param != nil {
		if k.filter == "stringformat" {
			ok1 = false // hands its input to fmt.Sprintf as it is: a pointer is formatted as a pointer by Go's verbs (not judged)
		}
		pparam, ok2 := c18Ptr(k.param)
		if ok1 || ok2 {
			if !ok1 {
				pin = k.in
			}
			var pp *pongo2.Value
			if k.param != nil {
				if ok2 {
					pp = pongo2.AsValue(pparam)
				} else {
					pp = param
				}
			}
			pv, perr := pongo2.ApplyFilter(k.filter, pongo2.AsValue(pin), pp)
			c.Eval(1)
			pgot := ""
			if perr == nil {
				pgot = pv.String()
				if k.seq {
					pgot = fmt.Sprint(pv.Interface())
				}
			}
			if perr != nil || pgot != got {
				d := desc()
				d["route"] = fmt.Sprintf("ApplyFilter with input of type %T and argument of type %T", pin, pparam)
				d["output"] = q(pgot)
				d["output_with_plain_values"] = q(got)
				if perr != nil {
					d["error"] = perr.Error()
				}
				c.Fail("routes-disagree", d)
				return false
			}
		}
	}
	if viaTemplate && k.param != nil && !k.seq {
		// a literal input with an argument taken from the context: the compiled template is first executed with ANOTHER
		// argument value, then with the real one
		lit := ""
		switch x := k.in.(type) {
		case string:
			if !strings.ContainsAny(x, "\"\\\n\r{}%") {
				lit = "\"" + x + "\""
			}
		case int:
			if x >= 0 {
				lit = strconv.Itoa(x)
			}
		}
		var alt any
		switch pv := k.param.(type) {
		case int:
			alt = pv + 3
		case string:
			alt = pv + "9"
		case float64:
			alt = pv + 1
		}
		if lit != "" && alt != nil {
			lset, _ := newSet(emptySetFiles)
			if ltpl, lerr := lset.FromString("{% autoescape off %}{{ " + lit + "|" + k.filter + ":p }}{% endautoescape %}"); lerr == nil {
				ltpl.Execute(pongo2.Context{"p": alt})
				lout, lxerr := ltpl.Execute(pongo2.Context{"p": k.param})
				c.Eval(2)
				if lxerr != nil || lout != v.String() {
					d := desc()
					d["template"] = "{{ " + lit + "|" + k.filter + ":p }} executed with p=" + fmt.Sprintf("%#v", alt) + " first, then with the parameter above"
					d["template_output"] = q(lout)
					d["applyfilter_output"] = q(v.String())
					d["error"] = errStr(lxerr)
					c.Fail("routes-disagree", d)
					return false
				}
			}
		}
	}
	if _, isStr := k.in.(string); isStr && !k.seq && (viaTemplate || k.param == nil) {
		// the filter tag, the filter standing behind another filter that has a parameter of its own
		// (default_if_none never fires on a rendered body): a filter written without a parameter gets none
		for _, noop := range []string{"7", "ja,nein,x"} {
			fsrc := "{% autoescape off %}{% filter default_if_none:noop|" + k.filter
			ctx := pongo2.Context{"v": k.in, "noop": noop}
			if k.param != nil {
				fsrc += ":p"
				ctx["p"] = k.param
			}
			fsrc += " %}{{ v }}{% endfilter %}{% endautoescape %}"
			fout, fcerr, fxerr := renderString(fsrc, ctx)
			c.Eval(1)
			if fcerr != nil || fxerr != nil || fout != v.String() {
				d := desc()
				d["template"] = fsrc
				d["noop"] = noop
				d["template_output"] = q(fout)
				d["applyfilter_output"] = q(v.String())
				d["error"] = errStr(fcerr) + errStr(fxerr)
				c.Fail("routes-disagree", d)
				return false
			}
		}
		// the filter's VALUE (a number, a bool, a list - not its printed form) is what the next filter of a filter-tag
		// chain receives
		for _, fo := range []struct {
			f string
			p any
		}{{"add", 1}, {"length", nil}, {"join", "-"}, {"first", nil}, {"last", nil}, {"yesno", "y,n"}, {"pluralize", nil}, {"default", "D"}, {"stringformat", "%v|%T"}, {"slice", ":2"}, {"divisibleby", 2}} {
			var fp *pongo2.Value
			fsrc := "{% autoescape off %}{% filter " + k.filter
			ctx := pongo2.Context{"v": k.in}
			if k.param != nil {
				fsrc += ":p"
				ctx["p"] = k.param
			}
			fsrc += "|" + fo.f
			if fo.p != nil {
				fp = pongo2.AsValue(fo.p)
				fsrc += ":fp"
				ctx["fp"] = fo.p
			}
			fsrc += " %}{{ v }}{% endfilter %}{% endautoescape %}"
			w, werr := pongo2.ApplyFilter(fo.f, v, fp)
			if werr != nil {
				continue
			}
			fout, fcerr, fxerr := renderString(fsrc, ctx)
			c.Eval(1)
			if fcerr != nil || fxerr != nil || fout != w.String() {
				d := desc()
				d["template"] = fsrc
				d["follow_up_filter"] = fo.f
				d["template_output"] = q(fout)
				d["applyfilter_composition_output"] = q(w.String())
				d["error"] = errStr(fcerr) + errStr(fxerr)
				c.Fail("routes-disagree", d)
				return false
			}
		}
	}
	return true
}

// c18Ptr returns a pointer to a copy of a scalar value.
func c18Ptr(x any) (any, bool) {
	switch t := x.(type) {
	case int:
		return &t, true
	case int64:
		return &t, true
	case uint8:
		return &t, true
	case float64:
		return &t, true
	case string:
		return &t, true
	case bool:
		return &t, true
	}
	return nil, false
}

func c18Plan(tier string) (random int) {
	if tier == "thorough" {
		return 20000
	}
	return 800
}

func c18RandWord(r *Rng) string {
	pool := []string{"a", "bc", "Def", "é", "日本", "😀", "ß", "x1", "42", "-", "_", "über", "WORD", "q"}
	n := 1 + r.Intn(3)
	s := ""
	for i := 0; i < n; i++ {
		s += pool[r.Intn(len(pool))]
	}
	return s
}

func c18RandText(r *Rng) string {
	n := r.Intn(9)
	var parts []string
	for i := 0; i < n; i++ {
		parts = append(parts, c18RandWord(r))
	}
	seps := []string{" ", "  ", "\n", "\t", " "}
	s := ""
	for i, p := range parts {
		if i > 0 {
			s += seps[r.Intn(len(seps))]
		}
		s += p
	}
	return s
}

func c18Run(c *C) {
	// cases 0..(families*16-1): windows, split 16 ways; then widthratio; then random
	nw := c18Families * 16
	if c.Idx < nw {
		fam, part := c.Idx/16, c.Idx%16
		i := 0
		stop := false
		c18Window(fam, func(k c18Case) {
			i++
			if stop || i%16 != part {
				return
			}
			if !c18Check(c, k, i%(16*8) == part) {
				stop = true
				return
			}
			c.Nontrivial(fmt.Sprintf("%s|%#v|%#v", k.filter, k.in, k.param))
			if c.WantSample() && i%977 == part {
				c.Sample(D{"filter": k.filter, "input": q(fmt.Sprintf("%#v", k.in)), "param": q(fmt.Sprintf("%#v", k.param)), "expected_and_observed": q(k.want)})
			}
		})
		return
	}
	if c.Idx == nw+1 {
		// case mapping over every code point of the BMP (and a few beyond) as the first character:
		// capfirst / upper / lower follow the simple (one rune to one rune) Unicode case mappings
		for cp := rune(1); cp <= 0x1FFFF; cp++ {
			if cp >= 0xD800 && cp <= 0xDFFF {
				continue
			}
			if cp > 0xFFFF && cp%7 != 0 && !(cp >= 0x10400 && cp <= 0x104FF) && !(cp >= 0x1E900 && cp <= 0x1E95F) {
				continue
			}
			in := string(cp) + "xY"
			for _, f := range []string{"capfirst", "upper", "lower"} {
				var want string
				switch f {
				case "capfirst":
					want = string(unicode.ToUpper(cp)) + "xY"
				case "upper":
					want = string(unicode.ToUpper(cp)) + "XY"
				default:
					want = string(unicode.ToLower(cp)) + "xy"
				}
				v, err := pongo2.ApplyFilter(f, pongo2.AsValue(in), nil)
				c.Eval(1)
				if err != nil || v.String() != want {
					got := ""
					if v != nil {
						got = v.String()
					}
					c.Fail("reference-mismatch", D{"filter": f, "input": q(in), "first_code_point": fmt.Sprintf("U+%04X", cp), "output": q(got), "expected": q(want)})
					return
				}
			}
		}
		c.Cover("case_mapping_all_first_code_points")
		c.Nontrivial("casemap")
		return
	}
	if c.Idx == nw {
		// widthratio window through the template tag
		set, _ := newSet(emptySetFiles)
		// (the value stored by `as` is the number: it adds, compares and pluralises like one)
		tpl, err := set.FromString("{% widthratio a b c %}|{% widthratio a b c as w %}{{ w }}|{{ w|add:1 }}|{{ w + 1 }}|{% if w == expect %}eq{% endif %}|{{ w|pluralize }}|{{ w|divisibleby:1 }}")
		if err != nil {
			c.Fail("setup", D{"error": err.Error()})
			return
		}
		for a := -20; a <= 20; a++ {
			for b := 1; b <= 20; b++ {
				for _, w := range []int{1, 3, 10, 100} {
					abs := a
					if abs < 0 {
						abs = -abs
					}
					twice := 2 * abs * w
					tie := twice%b == 0 && (twice/b)%2 == 1
					if tie && b&(b-1) != 0 {
						c.Unjudged() // a tie whose ratio is not exact in binary
						continue
					}
					want := (twice + b) / (2 * b) // round half away from zero
					if a < 0 {
						want = -want
					}
					out, xerr := tpl.Execute(pongo2.Context{"a": a, "b": b, "c": w, "expect": want})
					c.Eval(1)
					plural := "s"
					if want == 1 {
						plural = ""
					}
					exp := fmt.Sprintf("%d|%d|%d|%d|eq|%s|True", want, want, want+1, want+1, plural)
					if xerr != nil || out != exp {
						c.Fail("reference-mismatch", D{"tag": "widthratio", "a": a, "b": b, "c": w, "output": out, "expected": exp, "error": errStr(xerr)})
						return
					}
					c.Nontrivial(fmt.Sprintf("wr|%d|%d|%d", a, b, w))
				}
			}
		}
		// pinned fixture
		out, _, _ := renderString("{% widthratio 175 200 100 %}", nil)
		if out != "88" {
			c.Fail("reference-mismatch", D{"tag": "widthratio", "source": "{% widthratio 175 200 100 %}", "output": out, "expected": "88"})
		}
		c.Cover("tag_widthratio")
		return
	}
	// random inputs
	r := c.R
	if c.Idx < nw+2 {
		return
	}
	for n := 0; n < 50; n++ {
		s := c18RandText(r)
		rs := []rune(s)
		words := strings.Fields(s)
		w := r.Intn(40)
		var ks []c18Case
		lo, hi := pySlice(len(rs), true, r.Range(-30, 30), true, r.Range(-30, 30))
		_ = lo
		_ = hi
		i, j := r.Range(-30, 30), r.Range(-30, 30)
		lo, hi = pySlice(len(rs), true, i, true, j)
		ks = append(ks, c18Case{filter: "slice", in: s, param: fmt.Sprintf("%d:%d", i, j), want: string(rs[lo:hi])})
		ks = append(ks, c18Case{filter: "length", in: s, want: strconv.Itoa(len(rs))})
		ks = append(ks, c18Case{filter: "wordcount", in: s, want: strconv.Itoa(len(words))})
		pad := w - len(rs)
		if pad < 0 {
			pad = 0
		}
		ks = append(ks, c18Case{filter: "ljust", in: s, param: w, want: s + spaces(pad)})
		ks = append(ks, c18Case{filter: "rjust", in: s, param: w, want: spaces(pad) + s})
		ks = append(ks, c18Case{filter: "center", in: s, param: w, want: fmt.Sprintf("CENTER:%d:%s", pad, s)})
		if w >= 3 {
			want := s
			if len(rs) > w {
				want = string(rs[:w-3]) + "..."
			}
			ks = append(ks, c18Case{filter: "truncatechars", in: s, param: w, want: want})
		}
		if w >= 1 {
			want := strings.Join(words, " ")
			if len(words) > w {
				want = strings.Join(words[:w], " ") + " ..."
			}
			ks = append(ks, c18Case{filter: "truncatewords", in: s, param: w, want: want})
		}
		if len(rs) > 0 {
			ks = append(ks, c18Case{filter: "first", in: s, want: string(rs[0])})
			ks = append(ks, c18Case{filter: "last", in: s, want: string(rs[len(rs)-1])})
		}
		x := c18RandWord(r)
		ks = append(ks, c18Case{filter: "cut", in: s, param: x, want: strings.ReplaceAll(s, x, "")})
		ks = append(ks, c18Case{filter: "split", in: s, param: x, want: fmt.Sprint(strings.Split(s, x)), seq: true})
		ks = append(ks, c18Case{filter: "linebreaksbr", in: s, want: strings.ReplaceAll(s, "\n", "<br />")})
		// numbers
		a, b := r.Range(-100000, 100000), r.Range(-1000, 1000)
		ks = append(ks, c18Case{filter: "add", in: a, param: b, want: strconv.Itoa(a + b)})
		if b != 0 {
			wv := "False"
			if a%b == 0 {
				wv = "True"
			}
			ks = append(ks, c18Case{filter: "divisibleby", in: a, param: b, want: wv})
		}
		if a >= 0 {
			ds := strconv.Itoa(a)
			k := r.Intn(9)
			want := ds
			if k >= 1 && k <= len(ds) {
				want = string(ds[len(ds)-k])
			}
			ks = append(ks, c18Case{filter: "get_digit", in: a, param: k, want: want})
		}
		// sequences
		nseq := r.Intn(9)
		sl := make([]int, nseq)
		var el []string
		for q := range sl {
			sl[q] = r.Range(-50, 50)
			el = append(el, strconv.Itoa(sl[q]))
		}
		i, j = r.Range(-12, 12), r.Range(-12, 12)
		lo, hi = pySlice(nseq, true, i, true, j)
		ks = append(ks, c18Case{filter: "slice", in: sl, param: fmt.Sprintf("%d:%d", i, j), want: "[" + strings.Join(el[lo:hi], " ") + "]", seq: true})
		ks = append(ks, c18Case{filter: "join", in: sl, param: x, want: strings.Join(el, x)})
		ks = append(ks, c18Case{filter: "length", in: sl, want: strconv.Itoa(nseq)})
		for qi, k := range ks {
			if !c18Check(c, k, qi%5 == n%5) {
				return
			}
			c.Nontrivial(fmt.Sprintf("%s|%#v|%#v", k.filter, k.in, k.param))
		}
	}
	c.Cover("random_batches")
}

func init() {
	register(&Prop{
		ID: "C18",
		Cases: func(tier string) int {
			return c18Families*16 + 2 + c18Plan(tier)
		},
		Run: c18Run,
		Rule: "exhaustive integer windows (slice bounds -8..8 and omitted, squared, over strings incl. multi-byte, []int, [N]int array values and []string of length 0..6; widths 0..20 over 23 strings for truncatechars/truncatewords/ljust/rjust/center/wordwrap; get_digit 0..12; " +
			"add/divisibleby/pluralize/integer/float/stringformat over 15 integers squared; floatformat for n/16, n in -80..80, with arguments none,0..5,-1..-4, ties skipped; yesno/default/default_if_none over 13 truthiness cases; date/time layouts; documented error cases; widthratio a -20..20, b 1..20, c in {1,3,10,100}) " +
			"plus random texts/numbers/sequences; each application is compared with an independent reference function, a sample also through {{ v|f:p }}. distinct_nontrivial = distinct (filter, input, parameter) triples judged.",
		MinNontriv:  5000,
		Assumptions: []string{"reference definitions and judged domains: DESIGN.md appendix A", "widthratio ties whose ratio is not exactly representable in binary are unjudged"},
	})
}
