package main

import (
	"errors"
	"fmt"
	"strings"
	"sync"
	"time"

	"github.com/flosch/pongo2/v6"
)

// C19 - filters are applied in written order, everywhere filters can be written.

type c19Event struct{ name, in, param string }

var c19Log []c19Event
var c19Mu sync.Mutex
var c19Probes = []string{"vprobe_a", "vprobe_b", "vprobe_c", "vprobe_d"}

func c19ProbeFn(name string) pongo2.FilterFunction {
	short := strings.TrimPrefix(name, "vprobe_")
	return func(in *pongo2.Value, param *pongo2.Value) (*pongo2.Value, *pongo2.Error) {
		c19Mu.Lock()
		c19Log = append(c19Log, c19Event{name, in.String(), param.String()})
		c19Mu.Unlock()
		// deterministic, non-commutative
		return pongo2.AsValue(short + "(" + in.String() + ":" + param.String() + ")"), nil
	}
}

var c19Builtins []string

// A third-party tag that takes one expression (parsed with the public Parser.ParseExpression) and renders it - through
// the evaluator's Execute (mode 0) or through Evaluate + String (mode 1). Filters written in its argument apply like
// anywhere else.
type c19EmitNode struct {
	expr pongo2.IEvaluator
	mode int
}

func (n *c19EmitNode) Execute(ctx *pongo2.ExecutionContext, w pongo2.TemplateWriter) *pongo2.Error {
	if n.mode == 0 {
		return n.expr.Execute(ctx, w)
	}
	v, err := n.expr.Evaluate(ctx)
	if err != nil {
		return err
	}
	w.WriteString(v.String())
	return nil
}

func c19EmitParser(mode int) pongo2.TagParser {
	return func(doc *pongo2.Parser, start *pongo2.Token, arguments *pongo2.Parser) (pongo2.INodeTag, *pongo2.Error) {
		expr, err := arguments.ParseExpression()
		if err != nil {
			return nil, err
		}
		if arguments.Remaining() > 0 {
			return nil, arguments.Error("vprobe_emit takes one expression", nil)
		}
		return &c19EmitNode{expr: expr, mode: mode}, nil
	}
}

func c19Init() {
	c01Init()
	pongo2.RegisterTag("vprobe_emit", c19EmitParser(0))
	pongo2.RegisterTag("vprobe_eval", c19EmitParser(1))
	for _, p := range c19Probes {
		if !pongo2.FilterExists(p) {
			pongo2.RegisterFilter(p, c19ProbeFn(p))
		}
	}
	for _, f := range pongo2.VerifRegisteredFilters() {
		if f == "random" || strings.HasPrefix(f, "vprobe_") {
			continue
		}
		c19Builtins = append(c19Builtins, f)
	}
}

type c19Filter struct {
	name     string
	hasParam bool
	paramSrc string // source of the parameter: literal or variable name
	paramVal any
}

type c19Chain struct {
	baseSrc string
	baseVal any
	filters []c19Filter
}

func (ch c19Chain) src() string {
	s := ch.baseSrc
	for _, f := range ch.filters {
		s += "|" + f.name
		if f.hasParam {
			s += ":" + f.paramSrc
		}
	}
	return s
}

// compose applies the chain through the public ApplyFilter.
func (ch c19Chain) compose() (*pongo2.Value, error) {
	v := pongo2.AsValue(ch.baseVal)
	for _, f := range ch.filters {
		var p *pongo2.Value
		if f.hasParam {
			p = pongo2.AsValue(f.paramVal)
		}
		nv, err := pongo2.ApplyFilter(f.name, v, p)
		if err != nil {
			return nil, err
		}
		v = nv
	}
	return v, nil
}

func c19Ctx() pongo2.Context {
	return pongo2.Context{
		"sv": "ctx<string>", "iv": 7, "fv": 2.5, "lv": []string{"x", "y", "z"}, "nv": nil, "tv": time.Date(2024, 5, 6, 7, 8, 9, 0, time.UTC),
		"p": "outer", "q": 3, "mp": map[string]string{"k": "mv", "a(x:)": "subscripted"}, "st": struct{ Name string }{"field"},
		"ident":  func(v *pongo2.Value) *pongo2.Value { return v },
		"lst":    []string{"l0", "l1", "l2", "l3"},
		"failfn": func() (string, error) { return "", errors.New("c19: deliberate failure") },
	}
}

func c19RandParam(r *Rng) (string, any) {
	switch r.Intn(11) {
	// parameters that contain a filtered expression of their own (in a subscript, in a call argument)
	case 7:
		return "lst[q|add:0]", "l3"
	case 8:
		return "lst[1|add:1]", "l2"
	case 9:
		return "ident(p|upper|lower|upper)", "OUTER"
	case 10:
		return "ident(q|add:1)", 4
	case 0:
		return "\"lit\"", "lit"
	case 1:
		return "2", 2
	case 2:
		return "p", "outer"
	case 3:
		return "q", 3
	case 4:
		return "st.Name", "field"
	case 5:
		return "\"a,b\"", "a,b"
	default:
		return "\"1:2\"", "1:2"
	}
}

func c19RandBase(r *Rng) (string, any) {
	switch r.Intn(11) {
	case 8:
		return "nv", nil // a context key bound to nil
	case 9:
		return "undefinedname", nil
	case 10:
		return "\"\"", ""
	case 0:
		return "\"lit text\"", "lit text"
	case 1:
		return "sv", "ctx<string>"
	case 2:
		return "iv", 7
	case 3:
		return "42", 42
	case 4:
		return "lv", []string{"x", "y", "z"}
	case 5:
		return "st.Name", "field"
	case 6:
		return "fv", 2.5
	default:
		return "mp.k", "mv"
	}
}

func c19RandChain(r *Rng, probesOnly bool, maxLen int) c19Chain {
	ch := c19Chain{}
	ch.baseSrc, ch.baseVal = c19RandBase(r)
	if probesOnly {
		ch.baseSrc, ch.baseVal = r.Pick([]string{"\"x\"", "sv", "st.Name"}), nil
		ch.baseVal = map[string]any{"\"x\"": "x", "sv": "ctx<string>", "st.Name": "field"}[ch.baseSrc]
	}
	n := r.Intn(maxLen + 1)
	for i := 0; i < n; i++ {
		f := c19Filter{}
		if probesOnly || r.Chance(30) {
			f.name = r.Pick(c19Probes)
		} else if (ch.baseVal == nil || ch.baseVal == "") && r.Bool() {
			// empty and nil values: filters that pass them through and filters that react to them
			f.name = r.Pick([]string{"safe", "default", "default_if_none", "length", "yesno", "join", "first", "last", "escape", "upper", "title", "striptags", "slice", "wordcount"})
		} else {
			f.name = r.Pick(c19Builtins)
		}
		_, needs := genParamFilters[f.name]
		if needs || r.Chance(45) || strings.HasPrefix(f.name, "vprobe_") && r.Bool() {
			f.hasParam = true
			f.paramSrc, f.paramVal = c19RandParam(r)
		}
		ch.filters = append(ch.filters, f)
	}
	return ch
}

type c19Position struct {
	name  string
	files func(e string) map[string]string // main template for expression source e
	// expect computes the expected output from the composed value (autoescape is off everywhere)
	expect  func(v *pongo2.Value) string
	numeric bool
}

func c19Print(v *pongo2.Value) string { return v.String() }

var c19Positions = []c19Position{
	{"output", func(e string) map[string]string { return map[string]string{"/main.tpl": "{{ " + e + " }}"} }, c19Print, false},
	{"if", func(e string) map[string]string {
		return map[string]string{"/main.tpl": "{% if " + e + " %}T{% else %}F{% endif %}{% if false %}x{% elif " + e + " %}T{% else %}F{% endif %}"}
	}, func(v *pongo2.Value) string {
		if v.IsTrue() {
			return "TT"
		}
		return "FF"
	}, false},
	{"for", func(e string) map[string]string {
		return map[string]string{"/main.tpl": "{% for i in " + e + " %}[{{ i }}]{% endfor %}"}
	}, func(v *pongo2.Value) string {
		var sb strings.Builder
		v.Iterate(func(idx, count int, key, value *pongo2.Value) bool {
			sb.WriteString("[" + key.String() + "]")
			return true
		}, func() {})
		return sb.String()
	}, false},
	{"with", func(e string) map[string]string {
		return map[string]string{"/main.tpl": "{% with w=" + e + " %}{{ w }}{% endwith %}"}
	}, c19Print, false},
	{"with-as", func(e string) map[string]string {
		return map[string]string{"/main.tpl": "{% with " + e + " as w %}{{ w }}{% endwith %}"}
	}, c19Print, false},
	{"set", func(e string) map[string]string {
		return map[string]string{"/main.tpl": "{% set w = " + e + " %}{{ w }}"}
	}, c19Print, false},
	{"include-with", func(e string) map[string]string {
		return map[string]string{"/main.tpl": "{% include \"/p.tpl\" with w=" + e + " %}", "/p.tpl": "{% autoescape off %}{{ w }}{% endautoescape %}"}
	}, c19Print, false},
	{"macro-arg", func(e string) map[string]string {
		return map[string]string{"/main.tpl": "{% macro m(a) %}{{ a }}{% endmacro %}{{ m(" + e + ") }}"}
	}, c19Print, false},
	{"macro-default", func(e string) map[string]string {
		return map[string]string{"/main.tpl": "{% macro m(a=" + e + ") %}{{ a }}{% endmacro %}{{ m() }}"}
	}, c19Print, false},
	{"call-arg", func(e string) map[string]string { return map[string]string{"/main.tpl": "{{ ident(" + e + ") }}"} }, c19Print, false},
	{"firstof", func(e string) map[string]string {
		return map[string]string{"/main.tpl": "{% firstof " + e + " \"fallback\" %}"}
	}, func(v *pongo2.Value) string {
		if v.IsTrue() {
			return v.String()
		}
		return "fallback"
	}, false},
	{"ifequal", func(e string) map[string]string {
		return map[string]string{"/main.tpl": "{% ifequal " + e + " " + e + " %}E{% else %}N{% endifequal %}"}
	}, nil, false},
	{"filter-param", func(e string) map[string]string {
		return map[string]string{"/main.tpl": "{% with w=" + e + " %}{{ \"base\"|vprobe_d:w }}{% endwith %}"}
	}, func(v *pongo2.Value) string { return "d(base:" + v.String() + ")" }, false},
	{"array-item", func(e string) map[string]string {
		return map[string]string{"/main.tpl": "{% for i in [" + e + "] %}{{ i }}{% endfor %}"}
	}, c19Print, false},
	{"array-item-first", func(e string) map[string]string {
		return map[string]string{"/main.tpl": "{{ [\"z\", " + e + "]|last }}"}
	}, c19Print, false},
	{"subscript", func(e string) map[string]string { return map[string]string{"/main.tpl": "{{ mp[" + e + "] }}"} }, nil, false},
	{"custom-tag-argument-Execute", func(e string) map[string]string { return map[string]string{"/main.tpl": "{% vprobe_emit " + e + " %}"} }, c19Print, false},
	{"custom-tag-argument-Evaluate", func(e string) map[string]string { return map[string]string{"/main.tpl": "{% vprobe_eval " + e + " %}"} }, c19Print, false},
}

func c19RunChain(c *C, ch c19Chain, pos c19Position, probesOnly bool) bool {
	e := ch.src()
	files := pos.files(e)
	timesWritten := strings.Count(files["/main.tpl"], e)
	// (other filtered expressions were parsed before this one by the same parser: they render nothing)
	files["/main.tpl"] = "{% autoescape off %}{% if \"warm\"|upper|lower|title|length > 99 %}x{% endif %}{% if sv|lower|upper|length == 0 %}y{% endif %}" + files["/main.tpl"] + "{% endautoescape %}"
	set, _ := newSet(files)
	tpl, cerr := set.FromFile("/main.tpl")
	c.Eval(1)
	d := D{"position": pos.name, "expression": e, "files": files}
	if cerr != nil {
		d["error"] = cerr.Error()
		c.Fail("compile-error", d)
		return false
	}
	// expected through ApplyFilter (the probes log there as well: reset afterwards)
	c19Mu.Lock()
	c19Log = nil
	c19Mu.Unlock()
	want, werr := ch.compose()
	c19Mu.Lock()
	wantLog := append([]c19Event{}, c19Log...)
	c19Log = nil
	c19Mu.Unlock()
	out, xerr := execSpread(tpl, c19Ctx(), hashStr(e))
	c.Eval(1)
	c19Mu.Lock()
	gotLog := append([]c19Event{}, c19Log...)
	c19Mu.Unlock()
	d["output"] = q(out)
	d["exec_err"] = errStr(xerr)
	if (werr != nil) != (xerr != nil) {
		d["applyfilter_error"] = errStr(werr)
		c.Fail("routes-disagree-on-error", d)
		return false
	}
	if werr != nil {
		c.Cover("chain_error_on_both_routes")
		return true
	}
	if pos.expect != nil {
		if exp := pos.expect(want); out != exp {
			d["expected_from_ApplyFilter_composition"] = q(exp)
			c.Fail("chain-result-differs", d)
			return false
		}
	}
	if probesOnly {
		// every probe exactly once (twice where the position writes the expression twice), in order, with the right input and parameter
		times := timesWritten
		if pos.name == "filter-param" {
			wantLog = append(wantLog, c19Event{"vprobe_d", "base", want.String()})
		}
		var expLog []c19Event
		for t := 0; t < times; t++ {
			expLog = append(expLog, wantLog...)
		}
		if pos.name == "if" && want.IsTrue() {
			// the elif arm after a false `if`: evaluated once more; the first if is taken, so only two evaluations happen when written twice
			expLog = append(append([]c19Event{}, wantLog...), wantLog...)
		}
		if fmt.Sprint(gotLog) != fmt.Sprint(expLog) {
			d["probe_log"] = fmt.Sprint(gotLog)
			d["expected_log"] = fmt.Sprint(expLog)
			c.Fail("application-order", d)
			return false
		}
	}
	return true
}

func c19Fixed(c *C) {
	ctx := c19Ctx()
	cases := []struct{ src, want string }{
		{"{{ \"a\"|add:1 + 2 }}", "a12"}, {"{{ 1 + 2|add:3 }}", "6"}, {"{{ -5|add:3 }}", "-8"}, {"{{ -iv|add:3 }}", "-10"}, {"{{ 10 - 2|add:3 }}", "5"},
		{"{{ 2 * 3|add:1 }}", "8"}, {"{{ 2|add:1 * 3 }}", "9"}, {"{{ 2 ^ 3|add:1 }}", "16.000000"}, {"{{ 8|add:1 > 8 }}", "True"}, {"{{ not \"\"|add:\"x\" }}", "False"},
		{"{{ \"x\"|vprobe_a + \"y\"|vprobe_b }}", "a(x:)b(y:)"}, {"{{ \"x\"|vprobe_a:\"1\"|vprobe_b:\"2\" }}", "b(a(x:1):2)"}, {"{{ \"x\"|vprobe_b:\"2\"|vprobe_a:\"1\" }}", "a(b(x:2):1)"},
		{"{% filter vprobe_a:\"1\"|vprobe_b:\"2\" %}body{{ sv }}{% endfilter %}", "b(a(bodyctx<string>:1):2)"},
		{"{% filter vprobe_b|vprobe_a %}{% filter vprobe_c %}in{% endfilter %}{% endfilter %}", "a(b(c(in:):):)"},
		{"{% with p=\"inner\" %}{{ \"x\"|vprobe_a:p }}{% endwith %}{{ \"x\"|vprobe_a:p }}", "a(x:inner)a(x:outer)"},
		{"{% for p in lv %}{{ \"n=\"|vprobe_a:p|vprobe_b:\";\" }}{% endfor %}", "b(a(n=:x):;)b(a(n=:y):;)b(a(n=:z):;)"},
		{"{% for x in lv %}{{ \"n\"|add:x|add:\";\" }}{% endfor %}", "nx;ny;nz;"},
		{"{% macro m(a) %}{{ \"k\"|vprobe_a:a|vprobe_b:\"!\" }}{% endmacro %}{{ m(1) }}{{ m(2) }}", "b(a(k:1):!)b(a(k:2):!)"},
		{"{{ mp[\"x\"|vprobe_a] }}", "subscripted"}, {"{{ lst[1|add:1] }}", "l2"}, {"{{ lst[q]|vprobe_a }}", "a(l3:)"},
		// constructs re-entered while an outer activation is still open (recursive macros): every activation has its own chain
		{"{% macro walk(n) %}{% filter vprobe_a:n|vprobe_b %}<{{ n }}{% if n > 0 %}{{ walk(n - 1) }}{% endif %}>{% endfilter %}{% endmacro %}{{ walk(2) }}",
			"b(a(<2b(a(<1b(a(<0>:0):)>:1):)>:2):)"},
		{"{% macro w2(n) %}{{ \"v\"|vprobe_a:n|vprobe_b }}{% if n > 0 %}[{{ w2(n - 1) }}]{% endif %}{{ \"w\"|vprobe_c:n }}{% endmacro %}{{ w2(1) }}",
			"b(a(v:1):)[b(a(v:0):)c(w:0)]c(w:1)"},
		{"{% macro w3(n) %}{% filter vprobe_a:n %}{% for i in lv %}{% if n > 0 and forloop.First %}{{ w3(n - 1) }}{% endif %}{{ i }}{% endfor %}{% endfilter %}{% endmacro %}{{ w3(1) }}",
			"a(a(xyz:0)xyz:1)"},
		{"-{{ -5|add:2 }}|{{ -2.5|add:1 }}|{{ 0 - 5|add:2 }}|{% if -5|add:2 == -7 %}y{% endif %}|{{ -lst|length }}", "--7|-3.500000|-7|y|-4"},
		// parameters written as list literals: their items are expressions of the current scope like any other argument
		{"{% for x in lv %}{{ \"\"|default:[x, \"k\"]|join:\"-\" }};{% endfor %}", "x-k;y-k;z-k;"},
		{"{% macro lm(a) %}{{ nv|default_if_none:[a, p|upper, a + 1]|join:\"+\" }}{% endmacro %}{{ lm(1) }}|{{ lm(5) }}", "1+OUTER+2|5+OUTER+6"},
		{"{% for x in lv %}{% with p=x %}{{ \"\"|default:[p, 1]|join:\"\" }}{% endwith %}{% endfor %}", "x1y1z1"},
		{"{% for x in lv %}{{ [x, \"lit\"]|join:\"\" }}{{ \"\"|default:[x]|first|vprobe_a:x }}{% endfor %}", "xlita(x:x)ylita(y:y)zlita(z:z)"},
		// the filter tag applies its chain to the RENDERED body: its arguments are evaluated when the filters are applied,
		// in the scope as the body left it (the body shares the tag's scope)
		{"{% filter default:fallback %}{% set fallback = \"none\" %}{% endfilter %}", "none"},
		{"{% set w = \"old\" %}{% filter vprobe_a:w %}{% set w = \"new\" %}body{% endfilter %}{{ w }}", "a(body:new)new"},
		{"{% widthratio 1|add:1 4 100|add:100 %}", "100"}, {"{{ 5|vprobe_a|length }}", "5"}, {"{{ sv|length|vprobe_a }}", "a(11:)"},
	}
	for _, k := range cases {
		out, cerr, xerr := renderString("{% autoescape off %}"+k.src+"{% endautoescape %}", ctx)
		c.Eval(1)
		if cerr != nil || xerr != nil || out != k.want {
			c.Fail("precedence-or-scope", D{"source": k.src, "output": q(out), "expected": q(k.want), "error": errStr(cerr) + errStr(xerr)})
			return
		}
		c.Nontrivial("fixed:" + k.src)
	}
	// twice on one compiled template with different contexts (a remembered parameter would show)
	set, _ := newSet(emptySetFiles)
	tpl, err := set.FromString("{% autoescape off %}{{ \"n=\"|vprobe_a:p|vprobe_b:\";\" }}{{ \"m\"|add:p|add:\"!\" }}{{ \"\"|default:[p, \"x\"]|join:\"-\" }}{% endautoescape %}")
	if err == nil {
		o1, _ := tpl.Execute(pongo2.Context{"p": "one"})
		o2, _ := tpl.Execute(pongo2.Context{"p": "two"})
		if o1 != "b(a(n=:one):;)mone!one-x" || o2 != "b(a(n=:two):;)mtwo!two-x" {
			c.Fail("precedence-or-scope", D{"source": "literal base, variable parameter, literal parameter; two executions", "first": o1, "second": o2})
			return
		}
	}
	if !c19DeepParams(c) {
		return
	}
	// an argument that cannot be evaluated fails the execution - in {{ }} chains and in the filter tag, first or later
	// filter of the chain, with autoescape on and off
	for _, inner := range []string{
		"{% filter add:failfn() %}b{% endfilter %}", "{% filter vprobe_a:iv.nosuch.deeper %}b{% endfilter %}", "{% filter lower|vprobe_b:failfn()|upper %}b{% endfilter %}",
		"{% filter vprobe_a:\"lit\"|vprobe_b:failfn() %}b{% endfilter %}", "{% macro fm() %}{{ failfn() }}{% endmacro %}{% filter add:fm() %}b{% endfilter %}", "{% filter default:lst[failfn()] %}{% endfilter %}",
		"{{ \"b\"|add:failfn() }}", "{{ \"b\"|vprobe_a:iv.nosuch.deeper }}", "{% with w=\"b\"|vprobe_a:failfn() %}x{% endwith %}", "{% filter vprobe_a:(failfn()) %}b{% endfilter %}",
	} {
		for _, wrap := range []string{"%s", "{%% autoescape off %%}%s{%% endautoescape %%}", "{%% autoescape on %%}%s{%% endautoescape %%}"} {
			src := fmt.Sprintf(wrap, inner)
			out, cerr, xerr := renderString(src, ctx)
			c.Eval(1)
			if cerr != nil {
				continue // (a form that is not valid syntax proves nothing)
			}
			if xerr == nil {
				c.Fail("routes-disagree-on-error", D{"source": src, "output": q(out), "why": "the argument of the filter cannot be evaluated (failing function / field of a number): ApplyFilter could not even be called, the execution must fail"})
				return
			}
		}
	}
	// unregistered names never render silently
	for _, src := range []string{"{{ sv|nosuchfilter }}", "{{ sv|upper|nosuchfilter:1 }}", "{% if sv|nosuchfilter %}x{% endif %}", "{% for i in lv|nosuchfilter %}x{% endfor %}", "{% with w=sv|nosuchfilter %}x{% endwith %}",
		"{% set w = sv|nosuchfilter %}", "{{ ident(sv|nosuchfilter) }}", "{{ mp[sv|nosuchfilter] }}", "{% macro m(a=sv|nosuchfilter) %}{% endmacro %}", "{% firstof sv|nosuchfilter %}", "{% nosuchtag %}", "{% if 1 %}{% nosuchtag %}{% endif %}",
		"{% include \"/p.tpl\" with w=sv|nosuchfilter %}", "{{ \"x\"|vprobe_a:sv|nosuchfilter }}", "{% widthratio 1|nosuchfilter 2 3 %}", "{% ifequal 1|nosuchfilter 2 %}{% endifequal %}", "{% cycle 1|nosuchfilter %}", "{% ifchanged 1|nosuchfilter %}{% endifchanged %}"} {
		set, _ := newSet(map[string]string{"/p.tpl": "p"})
		_, err := set.FromString(src)
		c.Eval(1)
		if err == nil {
			c.Fail("unregistered-name-accepted", D{"source": src})
			return
		}
	}
	for _, src := range []string{"{% filter nosuchfilter %}x{% endfilter %}", "{% filter upper|nosuchfilter %}x{% endfilter %}"} {
		out, cerr, xerr := renderString(src, ctx)
		if cerr == nil && xerr == nil {
			c.Fail("unregistered-name-accepted", D{"source": src, "output": out})
			return
		}
	}
	// registering twice is refused and leaves the registered implementation in place
	if err := pongo2.RegisterFilter("vprobe_a", func(in, p *pongo2.Value) (*pongo2.Value, *pongo2.Error) { return pongo2.AsValue("OVERWRITTEN"), nil }); err == nil {
		c.Fail("double-registration-accepted", D{"what": "RegisterFilter(vprobe_a) a second time returned nil"})
		return
	}
	if err := pongo2.RegisterFilter("upper", nil); err == nil {
		c.Fail("double-registration-accepted", D{"what": "RegisterFilter(upper) returned nil"})
		return
	}
	if err := pongo2.RegisterTag("for", nil); err == nil {
		c.Fail("double-registration-accepted", D{"what": "RegisterTag(for) returned nil"})
		return
	}
	if out, _, _ := renderString("{{ \"x\"|vprobe_a }}{{ \"x\"|upper }}{% for i in lv %}{{ i }}{% endfor %}", ctx); out != "a(x:)Xxyz" {
		c.Fail("double-registration-changed-behaviour", D{"output": out})
		return
	}
	if err := pongo2.ReplaceFilter("vprobe_missing", nil); err == nil {
		c.Fail("replace-of-missing-accepted", D{"what": "ReplaceFilter"})
		return
	}
	if err := pongo2.ReplaceTag("vprobe_missing_tag", nil); err == nil {
		c.Fail("replace-of-missing-accepted", D{"what": "ReplaceTag"})
		return
	}
	// Which function a compiled template applies under a name after pongo2.ReplaceFilter is not stated by the property
	// (the engine binds {{ x|f }} when it compiles and looks the filter tag's names up at every execution; both are
	// accepted). What IS required: it does not depend on whether, or under which registration, the compiled template was
	// executed BEFORE - two compiles of one source made under the same registration behave alike ever after.
	mkSwap := func(ver string) pongo2.FilterFunction {
		return func(in, p *pongo2.Value) (*pongo2.Value, *pongo2.Error) {
			return pongo2.AsValue(ver + "(" + in.String() + ":" + p.String() + ")"), nil
		}
	}
	if !pongo2.FilterExists("vprobe_swap") {
		pongo2.RegisterFilter("vprobe_swap", mkSwap("v1"))
	} else {
		pongo2.ReplaceFilter("vprobe_swap", mkSwap("v1"))
	}
	const swapSrc = "{% autoescape off %}{% filter vprobe_swap:\"p\" %}body{% endfilter %}|{{ \"x\"|vprobe_swap:\"q\" }}|{% filter upper|vprobe_swap:sv|lower %}B{% endfilter %}|{% if flag %}{% filter vprobe_swap:1 %}late{% endfilter %}{{ 1|vprobe_swap:2 }}{% endif %}{% for i in lv %}{% filter vprobe_swap:i %}{{ i }}{% endfilter %}{% endfor %}{% endautoescape %}"
	sset, _ := newSet(emptySetFiles)
	used, e1 := sset.FromString(swapSrc)
	fresh, e2 := sset.FromString(swapSrc)
	if e1 == nil && e2 == nil {
		sctx := c19Ctx()
		sctx["flag"] = false
		used.Execute(sctx) // executed under v1, the branch under `if flag` not reached
		for step, ver := range []string{"v2", "v2", "v3", "v1"} {
			if err := pongo2.ReplaceFilter("vprobe_swap", mkSwap(ver)); err != nil {
				c.Fail("replace-of-missing-accepted", D{"what": "ReplaceFilter(vprobe_swap) refused: " + err.Error()})
				return
			}
			sctx["flag"] = step >= 1
			outUsed, xerr1 := execSpread(used, sctx, uint64(step))
			if step == 0 || step == 2 {
				// the second compile is executed for the first time only now / only every other time
				outFresh, xerr2 := execSpread(fresh, sctx, uint64(step))
				c.Eval(2)
				if (xerr1 == nil) != (xerr2 == nil) || outUsed != outFresh {
					c.Fail("filter-tag-differs-from-chain", D{"source": swapSrc, "registered_now": ver, "step": step, "output_of_the_compile_executed_at_every_step": q(outUsed), "output_of_the_compile_executed_now": q(outFresh), "error": errStr(xerr1) + errStr(xerr2),
						"why": "two compiles of one source, made under the same registration (v1); vprobe_swap was replaced by v2, v2, v3, v1 in turn: what a compiled template applies must not depend on when it was executed before"})
					return
				}
			}
		}
		c.Cover("replace_filter_between_executions_of_a_compiled_template")
	}
	c.Cover("fixed_precedence_scope_registry")
}

// c19DeepExpr builds an expression that mentions the name `x` somewhere DEEP inside (behind filters with arguments, list
// literals, call arguments, parentheses, operators) together with its value as a function of x's value. Every form is
// built from pieces whose meaning the fixed list above pins one by one.
func c19DeepExpr(r *Rng, depth int) (string, func(x string) string) {
	if depth <= 0 {
		return "x", func(x string) string { return x }
	}
	// a form that may stand where a filter PARAMETER is expected (a name, a call, a subscript - no filter chain of its own)
	asParam := func() (string, func(x string) string) {
		if r.Bool() {
			return "x", func(x string) string { return x }
		}
		s, v := c19DeepExpr(r, depth-1)
		return "ident(" + s + ")", v
	}
	switch r.Intn(8) {
	case 0:
		s, v := asParam()
		return "\"pre-\"|add:" + s, func(x string) string { return "pre-" + v(x) }
	case 1:
		s, v := c19DeepExpr(r, depth-1)
		return "[" + s + ", \"k\"]|join:\"+\"", func(x string) string { return v(x) + "+k" }
	case 2:
		s, v := c19DeepExpr(r, depth-1)
		return "ident(" + s + ")", v
	case 3:
		s, v := asParam()
		return "\"lit\"|vprobe_a:" + s, func(x string) string { return "a(lit:" + v(x) + ")" }
	case 4:
		s, v := c19DeepExpr(r, depth-1)
		return "(" + s + ")", v
	case 5:
		s, v := c19DeepExpr(r, depth-1)
		return "(\"<\" + " + s + " + \">\")", func(x string) string { return "<" + v(x) + ">" }
	case 6:
		s, v := c19DeepExpr(r, depth-1)
		return "[" + s + "]|first", v
	default:
		s, v := c19DeepExpr(r, depth-1)
		return "[\"z\", " + s + "]|last", v
	}
}

// c19DeepParamCase: a filter parameter (list literal or call) whose items mention a name deep inside is evaluated in
// the current scope at EVERY application - in every iteration of a loop, in every call of a macro and in every
// execution of the compiled template (an argument that "looks constant" at its top level is not constant).
func c19DeepParamCase(c *C, r *Rng) bool {
	s, v := c19DeepExpr(r, 1+r.Intn(3))
	var param string
	var want func(x string) string
	if r.Bool() {
		param, want = "[\"h\", "+s+"]|join:\",\"", func(x string) string { return "h," + v(x) }
		if r.Bool() {
			param, want = "["+s+", \"t\"]|join:\",\"", func(x string) string { return v(x) + ",t" }
		}
	} else {
		param, want = "ident("+s+")", v
	}
	base := r.Pick([]string{"\"\"|default:", "nv|default_if_none:", "undefinedname|default:"})
	use := "{{ " + base + param + " }}"
	form := r.Intn(4)
	var src, exp string
	xs := []string{"x", "y", "z"}
	switch form {
	case 0:
		src = "{% for x in lv %}" + use + ";{% endfor %}"
		for _, x := range xs {
			exp += want(x) + ";"
		}
	case 1:
		src = "{% macro dm(x) %}" + use + "{% endmacro %}{{ dm(\"one\") }}|{{ dm(\"two\") }}|{{ dm(p) }}"
		exp = want("one") + "|" + want("two") + "|" + want("outer")
	case 2:
		src = "{% with x=\"w1\" %}" + use + "{% endwith %}|{% with x=p %}" + use + "{% endwith %}"
		exp = want("w1") + "|" + want("outer")
	default:
		src = use
	}
	full := "{% autoescape off %}" + src + "{% endautoescape %}"
	if form == 3 {
		// one compiled template, several executions with different values of the name
		set, _ := newSet(emptySetFiles)
		tpl, err := set.FromString(full)
		c.Eval(1)
		if err != nil {
			c.Fail("compile-error", D{"source": src, "error": err.Error()})
			return false
		}
		for i, x := range []string{"first", "second", "first", "third"} {
			ctx := c19Ctx()
			ctx["x"] = x
			out, xerr := execSpread(tpl, ctx, uint64(i)+r.U64()%4)
			c.Eval(1)
			if xerr != nil || out != want(x) {
				c.Fail("precedence-or-scope", D{"source": src, "execution": i, "x": x, "output": q(out), "expected": q(want(x)), "error": errStr(xerr), "why": "a filter parameter is evaluated in the current scope at every application; one compiled template executed with different contexts"})
				return false
			}
		}
	} else {
		out, cerr, xerr := renderString(full, c19Ctx())
		c.Eval(1)
		if cerr != nil || xerr != nil || out != exp {
			c.Fail("precedence-or-scope", D{"source": src, "output": q(out), "expected": q(exp), "error": errStr(cerr) + errStr(xerr), "why": "a filter parameter is evaluated in the current scope at every application (loop iteration, macro call, with block)"})
			return false
		}
	}
	c.Cover(fmt.Sprintf("deep_parameter_form_%d", form))
	c.Nontrivial("deepparam:" + src)
	return true
}

func c19DeepParams(c *C) bool {
	for i := 0; i < 400; i++ {
		if !c19DeepParamCase(c, c.R) {
			return false
		}
	}
	return true
}

func c19Run(c *C) {
	if c.Idx == 0 {
		c19Fixed(c)
		return
	}
	r := c.R
	if !c19DeepParamCase(c, r) {
		return
	}
	probesOnly := r.Chance(45)
	for k := 0; k < 10; k++ {
		ch := c19RandChain(r, probesOnly, 4)
		pos := c19Positions[r.Intn(len(c19Positions))]
		if pos.name == "subscript" || pos.name == "ifequal" {
			if !probesOnly {
				continue
			}
		}
		if !c19RunChain(c, ch, pos, probesOnly) {
			return
		}
		c.Cover("position_" + pos.name)
		c.Cover(fmt.Sprintf("chain_len_%d", len(ch.filters)))
		if len(ch.filters) > 0 {
			c.Nontrivial(pos.name + ":" + ch.src())
		}
		if c.WantSample() && len(ch.filters) >= 3 && probesOnly {
			c.Sample(D{"position": pos.name, "expression": ch.src()})
		}
	}
	if r.Chance(10) {
		// a filter tag whose body failed after having produced text went before
		if _, _, xe := renderString("{% filter lower|upper %}LEFTOVER{{ failfn() }}tail{% endfilter %}", c19Ctx()); xe == nil {
			c.Fail("filter-tag-differs-from-chain", D{"why": "the failing function's error was lost"})
			return
		}
		c.Cover("after_failed_filter_tag_body")
	}
	// filter tag == chain applied to the rendered body
	ch := c19RandChain(r, probesOnly, 3)
	if len(ch.filters) > 0 {
		body := r.Pick([]string{"body text", "{{ sv }}", "a{{ iv }}b", ""})
		chainSrc := strings.TrimPrefix(ch.src(), ch.baseSrc+"|")
		src := "{% autoescape off %}{% filter " + chainSrc + " %}" + body + "{% endfilter %}{% endautoescape %}"
		bodyOut, _, _ := renderString("{% autoescape off %}"+body+"{% endautoescape %}", c19Ctx())
		ch2 := ch
		ch2.baseVal = bodyOut
		want, werr := ch2.compose()
		out, cerr, xerr := renderString(src, c19Ctx())
		c.Eval(2)
		if cerr != nil {
			c.Fail("compile-error", D{"source": src, "error": cerr.Error()})
			return
		}
		if (werr != nil) != (xerr != nil) || (werr == nil && out != want.String()) {
			exp := ""
			if want != nil {
				exp = want.String()
			}
			c.Fail("filter-tag-differs-from-chain", D{"source": src, "output": q(out), "expected": q(exp), "exec_err": errStr(xerr), "applyfilter_err": errStr(werr)})
			return
		}
		c.Cover("position_filter_tag")
		c.Nontrivial("filtertag:" + src)
	}
}

func init() {
	register(&Prop{
		ID:   "C19",
		Init: c19Init,
		Cases: func(tier string) int {
			if tier == "thorough" {
				return 600000
			}
			return 4000
		},
		Run: c19Run,
		Rule: "probe filters vprobe_a..d registered by the harness log (name, input, parameter) and return a non-commutative transformation; random chains of length 0-4 over the probes and over every deterministic registered filter (from the hook), with literal/variable/path parameters, are written at 16 expression positions (items of array literals, output, if/elif, for, with both styles, set, include with, macro argument, macro default, call argument, firstof, ifequal, filter parameter, subscript) and in the filter tag; " +
			"oracle: the probe log equals the written order with the right inputs and parameters (each application exactly once), the output equals the composition of public ApplyFilter calls (errors agree on both routes), the filter tag equals the chain applied to the rendered body; a fixed list checks precedence against every operator, parameter evaluation in the current scope (loops, macros, two executions of one compiled template), unregistered names in 20 positions and the registry's refusal of double registration / replacing a missing name. distinct_nontrivial = distinct (position, chain) pairs.",
		MinNontriv:  2000,
		Assumptions: []string{"registries are process-global: the probes are registered once per worker process", "the random filter is excluded"},
	})
}
