package main

import (
	"fmt"
	"strings"
)

// Program generator: random templates over the full tag/filter/operator vocabulary,
// together with the loader files they refer to.

type GenOpts struct {
	OptOutFree    bool // no |safe, no autoescape off, no *_html truncation filters, no lorem p (C02)
	Deterministic bool // no now, random, lorem random, unsorted map iteration, map/struct printing (C04/C05)
	PlainText     bool // literal text without < > & ' "
	Filters       []string
	MaxDepth      int
	NoFiles       bool
	ErrorRate     int      // percent chance of deliberately wrong constructs (unknown names, wrong arity ...)
	CtxVars       []string // extra context variable names usable as plain values
	CtxVarBias    int      // percent chance to pick one of CtxVars (default 50)
}

type Gen struct {
	r           *Rng
	o           GenOpts
	files       map[string]string
	locals      []string
	nfile       int
	macros      []genMacro
	inFile      int // nesting depth of file generation
	inFilterTag bool
	blocks      int
}

type genMacro struct {
	name  string
	nargs int
}

func newGen(r *Rng, o GenOpts) *Gen {
	if o.MaxDepth == 0 {
		o.MaxDepth = 4
	}
	return &Gen{r: r, o: o, files: map[string]string{}}
}

var genWords = []string{"alpha", "beta", "gamma", "x", "42", "lorem ipsum", "ünï", "日本", " ", "\n", "\t", "-", ".", ":", "(", ")", "}", "%", "#"}
var genWordsMarkup = []string{"<b>", "</b>", "<p class=\"c\">", "&amp;", "&", "'", "\"", "<", ">"}

func (g *Gen) text() string {
	n := 1 + g.r.Intn(3)
	var sb strings.Builder
	for i := 0; i < n; i++ {
		if !g.o.PlainText && g.r.Chance(20) {
			sb.WriteString(g.r.Pick(genWordsMarkup))
		} else {
			sb.WriteString(g.r.Pick(genWords))
		}
	}
	s := sb.String()
	for strings.HasSuffix(s, "{") {
		s = s[:len(s)-1]
	}
	return s
}

var genSteps = []string{".Name", ".Num", ".F", ".Ok", ".L", ".SL", ".M", ".IM", ".In", ".In.Title", ".In.Tags", ".P", ".P.Name", ".Any", ".T", ".Fn", ".NilP", ".NilP.Title", ".Iface",
	".Hello", ".PHello", ".Add(1, 2)", ".OkErr", ".Variadic(1, 2, 3)", ".TakesValue(z_int)", ".Self", ".Self.Name", ".Ptr.Name", ".NilPtr", ".NilPtr.Name", ".Extra", ".ZS.Name",
	".0", ".1", ".2", ".k", ".a", ".b", ".x", ".Title", ".Count", ".Tags.0", ".V", "[0]", "[1]", "[\"k\"]", "[\"a\"]", "[\"Name\"]", "[1 + 1]", "[z_int]", "()", ".Year", ".Unix", ".String"}

var genBadSteps = []string{"[\"hidden\"]", "[z_hiddenkey]", "[\"missing\"]", ".hidden", ".missing", ".99", ".Fail", ".Two", "[99]", "[-1]", "[z_nil]", "[z_str]", "[z_f64]", "[z_true]", "(1)", "(1, 2, 3)", "(z_str)", ".Add(1)", ".Add(\"a\", 2)", ".Hello()", ".Hello(1)", ".0.0", "[[1]]", ".M.nokey", "[z_ints]"}

func (g *Gen) varName() string {
	if len(g.locals) > 0 && g.r.Chance(40) {
		return g.r.Pick(g.locals)
	}
	bias := 50
	if g.o.CtxVarBias > 0 {
		bias = g.o.CtxVarBias
	}
	if len(g.o.CtxVars) > 0 && g.r.Chance(bias) {
		return g.r.Pick(g.o.CtxVars)
	}
	if g.r.Chance(g.o.ErrorRate) {
		return g.r.Pick([]string{"nosuchvar", "forloop", "forloop.Counter", "pongo2", "pongo2.version", "block", "_x", "x9"})
	}
	names := zooNames()
	return names[g.r.Intn(len(names))]
}

func (g *Gen) path() string {
	p := g.varName()
	n := 0
	for _, cv := range g.o.CtxVars {
		if cv == p && g.r.Chance(90) {
			return p // context paths are complete already
		}
	}
	switch g.r.Intn(10) {
	case 0, 1, 2, 3:
		n = 0
	case 4, 5, 6:
		n = 1
	case 7, 8:
		n = 2
	default:
		n = 3
	}
	for i := 0; i < n; i++ {
		var st string
		if g.r.Chance(g.o.ErrorRate) {
			st = g.r.Pick(genBadSteps)
		} else {
			st = g.r.Pick(genSteps)
		}
		p += st
		if strings.HasPrefix(st, "[") && !g.r.Chance(g.o.ErrorRate) {
			break // the grammar accepts a subscript only as the last step of a name
		}
	}
	return p
}

func (g *Gen) strLit() string {
	words := []string{"lit", "a,b", "1:2", "%d", "%5.2f|%v", "", "x y z", "2006-01-02", "yes,no,maybe", "é", "a", ", "}
	if !g.o.PlainText {
		words = append(words, "<i>", "it's", "&")
	}
	w := g.r.Pick(words)
	if g.r.Bool() && !strings.Contains(w, "'") {
		return "'" + w + "'"
	}
	return "\"" + w + "\""
}

func (g *Gen) literal() string {
	switch g.r.Intn(8) {
	case 0, 1:
		return fmt.Sprint(g.r.Intn(12))
	case 2:
		return g.r.Pick([]string{"0", "1", "100", "1000000", "9223372036854775807", "3.5", "0.0", "2.0"})
	case 3, 4:
		return g.strLit()
	case 5:
		return g.r.Pick([]string{"true", "false"})
	case 6:
		n := g.r.Intn(4)
		items := []string{}
		for i := 0; i < n; i++ {
			items = append(items, g.atom(0))
		}
		return "[" + strings.Join(items, ", ") + "]"
	default:
		return g.r.Pick([]string{"nil", "1", "\"s\""})
	}
}

var genParamFilters = map[string][]string{
	"add": nil, "center": {"10", "0", "3"}, "cut": nil, "date": {"\"2006-01-02\""}, "time": {"\"15:04\""}, "default": nil, "default_if_none": nil, "divisibleby": {"2", "3", "0"},
	"floatformat": {"2", "0", "3"}, "get_digit": {"1", "2"}, "join": {"\", \"", "\"\""}, "length_is": {"3", "0"}, "ljust": {"8"}, "rjust": {"8"}, "pluralize": {"\"es\"", "\"y,ies\""},
	"removetags": {"\"b\"", "\"a,p\""}, "slice": {"\"1:\"", "\":2\"", "\"1:3\"", "\"-2:\""}, "split": {"\",\"", "\" \""}, "stringformat": {"\"%v\"", "\"%5d\"", "\"%s|\""},
	"truncatechars": {"5", "3", "20"}, "truncatewords": {"2", "1"}, "truncatechars_html": {"5"}, "truncatewords_html": {"2"}, "urlizetrunc": {"10"}, "wordwrap": {"2"}, "yesno": {"\"y,n\"", "\"y,n,m\""},
}

func (g *Gen) filterAllowed(f string) bool {
	if g.o.OptOutFree && (f == "safe" || f == "truncatechars_html" || f == "truncatewords_html") {
		return false
	}
	if g.o.Deterministic && f == "random" {
		return false
	}
	if g.inFilterTag && g.o.OptOutFree && (f == "urlize" || f == "urlizetrunc" || f == "linebreaks" || f == "linebreaksbr") {
		return false
	}
	return true
}

func (g *Gen) filterCall() string {
	fs := g.o.Filters
	if len(fs) == 0 {
		fs = []string{"upper", "lower", "length", "default", "add", "first", "last", "join", "escape", "title", "striptags", "truncatechars", "slice", "yesno", "floatformat", "capfirst"}
	}
	var f string
	for k := 0; k < 20; k++ {
		f = g.r.Pick(fs)
		if g.filterAllowed(f) {
			break
		}
		f = "upper"
	}
	if g.r.Chance(g.o.ErrorRate) {
		return g.r.Pick([]string{"nosuchfilter", f + ":", f + ":1:2", "\"str\""})
	}
	params, needs := genParamFilters[f]
	if needs {
		if params == nil || g.r.Chance(35) {
			return f + ":" + g.atom(0)
		}
		return f + ":" + g.r.Pick(params)
	}
	if g.r.Chance(10) {
		return f + ":" + g.atom(0)
	}
	return f
}

// atom: a literal or a path, optionally filtered
func (g *Gen) atom(depth int) string {
	var a string
	if g.r.Chance(35) {
		a = g.literal()
	} else {
		a = g.path()
	}
	nf := 0
	if g.r.Chance(30) {
		nf = 1 + g.r.Intn(3)
	}
	for i := 0; i < nf; i++ {
		a += "|" + g.filterCall()
	}
	return a
}

func (g *Gen) expr(depth int) string {
	if depth <= 0 || g.r.Chance(45) {
		return g.atom(depth)
	}
	switch g.r.Intn(10) {
	case 0:
		return "(" + g.expr(depth-1) + ")"
	case 1:
		// unary operators are only grammatical at the start of a simple expression
		return "(" + g.r.Pick([]string{"-", "not ", "!", "+"}) + g.atom(depth) + ")"
	default:
		op := g.r.Pick([]string{"+", "-", "*", "/", "%", "^", "==", "!=", "<>", "<", "<=", ">", ">=", "in", "and", "or", "&&", "||"})
		l, r := g.expr(depth-1), g.expr(depth-1)
		if g.r.Chance(30) {
			l = "(" + l + ")"
		}
		if g.r.Chance(30) {
			r = "(" + r + ")"
		}
		return l + " " + op + " " + r
	}
}

func (g *Gen) ident() string {
	return g.r.Pick([]string{"a", "b", "item", "val", "k", "v", "z_str", "z_int", "x_1"})
}

func (g *Gen) withLocal(name string, fn func() string) string {
	g.locals = append(g.locals, name)
	s := fn()
	g.locals = g.locals[:len(g.locals)-1]
	return s
}

func (g *Gen) newFile(dir string, content string) string {
	g.nfile++
	name := fmt.Sprintf("%sf%d.tpl", dir, g.nfile)
	g.files[name] = content
	return name
}

// body generates a sequence of statements.
func (g *Gen) body(depth int) string {
	n := 1 + g.r.Intn(4)
	var sb strings.Builder
	for i := 0; i < n; i++ {
		sb.WriteString(g.stmt(depth))
	}
	return sb.String()
}

func (g *Gen) sub(depth int) string {
	if depth <= 0 {
		if g.r.Bool() {
			return g.text()
		}
		return "{{ " + g.expr(1) + " }}"
	}
	return g.body(depth - 1)
}

func (g *Gen) stmt(depth int) string {
	r := g.r
	if depth <= 0 {
		switch r.Intn(3) {
		case 0:
			return g.text()
		default:
			return "{{ " + g.expr(2) + " }}"
		}
	}
	switch r.Intn(34) {
	case 0, 1, 2:
		return g.text()
	case 3, 4, 5, 6:
		return "{{ " + g.expr(3) + " }}"
	case 7, 8:
		s := "{% if " + g.expr(2) + " %}" + g.sub(depth)
		for k := r.Intn(3); k > 0; k-- {
			s += "{% elif " + g.expr(2) + " %}" + g.sub(depth)
		}
		if r.Bool() {
			s += "{% else %}" + g.sub(depth)
		}
		return s + "{% endif %}"
	case 9, 10, 11:
		v := g.ident()
		iter := g.expr(1)
		mods := ""
		isMap := false
		hdr := v
		if r.Chance(25) {
			v2 := g.ident() + "2"
			hdr = v + ", " + v2
			isMap = true
			iter = r.Pick([]string{"z_map", "z_mapss", "z_imap", "z_struct.M", "z_emptymap", "z_nilmap"})
		}
		if r.Chance(30) {
			mods += " reversed"
		}
		if r.Chance(30) || (g.o.Deterministic && (isMap || strings.Contains(iter, "map") || strings.Contains(iter, ".M") || strings.Contains(iter, "IM"))) {
			mods += " sorted"
		}
		if g.o.Deterministic {
			// iteration over maps must be sorted; restrict the iterable to known sequences when it is a path we cannot classify
			if !isMap {
				iter = r.Pick([]string{"z_ints", "z_strs", "z_anys", "z_str", "z_multi", "z_arr", "z_parr", "z_struct.L", "z_struct.SL", "z_emptysl", "z_nil", "z_structs", "[1, 2, 3]", "\"abc\"", "z_int", "z_struct.In.Tags"})
			}
			if !strings.Contains(mods, "sorted") && isMap {
				mods += " sorted"
			}
		}
		body := g.withLocal(v, func() string {
			b := g.sub(depth)
			if r.Chance(40) {
				b += "{{ forloop.Counter }}" + r.Pick([]string{"{{ forloop.First }}", "{{ forloop.Last }}", "{{ forloop.Revcounter0 }}", "{{ forloop.Parentloop.Counter }}", "{{ " + v + " }}"})
			}
			return b
		})
		s := "{% for " + hdr + " in " + iter + mods + " %}" + body
		if r.Chance(30) {
			s += "{% empty %}" + g.sub(depth)
		}
		return s + "{% endfor %}"
	case 12, 13:
		v := g.ident()
		e := g.expr(2)
		var hdr string
		if r.Bool() {
			hdr = v + "=" + e
			if r.Chance(30) && !g.o.Deterministic { // the evaluation order of several pairs follows Go's map order
				hdr += " other=" + g.expr(1)
			}
		} else {
			hdr = e + " as " + v
		}
		return "{% with " + hdr + " %}" + g.withLocal(v, func() string { return g.sub(depth) }) + "{% endwith %}"
	case 14, 15:
		v := g.ident()
		s := "{% set " + v + " = " + g.expr(2) + " %}"
		g.locals = append(g.locals, v) // stays visible (approximation; harmless for a generator)
		if len(g.locals) > 6 {
			g.locals = g.locals[1:]
		}
		return s
	case 16:
		// macro definition and call
		name := fmt.Sprintf("m%d", r.Intn(1000))
		nargs := r.Intn(4)
		var params []string
		hasDefault := false
		for i := 0; i < nargs; i++ {
			p := fmt.Sprintf("p%d", i)
			if r.Chance(40) && !(g.o.Deterministic && hasDefault) {
				p += "=" + g.atom(0)
				hasDefault = true
			}
			params = append(params, p)
		}
		saved := g.locals
		for i := 0; i < nargs; i++ {
			g.locals = append(g.locals, fmt.Sprintf("p%d", i))
		}
		body := g.sub(depth)
		g.locals = saved
		s := "{% macro " + name + "(" + strings.Join(params, ", ") + ") %}" + body + "{% endmacro %}"
		calls := 1 + r.Intn(2)
		for k := 0; k < calls; k++ {
			na := nargs
			if r.Chance(30) {
				na = r.Intn(nargs + 2)
			}
			var args []string
			for i := 0; i < na; i++ {
				args = append(args, g.expr(1))
			}
			call := name + "(" + strings.Join(args, ", ") + ")"
			switch r.Intn(6) {
			case 0:
				s += "{{ " + call + " + " + g.atom(0) + " }}"
			case 1:
				s += "{{ " + g.atom(0) + " + " + call + " }}"
			case 2:
				s += "{% set mres = " + call + " %}{{ mres }}{% for it in " + g.r.Pick([]string{"z_strs", "z_anys", "z_ints"}) + " %}{{ mres }}{% set mres = it %}{% endfor %}"
			case 3:
				s += "{% with mw=" + call + " + " + g.atom(0) + " %}{{ mw }}{% endwith %}"
			default:
				s += "{{ " + call + " }}"
			}
		}
		return s
	case 17, 18:
		if g.o.NoFiles || g.inFile >= 2 {
			return g.text()
		}
		g.inFile++
		savedLocals := g.locals
		content := g.body(depth - 1)
		g.locals = savedLocals
		g.inFile--
		name := g.newFile(r.Pick([]string{"/", "/inc/", "/inc/deep/"}), content)
		ref := name
		if r.Chance(30) {
			ref = strings.TrimPrefix(name, "/") // relative to the root template's directory
		}
		var s string
		if r.Bool() {
			s = "{% include \"" + ref + "\""
		} else {
			// a lazy include: the name is computed at run time (a leading string literal would make it static)
			if _, taken := g.files["#incname"]; !taken {
				g.files["#incname"] = name
				s = "{% include " + r.Pick([]string{"incname", "incname|default:\"x\"", "(incname)"})
			} else {
				s = "{% include (\"" + ref + "\")"
			}
		}
		if r.Chance(20) {
			s += " if_exists"
		}
		if r.Chance(40) {
			s += " with " + g.ident() + "=" + g.expr(1)
			if r.Chance(40) && !g.o.Deterministic {
				s += " " + g.ident() + "2=" + g.atom(0)
			}
			if r.Chance(40) {
				s += " only"
			}
		}
		return s + " %}"
	case 19:
		if g.o.NoFiles || g.inFile >= 2 {
			return g.text()
		}
		// imported macro
		mname := fmt.Sprintf("lm%d", r.Intn(100))
		g.inFile++
		saved := g.locals
		g.locals = append(g.locals, "q")
		mbody := g.sub(depth)
		g.locals = saved
		g.inFile--
		lib := g.newFile("/lib/", "{% macro "+mname+"(q, r=1) export %}"+mbody+"{% endmacro %}{% macro hidden() %}h{% endmacro %}")
		alias := mname
		imp := mname
		if r.Bool() {
			alias = "al_" + mname
			imp = mname + " as " + alias
		}
		s := "{% import \"" + lib + "\" " + imp + " %}"
		s += "{{ " + alias + "(" + g.expr(1) + ") }}"
		if r.Chance(g.o.ErrorRate) {
			s += "{{ " + alias + "(1, 2, 3) }}"
		}
		return s
	case 20:
		if g.o.NoFiles || g.inFile >= 2 {
			return g.text()
		}
		g.inFile++
		saved := g.locals
		content := g.body(depth - 1)
		g.locals = saved
		g.inFile--
		name := g.newFile("/ssi/", content)
		if r.Bool() || g.o.OptOutFree {
			return "{% ssi \"" + name + "\" parsed %}"
		}
		return "{% ssi \"" + name + "\" %}"
	case 21:
		if g.o.OptOutFree {
			return "{% autoescape on %}" + g.sub(depth) + "{% endautoescape %}"
		}
		return "{% autoescape " + r.Pick([]string{"on", "off"}) + " %}" + g.sub(depth) + "{% endautoescape %}"
	case 22:
		g.inFilterTag = true
		chain := g.filterCall()
		for k := r.Intn(3); k > 0; k-- {
			chain += "|" + g.filterCall()
		}
		g.inFilterTag = false
		return "{% filter " + chain + " %}" + g.sub(depth) + "{% endfilter %}"
	case 23:
		return "{% spaceless %}" + g.sub(depth) + "{% endspaceless %}"
	case 24:
		n := 1 + r.Intn(3)
		s := "{% firstof"
		for i := 0; i < n; i++ {
			s += " " + g.atom(0)
		}
		return s + " %}"
	case 25:
		n := 1 + r.Intn(3)
		s := "{% cycle"
		for i := 0; i < n; i++ {
			s += " " + g.atom(0)
		}
		if r.Chance(30) {
			s += " as cyc"
			if r.Bool() {
				s += " silent"
			}
			return s + " %}{{ cyc }}{% cycle cyc %}"
		}
		return s + " %}"
	case 26:
		s := "{% ifchanged"
		if r.Bool() {
			s += " " + g.atom(0)
			if r.Bool() {
				s += " " + g.atom(0)
			}
		}
		s += " %}" + g.sub(depth)
		if r.Chance(30) {
			s += "{% else %}" + g.sub(depth)
		}
		return s + "{% endifchanged %}"
	case 27:
		t := r.Pick([]string{"ifequal", "ifnotequal"})
		s := "{% " + t + " " + g.atom(0) + " " + g.atom(0) + " %}" + g.sub(depth)
		if r.Bool() {
			s += "{% else %}" + g.sub(depth)
		}
		return s + "{% end" + t + " %}"
	case 28:
		s := "{% widthratio " + g.atom(0) + " " + g.atom(0) + " " + g.atom(0)
		if r.Chance(30) {
			return s + " as wr %}{{ wr }}"
		}
		return s + " %}"
	case 29:
		return "{% templatetag " + r.Pick([]string{"openblock", "closeblock", "openvariable", "closevariable", "openbrace", "closebrace", "opencomment", "closecomment"}) + " %}"
	case 30:
		if r.Bool() {
			return "{# " + r.Pick([]string{"note", "{{ z_str }}", "%}"}) + " #}"
		}
		return "{% comment %}" + g.sub(depth) + "{% nosuchtag %}{% endcomment %}"
	case 31:
		if g.o.Deterministic {
			return "{% now \"2006-01-02\" fake %}"
		}
		if g.o.OptOutFree {
			return r.Pick([]string{"{% now \"2006\" %}", "{% now \"15:04\" fake %}", "{% lorem %}", "{% lorem 3 w %}", "{% lorem 5 w random %}", "{% lorem 2 b %}"})
		}
		return r.Pick([]string{"{% now \"2006\" %}", "{% now \"15:04\" fake %}", "{% lorem %}", "{% lorem 3 w %}", "{% lorem 2 p %}", "{% lorem 5 w random %}", "{% lorem 2 b %}"})
	case 32:
		if g.o.Deterministic {
			if g.o.OptOutFree {
				return "{% lorem 3 w %}"
			}
			return r.Pick([]string{"{% lorem 3 w %}", "{% lorem 1 b %}"})
		}
		if g.o.OptOutFree {
			return "{% lorem 4 w %}"
		}
		return "{% lorem " + fmt.Sprint(r.Intn(4)) + " " + r.Pick([]string{"w", "p", "b"}) + " %}"
	default:
		return "{% verbatim %}" + r.Pick([]string{"{{ raw }}", "{% if %}", "plain", ""}) + "{% endverbatim %}"
	}
}

// program generates a main template (possibly extending a generated base) plus files.
func (g *Gen) program() (main string, files map[string]string) {
	depth := 1 + g.r.Intn(g.o.MaxDepth)
	if !g.o.NoFiles && g.r.Chance(20) {
		// inheritance
		base := "head " + g.body(depth-1) + "{% block b1 %}" + g.body(depth-1) + "{% endblock %}mid{% block b2 %}base2{% block inner %}in{% endblock %}{% endblock %}" + g.body(depth-1) + " foot"
		g.files["/base.tpl"] = base
		child := "{% extends \"/base.tpl\" %}ignored {{ " + g.expr(1) + " }}"
		if g.r.Bool() {
			child += "{% block b1 %}" + g.body(depth-1) + g.r.Pick([]string{"", "{{ block.Super }}"}) + "{% endblock %}"
		}
		if g.r.Bool() {
			child += "{% block inner %}" + g.body(depth-1) + "{{ block.Super }}{% endblock %}"
		}
		if g.r.Chance(30) {
			g.files["/mid.tpl"] = child
			child = "{% extends \"/mid.tpl\" %}{% block b2 %}leaf{{ block.Super }}" + g.body(depth-1) + "{% endblock %}"
		}
		return child, g.files
	}
	return g.body(depth), g.files
}
