package main

// ruleAdditions: workload added to a check after its Rule text was written (round 7 of the seeded changes); appended to
// the rule recorded in the evidence file.
var ruleAdditions = map[string]string{
	"C01": " Also: urlize/urlizetrunc limits between rune count and byte length of multi-byte URLs; whitespace-only texts next to '-' markers under every TrimBlocks/LStripBlocks combination.",
	"C02": " Also: sets with banned escaping filters (escape, e, safe, force_escape) and a banned autoescape tag must still escape every output construct.",
	"C03": " Also: pongo2.ReplaceTag / ReplaceFilter of the probe names as a history step (a ban is a ban of the name).",
	"C04": " Also: context values rendering 30-140 KiB (kept ExecuteBytes results), twin struct types with equal printed names, and a terminating macro recursion as a fourth kind of overlapping executions.",
	"C05": " Also: one case in 40 holds 3-8 goroutines together at the bottom of a terminating macro recursion (depth 150-700) of one compiled template; each must return what it returns alone.",
	"C06": " Also: a fragment kind with '-' markers between two texts with a comment / verbatim block and whitespace further away (expected output computed directly: a marker trims only the text it touches).",
	"C07": " Also: for every sixth judged tree a leading unary plus (+(E), (+(E)), set z = +(E), +leaf) must print what E prints.",
	"C09": " Also: one case in 50 renders `sorted` / `reversed sorted` over int64/uint64/int/float64/string lists, arrays and map keys with distinct values around 0, 2^31, 2^53, 2^60, 2^62 and MaxInt64 against Go's sort.",
	"C10": " Also: a template that extends a chain member and includes it (once or twice) from a block it overrides, through Execute and ExecuteBlocks.",
	"C11": " Also: loaders hand out DataErrReader / OneByteReader / HalfReader / bytes.Buffer / sized / multi readers; one case in 300 executes 1001-1600 includes of a one-level partial in eight forms; one case in 20 renders a real directory tree with decoys through LocalFilesystemLoader (with / without base directory, SetBaseDir), SandboxedFilesystemLoader, FSLoader(os.DirFS), HttpFilesystemLoader (with / without base directory) and two base-directory loaders joined by AddLoader.",
	"C13": " Also: overlapping executions (one parked 400-990 deep): a second terminating recursion and a runaway recursion behave as alone; import lists alias-then-plain, alias-plain-alias, two aliases.",
	"C14": " Also (worker prelude): executions broken off by a recovered panic (context function, writer) precede the cases.",
	"C16": " Also: 11 built-in filter failures with place-independent messages as broken constructs; included / imported / ssi-parsed files whose names differ from the referrer's only in case.",
	"C17": " Also: one very long tag (300-65537 bytes) per ~70 random strings; eight goroutines call removetags with eight different tag lists at once (2500 calls each, 40000 in thorough).",
	"C18": " Also: filter-tag chains - the window filter followed by add/length/join/first/last/yesno/pluralize/default/stringformat/slice/divisibleby must equal the ApplyFilter composition.",
	"C19": " Also: list-literal parameters with non-constant items (loops, macros, two executions); filter-tag arguments are evaluated when the chain is applied to the rendered body (a set inside the body is seen).",
	"C20": " Also: the second set may load through its SECOND loader (relative-spelling empty first loader) and may have no globals while pongo2.Globals defines g.",
}
