module verif/harness

go 1.18

require (
	github.com/anishathalye/porcupine v1.3.0
	github.com/flosch/pongo2/v6 v6.0.0
)

replace github.com/flosch/pongo2/v6 => /repo
