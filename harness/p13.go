package main

import (
	"errors"
	"fmt"
	"strings"
	"sync/atomic"

	"github.com/flosch/pongo2/v6"
)

// C13 - macros bind arguments by position with defaults, and recursion is bounded.

type c13Arg struct {
	src  string // source text of the argument / default expression
	want string // what {{ param }} prints inside the macro
}

func c13Args(cv string) []c13Arg {
	return []c13Arg{
		{"\"lit\"", "lit"}, {"\"<b>&'\"", "&lt;b&gt;&amp;&#39;"}, {"\"\"", ""}, {"\"é日\"", "é日"},
		{"7", "7"}, {"0", "0"}, {"neg", "-3"}, {"1.5", "1.500000"}, {"true", "True"}, {"false", "False"},
		{"nothing", ""}, {"cv", htmlEscape(cv)}, {"num", "42"}, {"1 + 2", "3"}, {"cv|upper", htmlEscape(strings.ToUpper(cv))}, {"stringer", "ZStr(" + htmlEscape(cv) + ")"},
		{"dv", "{DV}"}, {"dv|upper", "{UDV}"}, {"dv + num", "{DV}42"},
	}
}

var c13Ticks int64

func c13Ctx(cv string) pongo2.Context {
	return pongo2.Context{"cv": cv, "num": 42, "neg": -3, "stringer": ZStr(cv),
		// context keys named like macro parameters: a parameter (also an omitted one) shadows them
		"p0": "CTX-p0", "p2": "CTX-p2", "p3": 33,
		"tick": func() string { atomic.AddInt64(&c13Ticks, 1); return "" },
		"z40":  make([]int, 40), "one": []int{1}, "selfname": "/main.tpl", "othername": "/other.tpl"}
}

type c13Macro struct {
	nested   bool // the body prints the parameters a second time inside nested with/for regions
	nparams  int
	defaults map[int]c13Arg // by parameter index; evaluated in the defining scope
}

func (m c13Macro) def(name string, export bool) string {
	var ps []string
	for i := 0; i < m.nparams; i++ {
		p := fmt.Sprintf("p%d", i)
		if d, ok := m.defaults[i]; ok {
			p += "=" + d.src
		}
		ps = append(ps, p)
	}
	var body strings.Builder
	body.WriteString("<u>BODY[")
	for i := 0; i < m.nparams; i++ {
		fmt.Fprintf(&body, "p%d={{ p%d }};", i, i)
		if m.nested {
			fmt.Fprintf(&body, "{%% with q=1 %%}{%% for j in one %%}w%d={{ p%d }};{%% endfor %%}{%% endwith %%}", i, i)
		}
	}
	body.WriteString("cv={{ cv }}]</u>")
	ex := ""
	if export {
		ex = " export"
	}
	return "{% macro " + name + "(" + strings.Join(ps, ", ") + ")" + ex + " %}" + body.String() + "{% endmacro %}"
}

// expected rendering of one call with the given arguments (nil = too many arguments -> execution error)
func (m c13Macro) expect(args []c13Arg, cv string, defArgs []c13Arg, callIdx int) (string, bool) {
	if len(args) > m.nparams {
		return "", false
	}
	var sb strings.Builder
	sb.WriteString("<u>BODY[")
	for i := 0; i < m.nparams; i++ {
		v := ""
		if i < len(args) {
			v = args[i].want
		} else if d, ok := m.defaults[i]; ok {
			// defaults are evaluated with the context of the current execution
			v = d.want
			for _, da := range defArgs {
				if da.src == d.src {
					v = da.want
				}
			}
		}
		// dv is re-assigned by a set tag in front of every call: arguments and defaults see the current value
		v = strings.ReplaceAll(strings.ReplaceAll(v, "{DV}", fmt.Sprintf("d%d", callIdx)), "{UDV}", fmt.Sprintf("D%d", callIdx))
		fmt.Fprintf(&sb, "p%d=%s;", i, v)
		if m.nested {
			fmt.Fprintf(&sb, "w%d=%s;", i, v)
		}
	}
	sb.WriteString("cv=" + htmlEscape(cv) + "]</u>")
	return sb.String(), true
}

func c13Binding(c *C) {
	r := c.R
	cvA, cvB := "A<a>", "B&'b"
	argsA, argsB := c13Args(cvA), c13Args(cvB)
	m := c13Macro{nparams: r.Intn(5), defaults: map[int]c13Arg{}, nested: r.Bool()}
	for i := 0; i < m.nparams; i++ {
		if r.Chance(40) {
			m.defaults[i] = argsA[r.Intn(len(argsA))]
		}
	}
	if r.Chance(15) {
		// a macro body that failed after having produced text (locally defined and imported) went before
		pset, _ := newSet(map[string]string{"/plib.tpl": "{% macro pbad() export %}STALE-IMPORTED{{ failfn() }}{% endmacro %}"})
		for _, psrc := range []string{"{% macro bad(p0) %}STALE-MACRO-TEXT{{ p0 }}{{ failfn() }}tail{% endmacro %}x{{ bad(1) }}", "{% import \"/plib.tpl\" pbad %}{{ pbad() }}"} {
			if pt, perr := pset.FromString(psrc); perr == nil {
				pctx := c13Ctx(cvA)
				pctx["failfn"] = func() (string, error) { return "", errors.New("c13: deliberate failure inside a macro body") }
				if _, xe := pt.Execute(pctx); xe == nil {
					c.Fail("binding", D{"source": psrc, "why": "the failing function's error was lost"})
					return
				}
			}
		}
		c.Cover("after_failed_macro_bodies")
	}
	type call struct{ idx []int }
	ncalls := 1 + r.Intn(3)
	var calls []call
	tooMany := false
	for k := 0; k < ncalls; k++ {
		na := r.Intn(6)
		if na > m.nparams {
			if !r.Chance(25) {
				na = r.Intn(m.nparams + 1)
			}
		}
		cl := call{}
		for i := 0; i < na; i++ {
			cl.idx = append(cl.idx, r.Intn(len(argsA)))
		}
		calls = append(calls, cl)
		if na > m.nparams {
			tooMany = true
			break // an error ends the rendering
		}
	}
	callSrc := func(name string) string {
		var sb strings.Builder
		for i, cl := range calls {
			var as []string
			for _, ix := range cl.idx {
				as = append(as, argsA[ix].src)
			}
			fmt.Fprintf(&sb, "{%% set dv = \"d%d\" %%}(%d:{{ %s(%s) }})", i, i, name, strings.Join(as, ", "))
		}
		return sb.String()
	}
	variants := map[string]map[string]string{
		"local":    {"/main.tpl": m.def("mac", false) + callSrc("mac")},
		"imported": {"/main.tpl": "{% import \"/lib/macros.tpl\" mac %}" + callSrc("mac"), "/lib/macros.tpl": "ignored text " + m.def("mac", true) + m.def("other", true)},
		"aliased":  {"/main.tpl": "{% import \"lib/macros.tpl\" other, mac as alias %}" + callSrc("alias"), "/lib/macros.tpl": m.def("mac", true) + " " + m.def("other", true)},
		// every order of aliased and plain entries in one import list
		"alias-then-plain":  {"/main.tpl": "{% import \"lib/macros.tpl\" other as first, mac %}" + callSrc("mac"), "/lib/macros.tpl": m.def("mac", true) + " " + strings.Replace(m.def("other", true), "{% endmacro %}", "OTHER{% endmacro %}", 1)},
		"alias-plain-alias": {"/main.tpl": "{% import \"/lib/macros.tpl\" other as o1, mac, other as o2 %}" + callSrc("mac"), "/lib/macros.tpl": strings.Replace(m.def("other", true), "{% endmacro %}", "OTHER{% endmacro %}", 1) + m.def("mac", true)},
		"two-aliases":       {"/main.tpl": "{% import \"/lib/macros.tpl\" mac as a1, other as a2 %}" + callSrc("a1"), "/lib/macros.tpl": strings.Replace(m.def("other", true), "{% endmacro %}", "OTHER{% endmacro %}", 1) + m.def("mac", true)},
		// the library is itself a child template; its base exports another macro under the same name (and others)
		"imported-from-a-library-that-extends": {"/main.tpl": "{% import \"/lib/macros.tpl\" mac %}" + callSrc("mac"), "/lib/macros.tpl": "{% extends \"/lib/base.tpl\" %}" + m.def("mac", true) + "{% block libb %}x{% endblock %}",
			"/lib/base.tpl": "{% macro mac() export %}BASE-MACRO{% endmacro %}{% macro other(a, b, c, d, e, f) export %}BASE-OTHER{% endmacro %}{% block libb %}{% endblock %}"},
		"aliased-from-a-library-that-extends": {"/main.tpl": "{% import \"/lib/macros.tpl\" mac as viaalias %}" + callSrc("viaalias"), "/lib/macros.tpl": "{% extends \"base.tpl\" %}" + m.def("mac", true),
			"/lib/base.tpl": "{% macro mac(zz=1) export %}BASE-MACRO{{ zz }}{% endmacro %}"},
		"local-exported-in-with": {"/main.tpl": "{% with unrelated=1 %}" + m.def("mac", true) + callSrc("mac") + "{% endwith %}"},
	}
	outs := map[string][2]execResult{}
	for vname, files := range variants {
		set, _ := newSet(files)
		tpl, err := set.FromFile("/main.tpl")
		c.Eval(1)
		if err != nil {
			c.Fail("compile-error", D{"variant": vname, "files": files, "error": err.Error()})
			return
		}
		var res [2]execResult
		for e, cv := range []string{cvA, cvB} { // the same compiled template, two contexts
			out, xerr := execSpread(tpl, c13Ctx(cv), uint64(e)+hashStr(vname))
			c.Eval(1)
			res[e] = execResult{out, errStr(xerr)}
			var want strings.Builder
			wantErr := false
			defs := argsA
			if e == 1 {
				defs = argsB
			}
			for i, cl := range calls {
				var as []c13Arg
				for _, ix := range cl.idx {
					as = append(as, defs[ix])
				}
				w, ok := m.expect(as, cv, defs, i)
				if !ok {
					wantErr = true
					break
				}
				fmt.Fprintf(&want, "(%d:%s)", i, w)
			}
			d := D{"variant": vname, "files": files, "context_cv": cv, "execution": e, "output": q(out), "error": errStr(xerr)}
			if wantErr {
				if xerr == nil {
					d["expected"] = "an execution error (too many arguments)"
					c.Fail("binding", d)
					return
				}
				continue
			}
			exp := want.String()
			if vname == "imported" {
				exp = want.String()
			}
			if xerr != nil || out != exp {
				d["expected"] = q(exp)
				c.Fail("binding", d)
				return
			}
		}
		outs[vname] = res
	}
	for vname, res := range outs {
		if res != outs["local"] && !tooMany {
			c.Fail("imported-differs-from-local", D{"variant": vname, "variants": variants, "local": fmt.Sprint(outs["local"]), "other": fmt.Sprint(res)})
			return
		}
	}
	c.Cover(fmt.Sprintf("params_%d", m.nparams))
	c.Cover(fmt.Sprintf("defaults_%d", len(m.defaults)))
	if tooMany {
		c.Cover("too_many_arguments")
	}
	c.Nontrivial(variants["local"]["/main.tpl"])
	if c.WantSample() && m.nparams >= 2 && len(m.defaults) > 0 {
		c.Sample(D{"local": q(variants["local"]["/main.tpl"]), "output_ctxA": q(outs["local"][0].out), "error": outs["local"][0].err})
	}
}

// ---- recursion ---------------------------------------------------------------------

type c13Graph struct {
	name  string
	files map[string]string
}

var c13Graphs = []c13Graph{
	{"direct-local", map[string]string{"/main.tpl": "{% macro r() %}{{ tick() }}{{ r() }}{% endmacro %}{{ r() }}"}},
	{"direct-local-args", map[string]string{"/main.tpl": "{% macro r(n, acc=\"\") %}{{ tick() }}{{ r(n + 1, acc) }}{% endmacro %}{{ r(1) }}"}},
	{"mutual-2-local", map[string]string{"/main.tpl": "{% macro a() %}{{ tick() }}{{ b() }}{% endmacro %}{% macro b() %}{{ a() }}{% endmacro %}{{ a() }}"}},
	{"mutual-3-local", map[string]string{"/main.tpl": "{% macro a() %}{{ tick() }}{{ b() }}{% endmacro %}{% macro b() %}{{ c() }}{% endmacro %}{% macro c() %}{{ a() }}{% endmacro %}{{ b() }}"}},
	{"direct-imported", map[string]string{"/main.tpl": "{% import \"/lib.tpl\" r %}{{ r() }}", "/lib.tpl": "{% macro r() export %}{{ tick() }}{{ r() }}{% endmacro %}"}},
	{"direct-imported-alias", map[string]string{"/main.tpl": "{% import \"/lib.tpl\" r as q %}{{ q() }}", "/lib.tpl": "{% macro r() export %}{{ tick() }}{{ q() }}{% endmacro %}"}},
	{"mutual-imported", map[string]string{"/main.tpl": "{% import \"/lib.tpl\" a, b %}{{ a() }}", "/lib.tpl": "{% macro a() export %}{{ tick() }}{{ b() }}{% endmacro %}{% macro b() export %}{{ a() }}{% endmacro %}"}},
	{"local-and-imported", map[string]string{"/main.tpl": "{% import \"/lib.tpl\" imp %}{% macro loc() %}{{ tick() }}{{ imp() }}{% endmacro %}{{ loc() }}", "/lib.tpl": "{% macro imp() export %}{{ loc() }}{% endmacro %}"}},
	{"in-with", map[string]string{"/main.tpl": "{% with k=1 %}{% macro r() %}{{ tick() }}{% with j=2 %}{{ r() }}{% endwith %}{% endmacro %}{{ r() }}{% endwith %}"}},
	{"in-for", map[string]string{"/main.tpl": "{% for i in one %}{% macro r() %}{{ tick() }}{% for j in one %}{{ r() }}{% endfor %}{% endmacro %}{{ r() }}{% endfor %}"}},
	{"through-if", map[string]string{"/main.tpl": "{% macro r(n) %}{{ tick() }}{% if n %}{{ r(n) }}{% else %}{{ r(1) }}{% endif %}{% endmacro %}{{ r(0) }}"}},
	{"through-set", map[string]string{"/main.tpl": "{% macro r() %}{{ tick() }}{% set v = r() %}{{ v }}{% endmacro %}{{ r() }}"}},
	{"through-filter-arg", map[string]string{"/main.tpl": "{% macro r() %}{{ tick() }}{{ \"x\"|add:r() }}{% endmacro %}{{ r() }}"}},
	{"default-direct", map[string]string{"/main.tpl": "{% macro r(x=r()) %}{{ tick() }}{% endmacro %}{{ r() }}"}},
	{"default-mutual", map[string]string{"/main.tpl": "{% macro a(y=b()) %}x{% endmacro %}{% macro b(y=a()) %}x{% endmacro %}{{ a() }}"}},
	{"default-mutual-imported", map[string]string{"/main.tpl": "{% import \"/lib.tpl\" a, b %}{{ a() }}", "/lib.tpl": "{% macro a(y=b()) export %}x{% endmacro %}{% macro b(y=a()) export %}x{% endmacro %}"}},
	{"body-and-default", map[string]string{"/main.tpl": "{% macro a(y=b()) %}{{ tick() }}{% endmacro %}{% macro b() %}{{ a() }}{% endmacro %}{{ b() }}"}},
	{"exported-called-locally", map[string]string{"/main.tpl": "{% macro r() export %}{{ tick() }}{{ r() }}{% endmacro %}{{ r() }}"}},
	{"via-include", map[string]string{"/main.tpl": "{% macro r() %}{{ tick() }}{% include \"/inc.tpl\" %}{% endmacro %}{{ r() }}", "/inc.tpl": "{{ r() }}"}},
	// the cycle leaves the macro through a computed-name include that leads back to the template defining (importing) it:
	// every level is a fresh execution, so only the bound on nested executions can stop it - it must still hold inside macro bodies
	{"macro-lazy-include-self", map[string]string{"/main.tpl": "{% macro r() %}{{ tick() }}{% include selfname %}{% endmacro %}{{ r() }}"}},
	{"macro-in-with-lazy-include-self", map[string]string{"/main.tpl": "{% macro r(a) %}{{ tick() }}{% with w=a %}{% for i in one %}{% include selfname %}{% endfor %}{% endwith %}{% endmacro %}{{ r(1) }}"}},
	{"imported-macro-lazy-include-importer", map[string]string{"/main.tpl": "{% import \"/lib.tpl\" r %}{{ r() }}", "/lib.tpl": "{% macro r() export %}{{ tick() }}{% include selfname %}{% endmacro %}"}},
	{"macro-lazy-include-other-that-includes-back", map[string]string{"/main.tpl": "{% macro r() %}{{ tick() }}{% include othername %}{% endmacro %}{{ r() }}", "/other.tpl": "{% include \"/main.tpl\" %}"}},
	{"macro-ssi-parsed-self", map[string]string{"/main.tpl": "{% macro r() %}{{ tick() }}{% if selfname %}{% include selfname %}{% endif %}{% endmacro %}{% block b %}{{ r() }}{% endblock %}"}},
}

func c13Layout(r *Rng, src string) string {
	// layout variation: whitespace-control markers and padding text around the tags
	if r.Bool() {
		src = strings.ReplaceAll(src, "{% macro", "\n  {%- macro")
	}
	if r.Bool() {
		src = strings.ReplaceAll(src, "{% endmacro %}", "{% endmacro -%}\n")
	}
	if r.Bool() {
		src = "text before " + src + " text after"
	}
	return src
}

func c13Recursion(c *C, gi int, layout bool) {
	g := c13Graphs[gi]
	files := map[string]string{}
	for k, v := range g.files {
		if layout {
			v = c13Layout(c.R, v)
		}
		files[k] = v
	}
	var depths []int64
	for round := 0; round < 2; round++ {
		set, _ := newSet(files)
		tpl, err := set.FromFile("/main.tpl")
		if err != nil {
			c.Fail("compile-error", D{"graph": g.name, "files": files, "error": err.Error()})
			return
		}
		for rep := 0; rep < 2; rep++ {
			before := atomic.LoadInt64(&c13Ticks)
			out, xerr := tpl.Execute(c13Ctx("x"))
			c.Eval(1)
			depth := atomic.LoadInt64(&c13Ticks) - before
			if xerr == nil {
				c.Fail("unbounded-recursion-not-reported", D{"graph": g.name, "files": files, "output_len": len(out), "depth": depth})
				return
			}
			depths = append(depths, depth)
		}
	}
	for _, d := range depths {
		if d != depths[0] || d > 100000 {
			c.Fail("recursion-depth-not-fixed", D{"graph": g.name, "files": files, "depths_of_4_runs": depths})
			return
		}
	}
	c.Cover("recursion_" + g.name)
	c.AddExtra("recursion_depth_"+strings.ReplaceAll(g.name, "-", "_"), 0)
	c.Nontrivial("rec:" + fmt.Sprint(files))
	if c.WantSample() && gi == 6 {
		c.Sample(D{"graph": g.name, "files": files, "depth_reached_in_each_of_4_runs": depths})
	}
}

var c13Bounded = []string{
	"{% macro d(n) %}{% if n > 0 %}{{ d(n - 1) }}{% endif %}{% endmacro %}{% for i in z40 %}{{ d(60) }}{% endfor %}X",
	"{% macro a(n) %}{% if n > 0 %}{{ b(n - 1) }}{% endif %}{% endmacro %}{% macro b(n) %}{% if n > 0 %}{{ a(n - 1) }}{% endif %}{% endmacro %}{% for i in z40 %}{{ a(80) }}{{ b(3) }}{% endfor %}X",
	"{% import \"/lib.tpl\" d %}{% for i in z40 %}{{ d(60) }}{% endfor %}X",
	"{% import \"/lib.tpl\" d as e %}{% macro d(n) %}{{ e(n) }}{% endmacro %}{% for i in z40 %}{{ e(50) }}{{ d(50) }}{% endfor %}X",
	"{% macro d(n) %}{% if n > 0 %}{{ d(n - 1) }}{% endif %}{% endmacro %}{{ d(900) }}X",
}

func c13BoundedCase(c *C, i int) {
	files := map[string]string{"/main.tpl": c13Bounded[i], "/lib.tpl": "{% macro d(n) export %}{% if n > 0 %}{{ d(n - 1) }}{% endif %}{% endmacro %}"}
	if strings.Contains(c13Bounded[i], " as e") {
		files["/lib.tpl"] = "{% macro d(n) export %}{% if n > 0 %}{{ e(n - 1) }}{% endif %}{% endmacro %}"
	}
	set, _ := newSet(files)
	tpl, err := set.FromFile("/main.tpl")
	if err != nil {
		c.Fail("compile-error", D{"files": files, "error": err.Error()})
		return
	}
	for rep := 0; rep < 3; rep++ {
		out, xerr := tpl.Execute(c13Ctx("x"))
		c.Eval(1)
		if xerr != nil || out != "X" {
			c.Fail("terminating-recursion-refused", D{"files": files, "repetition": rep, "output": q(truncStr(out, 100)), "error": errStr(xerr),
				"note": "finite recursion of depth <= 900, repeated: the depth bound must count nesting, not calls"})
			return
		}
	}
	c.Cover("bounded_recursion_repeated")
	c.Nontrivial("bounded:" + c13Bounded[i])
}

// c13Overlap: the bound on macro recursion belongs to ONE execution. While one execution of a compiled template is
// parked at the bottom of a deep (terminating) recursion, another execution of the same template recurses as deep as it
// does alone, and a runaway recursion still stops at the same fixed depth as alone.
func c13Overlap(c *C) {
	r := c.R
	dA, dB := r.Pick2([]int{400, 600, 900, 990}), r.Pick2([]int{300, 600, 900, 990})
	imported := r.Bool()
	lib := "{% macro rec(k) export %}{% if k > 0 %}({{ rec(k - 1) }}){% else %}[{{ park() }}]{% endif %}{% endmacro %}{% macro run(k) export %}{{ cnt() }}{{ run(k + 1) }}{% endmacro %}"
	main := "{{ rec(d) }}|{% if runaway %}{{ run(0) }}{% endif %}"
	files := map[string]string{"/lib.tpl": lib, "/main.tpl": strings.NewReplacer(" export", "").Replace(lib) + main}
	if imported {
		files["/main.tpl"] = "{% import \"/lib.tpl\" rec, run %}" + main
	}
	set, _ := newSet(files)
	tpl, err := set.FromFile("/main.tpl")
	if err != nil {
		c.Fail("compile-error", D{"files": files, "error": err.Error()})
		return
	}
	var calls int64
	mk := func(d int, runaway bool, park func() string) pongo2.Context {
		return pongo2.Context{"d": d, "runaway": runaway, "park": park, "cnt": func() string { atomic.AddInt64(&calls, 1); return "" }}
	}
	noPark := func() string { return "" }
	wantA, eA := tpl.Execute(mk(dA, false, noPark))
	wantB, eB := tpl.Execute(mk(dB, false, noPark))
	if eA != nil || eB != nil {
		c.Fail("terminating-recursion-refused", D{"files": files, "depths": []int{dA, dB}, "error": errStr(eA) + errStr(eB)})
		return
	}
	_, eR := tpl.Execute(mk(3, true, noPark))
	soloDepth := atomic.SwapInt64(&calls, 0)
	if eR == nil {
		c.Fail("recursion-not-bounded", D{"files": files})
		return
	}
	entered, release := make(chan struct{}), make(chan struct{})
	type res struct {
		out string
		err error
	}
	resA := make(chan res, 1)
	go func() {
		out, xerr := tpl.Execute(mk(dA, false, func() string { close(entered); <-release; return "" }))
		resA <- res{out, xerr}
	}()
	select {
	case <-entered:
	case ra := <-resA:
		c.Fail("terminating-recursion-refused", D{"files": files, "depth": dA, "output": q(truncStr(ra.out, 100)), "error": errStr(ra.err)})
		return
	}
	outB, errB := execSpread(tpl, mk(dB, false, noPark), uint64(c.Idx))
	_, errR := tpl.Execute(mk(3, true, noPark))
	overlapDepth := atomic.SwapInt64(&calls, 0)
	close(release)
	ra := <-resA
	c.Eval(6)
	d := D{"files": files, "parked_execution_depth": dA, "second_execution_depth": dB, "imported": imported,
		"why": "one execution of the compiled template was parked at the bottom of its recursion while the others ran"}
	if errB != nil || outB != wantB {
		d["second_execution"] = D{"out": q(truncStr(outB, 100)), "err": errStr(errB), "alone_len": len(wantB)}
		c.Fail("terminating-recursion-refused", d)
		return
	}
	if ra.err != nil || ra.out != wantA {
		d["parked_execution"] = D{"out": q(truncStr(ra.out, 100)), "err": errStr(ra.err), "alone_len": len(wantA)}
		c.Fail("terminating-recursion-refused", d)
		return
	}
	if errR == nil || overlapDepth != soloDepth {
		d["runaway_recursion"] = D{"err": errStr(errR), "depth_reached": overlapDepth, "depth_reached_alone": soloDepth}
		c.Fail("recursion-depth-not-fixed", d)
		return
	}
	c.Cover("overlapping_executions_recursion_bound")
	c.Nontrivial(fmt.Sprintf("overlap:%d:%d:%v", dA, dB, imported))
}

// c13ImportPlaces: the import tag (like the macro tag) may stand anywhere and be executed many times within one
// execution - in a with inside a loop, in an inner loop, in a macro body that is called repeatedly, in an included
// partial. Wherever it stands, the imported or aliased macro renders what the same macro defined locally at that place
// renders (its body reads a name bound by the enclosing construct).
func c13ImportPlaces(c *C) {
	r := c.R
	body := r.Pick([]string{"[{{ a }}:{{ fv }}]", "[{{ a }}:{{ fv }}:{{ fv|upper }}{% if fv %}+{% endif %}]", "[{% for q in one %}{{ a }}{{ fv }}{% endfor %}]"})
	params := r.Pick([]string{"a", "a, b=fv", "a=fv"})
	places := []string{
		"{% for w in wl %}{% with fv=w %}@DEF@{{ @M@(forloop.Counter) }}{% endwith %}{% endfor %}",
		"{% for o in wl %}{% for fv in wl %}@DEF@{{ @M@(o) }}{% endfor %};{% endfor %}",
		"{% macro outer(fv) %}@DEF@{{ @M@(1) }}{% endmacro %}{{ outer(\"x\") }}{{ outer(\"y\") }}{{ outer(wl.2) }}",
		"{% for fv in wl %}{% include \"/part.tpl\" %}{% endfor %}",
		"{% for w in wl %}{% with fv=w %}{% filter cut:\"~\" %}@DEF@{{ @M@(w) }}{% endfilter %}{% endwith %}{% endfor %}@DEF@{{ @M@(0) }}",
		"{% for w in wl %}{% if forloop.Counter > 1 %}{% with fv=w %}@DEF@{{ @M@(w) }}{% endwith %}{% endif %}{% endfor %}",
	}
	place := places[r.Intn(len(places))]
	local := "{% macro show(" + params + ") %}" + body + "{% endmacro %}"
	lib := "{% macro show(" + params + ") export %}" + body + "{% endmacro %}{% macro other() export %}OTHER{% endmacro %}"
	variants := []struct{ name, def, call string }{
		{"local", local, "show"}, {"imported", `{% import "/lib.tpl" show %}`, "show"}, {"aliased", `{% import "/lib.tpl" show as sh %}`, "sh"},
		{"imported in a list", `{% import "/lib.tpl" other, show %}`, "show"}, {"aliased in a list", `{% import "/lib.tpl" other as o2, show as sh2 %}`, "sh2"},
	}
	var outs []string
	var srcs []D
	for _, v := range variants {
		fill := func(s string) string { return strings.ReplaceAll(strings.ReplaceAll(s, "@DEF@", v.def), "@M@", v.call) }
		files := map[string]string{"/lib.tpl": lib, "/part.tpl": fill("@DEF@{{ @M@(2) }}"), "/main.tpl": fill(place)}
		set, _ := newSet(files)
		tpl, err := set.FromFile("/main.tpl")
		if err != nil {
			c.Fail("compile-error", D{"variant": v.name, "files": files, "error": err.Error()})
			return
		}
		res := ""
		for run := 0; run < 2; run++ {
			out, xerr := execSpread(tpl, pongo2.Context{"wl": []string{"x", "y", "z"}, "one": []int{1}, "fv": "CTX"}, uint64(c.Idx+run))
			c.Eval(1)
			res += out + " err=" + errStr(xerr) + " // "
		}
		outs = append(outs, res)
		srcs = append(srcs, D{"variant": v.name, "main": files["/main.tpl"], "part": files["/part.tpl"], "result_of_two_executions": res})
	}
	for i := 1; i < len(outs); i++ {
		if outs[i] != outs[0] {
			c.Fail("imported-differs-from-local", D{"lib": lib, "variants": srcs, "differs": variants[i].name, "why": "the import tag stands where the local definition stands and is executed as often"})
			return
		}
	}
	if !strings.Contains(outs[0], "y") || !strings.Contains(outs[0], "z") {
		c.Fail("binding", D{"variants": srcs, "why": "the local macro does not see the bindings of the enclosing with / for / macro"})
		return
	}
	c.Cover("import_tag_executed_repeatedly_in_changing_scopes")
	c.Nontrivial("importplaces:" + place + body + params)
}

func c13Plan(tier string) (rec, bounded, binding int) {
	rec = len(c13Graphs)
	if tier == "thorough" {
		rec *= 50
	} else {
		rec *= 2
	}
	bounded = len(c13Bounded)
	binding = 20000
	if tier == "thorough" {
		binding = 600000
	}
	return
}

func c13Run(c *C) {
	rec, bounded, _ := c13Plan(c.Tier)
	switch {
	case c.Idx < rec:
		c13Recursion(c, c.Idx%len(c13Graphs), c.Idx >= len(c13Graphs))
	case c.Idx < rec+bounded:
		c13BoundedCase(c, c.Idx-rec)
	case (c.Idx-rec-bounded)%400 == 3:
		c13Overlap(c)
	case (c.Idx-rec-bounded)%40 == 7:
		c13ImportPlaces(c)
	default:
		c13Binding(c)
	}
}

func init() {
	register(&Prop{
		ID: "C13",
		Cases: func(tier string) int {
			a, b, d := c13Plan(tier)
			return a + b + d
		},
		Run:         c13Run,
		CaseTimeout: 60,
		Rule: "binding: random macro signatures (0-4 parameters, any subset with defaults that are literals, context variables or filtered/arithmetic expressions) called 1-3 times with 0-5 arguments drawn from 16 argument kinds (strings with markup/multi-byte/empty, ints, negative, float, bools, nil, context variables, Stringer, expressions); the body prints every parameter and a context variable; expected output from a reference binding (positional, default, else empty; escaped once inside, result printed as is; too many arguments => execution error); " +
			"the same macro is defined locally, imported, imported under an alias and exported-in-a-with, each compiled once and executed with two different contexts, and all variants must agree. " +
			"recursion: 19 call graphs of 1-3 macros without base case (direct, mutual, with arguments, through if/set/filter argument/include, local, imported, aliased, local+imported, in with/for, through default expressions) in layout variants: each must end in an execution error in an isolated worker, and the depth reached (calls of a counting context function) must be equal over 2 compiles x 2 runs and <= 10^5; 5 terminating recursions repeated 40x/3 runs must succeed. distinct_nontrivial = distinct programs.",
		MinNontriv:  2000,
		Assumptions: []string{"defaults referring to other parameters and keyword arguments are not generated (unspecified / not in the grammar)"},
	})
}
