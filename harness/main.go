package main

import (
	"encoding/json"
	"flag"
	"fmt"
	"os"
	"sort"
	"strconv"

	"github.com/flosch/pongo2/v6"
)

func main() {
	if len(os.Args) < 2 {
		fmt.Println("usage: vrun check <ID> <quick|thorough> | replay <path> | worker ... | list")
		os.Exit(2)
	}
	switch os.Args[1] {
	case "eval7":
		// development aid: vrun eval7 '<template source>' renders with C07's context
		tpl, err := pongo2.FromString(os.Args[2])
		if err != nil {
			fmt.Println("compile error:", err)
			return
		}
		ectx := c07Ctx()
		if os.Getenv("VERIF_EVALCTX") == "c02" {
			ectx = c02Ctx(false)
		}
		out, err := tpl.Execute(ectx)
		fmt.Printf("%q err=%v\n", out, err)
	case "gendiag":
		diagExprOnly = len(os.Args) > 2
		gendiag()
	case "list":
		ids := []string{}
		for id := range props {
			ids = append(ids, id)
		}
		sort.Strings(ids)
		for _, id := range ids {
			fmt.Println(id)
		}
	case "check":
		if len(os.Args) < 4 {
			os.Exit(2)
		}
		os.Exit(checkMain(os.Args[2], os.Args[3]))
	case "triage":
		os.Exit(triageMain(os.Args[2], os.Args[3]))
	case "replay":
		os.Exit(replayMain(os.Args[2]))
	case "worker":
		fs := flag.NewFlagSet("worker", flag.ExitOnError)
		var o workerOpts
		fs.StringVar(&o.prop, "prop", "", "")
		fs.StringVar(&o.tier, "tier", "quick", "")
		fs.Int64Var(&o.seed, "seed", 1, "")
		fs.IntVar(&o.shard, "shard", 0, "")
		fs.IntVar(&o.shards, "shards", 1, "")
		fs.IntVar(&o.from, "from", 0, "")
		fs.IntVar(&o.only, "only", -1, "")
		fs.IntVar(&o.upto, "upto", -1, "")
		fs.StringVar(&o.out, "out", "/tmp/vrun-worker", "")
		fs.BoolVar(&o.verbose, "v", false, "")
		fs.Parse(os.Args[2:])
		if os.Getenv("VERIF_TRIAGE") != "" {
			violationCap = 100000
		}
		if s := os.Getenv("VERIF_CASE_TIMEOUT"); s != "" {
			if n, err := strconv.Atoi(s); err == nil && props[o.prop] != nil {
				props[o.prop].CaseTimeout = n
			}
		}
		os.Exit(workerMain(o))
	case "finding":
		fs := flag.NewFlagSet("finding", flag.ExitOnError)
		prop := fs.String("prop", "", "")
		file := fs.String("case", "", "")
		fs.String("out", "", "")
		fs.Parse(os.Args[2:])
		p := props[*prop]
		if p == nil || p.Finding == nil {
			os.Exit(2)
		}
		b, err := os.ReadFile(*file)
		if err != nil {
			fmt.Println(err)
			os.Exit(2)
		}
		var spec map[string]any
		if err := json.Unmarshal(b, &spec); err != nil {
			fmt.Println(err)
			os.Exit(2)
		}
		if p.Init != nil {
			p.Init()
		}
		w := &workerState{hashes: map[uint64]struct{}{}, cover: map[string]int64{}, extra: map[string]any{}}
		c := &C{Prop: p, Tier: "quick", Seed: 1, Idx: 0, R: newRng(1, p.ID, "finding", 0), w: w}
		func() {
			defer func() {
				if r := recover(); r != nil {
					fmt.Println("FINDING-PANIC", r)
				}
			}()
			if p.Finding(c, spec) {
				fmt.Println("FINDING-REPRODUCED")
			} else {
				fmt.Println("FINDING-NOT-REPRODUCED")
			}
		}()
	default:
		fmt.Println("unknown command")
		os.Exit(2)
	}
}
