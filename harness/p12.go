package main

import (
	"fmt"
	"reflect"
	"strings"

	"github.com/flosch/pongo2/v6"
)

// C12 - scoping: bindings stay in their construct; caller data is never modified.

type snode struct {
	kind     string // probe with for set if block macrodef call include text
	name     string
	pairs    [][2]string // (name, rhs) ; rhs = "\"lit\"" or a name
	body     []*snode
	cond     bool
	params   []string
	args     []string // rhs list
	only     bool
	file     string
	lazy     bool
	ghost    bool // preceded by a computed-name include of a missing file with if_exists and with-pairs (renders nothing, binds nothing)
	oldStyle bool
	wrap     string // if-node printed as a transparent construct instead: autoescape-off, autoescape-on, spaceless, filter
	ssi      bool   // include-node printed as {% ssi "file" parsed %}
}

var c12Pool = []string{"a", "b", "c", "d"}

type c12Gen struct {
	r           *Rng
	nlit        int
	nfile       int
	nmacro      int
	nblock      int
	files       map[string][]*snode
	macros      []string // defined macro names (top level, before use)
	macroNP     map[string]int
	inMacro     bool
	inInclude   int
	onlyNames   []string // inside an `only` include: the names that may be probed
	macroParams []string
}

func (g *c12Gen) lit() string { g.nlit++; return fmt.Sprintf("\"v%d\"", g.nlit) }

func (g *c12Gen) rhs() string {
	if g.r.Chance(40) {
		return g.probeName()
	}
	return g.lit()
}

func (g *c12Gen) probeName() string {
	if g.onlyNames != nil {
		if len(g.onlyNames) == 0 {
			return "zz" // never bound anywhere
		}
		return g.r.Pick(g.onlyNames)
	}
	if g.inMacro {
		// a macro body sees its parameters; what it sees of the definition site is not specified -> only names never bound by tags
		return g.r.Pick(append([]string{"x", "g"}, g.macroParams...))
	}
	return g.r.Pick(append([]string{"x", "g"}, c12Pool...))
}

func (g *c12Gen) body(depth int) []*snode {
	n := 2 + g.r.Intn(4)
	var out []*snode
	for i := 0; i < n; i++ {
		out = append(out, g.node(depth))
	}
	return out
}

var _ = strings.Contains

func (g *c12Gen) bindName() string {
	if g.inMacro {
		// inside a macro any pool name may be bound locally (it is a fresh scope), but it may then be probed too
		n := g.r.Pick(c12Pool)
		return n
	}
	return g.r.Pick(c12Pool)
}

func (g *c12Gen) node(depth int) *snode {
	r := g.r
	k := r.Intn(12)
	if depth <= 0 {
		k = r.Intn(3)
	}
	switch k {
	case 0, 1:
		return &snode{kind: "probe", name: g.probeName()}
	case 2:
		if g.onlyNames != nil {
			n := g.r.Pick(c12Pool)
			g.onlyNames = append(g.onlyNames, n)
			return &snode{kind: "set", name: n, pairs: [][2]string{{n, g.lit()}}}
		}
		if g.inMacro {
			n := g.bindName()
			nd := &snode{kind: "set", name: n, pairs: [][2]string{{n, g.rhs()}}}
			g.macroParams = append(g.macroParams, n)
			return nd
		}
		n := g.bindName()
		return &snode{kind: "set", name: n, pairs: [][2]string{{n, g.rhs()}}}
	case 3, 4:
		nd := &snode{kind: "with", oldStyle: r.Chance(25)}
		np := 1
		if !nd.oldStyle && r.Chance(40) {
			np = 2
		}
		used := map[string]bool{}
		for i := 0; i < np; i++ {
			n := g.bindName()
			if used[n] {
				continue
			}
			used[n] = true
			nd.pairs = append(nd.pairs, [2]string{n, g.rhs()})
		}
		saved, savedOnly := g.macroParams, g.onlyNames
		for _, p := range nd.pairs {
			if g.inMacro {
				g.macroParams = append(g.macroParams, p[0])
			}
			if g.onlyNames != nil {
				g.onlyNames = append(g.onlyNames, p[0])
			}
		}
		nd.body = g.body(depth - 1)
		g.macroParams, g.onlyNames = saved, savedOnly
		return nd
	case 5, 6:
		n := g.bindName()
		nd := &snode{kind: "for", name: n}
		saved, savedOnly := g.macroParams, g.onlyNames
		if g.inMacro {
			g.macroParams = append(g.macroParams, n)
		}
		if g.onlyNames != nil {
			g.onlyNames = append(g.onlyNames, n)
		}
		nd.body = g.body(depth - 1)
		g.macroParams, g.onlyNames = saved, savedOnly
		return nd
	case 7:
		nd := &snode{kind: "if", cond: r.Chance(70)}
		if r.Chance(45) {
			// constructs that are no scopes at all: what is bound inside stays bound after them
			nd.cond = true
			nd.wrap = r.Pick([]string{"autoescape-off", "autoescape-on", "spaceless", "filter"})
		}
		// a set inside a branch that is not taken never happens; names bound inside a taken branch stay bound: handled by the interpreter.
		saved, savedOnly := g.macroParams, g.onlyNames
		nd.body = g.body(depth - 1)
		if !nd.cond {
			g.macroParams, g.onlyNames = saved, savedOnly
		}
		return nd
	case 8:
		if g.inMacro || g.inInclude > 0 {
			return &snode{kind: "probe", name: g.probeName()}
		}
		g.nblock++
		nd := &snode{kind: "block", name: fmt.Sprintf("blk%d", g.nblock)}
		nd.body = g.body(depth - 1)
		return nd
	case 9:
		// macro call (macros are defined at the top of the main template)
		if len(g.macros) == 0 || g.inMacro || g.onlyNames != nil {
			return &snode{kind: "probe", name: g.probeName()}
		}
		m := r.Pick(g.macros)
		nd := &snode{kind: "call", name: m}
		na := r.Intn(g.macroNP[m] + 1)
		for i := 0; i < na; i++ {
			nd.args = append(nd.args, g.rhs())
		}
		return nd
	default:
		if g.inInclude >= 2 || g.inMacro {
			return &snode{kind: "probe", name: g.probeName()}
		}
		g.nfile++
		nd := &snode{kind: "include", file: fmt.Sprintf("/inc%d.tpl", g.nfile), lazy: r.Chance(30) && g.inInclude == 0, only: r.Chance(35), ghost: r.Chance(30) && g.inInclude == 0}
		used := map[string]bool{}
		for i := r.Intn(3); i > 0; i-- {
			n := g.bindName()
			if used[n] {
				continue
			}
			used[n] = true
			nd.pairs = append(nd.pairs, [2]string{n, g.rhs()})
		}
		if len(nd.pairs) == 0 {
			nd.only = false // `only` needs a with-clause
			if !nd.lazy && r.Chance(50) {
				nd.ssi = true // the same composition written as ssi … parsed (sees the includer's variables)
				nd.ghost = false
			}
		}
		savedOnly := g.onlyNames
		if nd.only {
			g.onlyNames = []string{"a", "b", "g"} // names that may be globals: visible in every template of the set
			for _, p := range nd.pairs {
				g.onlyNames = append(g.onlyNames, p[0])
			}
		} else if g.onlyNames != nil {
			for _, p := range nd.pairs {
				g.onlyNames = append(g.onlyNames, p[0])
			}
		}
		g.inInclude++
		g.files[nd.file] = g.body(depth - 1)
		g.inInclude--
		g.onlyNames = savedOnly
		return nd
	}
}

// extra generator state
func init() {}

func c12Src(nodes []*snode, files map[string]string, g *c12Gen) string {
	var sb strings.Builder
	for _, n := range nodes {
		switch n.kind {
		case "probe":
			sb.WriteString("[" + n.name + "={{ " + n.name + " }}]")
		case "set":
			sb.WriteString("{% set " + n.pairs[0][0] + " = " + n.pairs[0][1] + " %}")
		case "with":
			sb.WriteString("{% with")
			for _, p := range n.pairs {
				if n.oldStyle {
					sb.WriteString(" " + p[1] + " as " + p[0])
				} else {
					sb.WriteString(" " + p[0] + "=" + p[1])
				}
			}
			sb.WriteString(" %}" + c12Src(n.body, files, g) + "{% endwith %}")
		case "for":
			sb.WriteString("{% for " + n.name + " in [\"i1\", \"i2\"] %}<" + c12Src(n.body, files, g) + "[fl={{ forloop.Counter }}]>{% endfor %}[fl={{ forloop.Counter }}]")
		case "if":
			c := "0"
			if n.cond {
				c = "1"
			}
			switch n.wrap {
			case "autoescape-off":
				sb.WriteString("{% autoescape off %}" + c12Src(n.body, files, g) + "{% endautoescape %}")
			case "autoescape-on":
				sb.WriteString("{% autoescape on %}" + c12Src(n.body, files, g) + "{% endautoescape %}")
			case "spaceless":
				sb.WriteString("{% spaceless %}" + c12Src(n.body, files, g) + "{% endspaceless %}")
			case "filter":
				sb.WriteString("{% filter cut:\"~\" %}" + c12Src(n.body, files, g) + "{% endfilter %}")
			default:
				sb.WriteString("{% if " + c + " %}" + c12Src(n.body, files, g) + "{% endif %}")
			}
		case "block":
			sb.WriteString("{% block " + n.name + " %}" + c12Src(n.body, files, g) + "{% endblock %}")
		case "call":
			sb.WriteString("{{ " + n.name + "(" + strings.Join(n.args, ", ") + ") }}")
		case "include":
			files[n.file] = c12Src(g.files[n.file], files, g)
			if n.ghost {
				sb.WriteString(`{% include nofile if_exists with a="ghost_a" b="ghost_b" c="ghost_c" g="ghost_g" %}`)
			}
			if n.ssi {
				sb.WriteString("{% ssi \"" + n.file + "\" parsed %}")
				continue
			}
			if n.lazy {
				sb.WriteString("{% include fname_" + strings.Trim(n.file, "/.tpl") + "")
			} else {
				sb.WriteString("{% include \"" + n.file + "\"")
			}
			if len(n.pairs) > 0 {
				sb.WriteString(" with")
				for _, p := range n.pairs {
					sb.WriteString(" " + p[0] + "=" + p[1])
				}
				if n.only {
					sb.WriteString(" only")
				}
			}
			sb.WriteString(" %}")
		}
	}
	return sb.String()
}

// ---- reference environment model --------------------------------------------------

type senv struct {
	vars   map[string]string
	parent *senv
	// base: context and globals (looked up after all scopes)
	base map[string]string
	loop int // forloop.Counter of the innermost loop in this scope chain (0 = none)
}

func (e *senv) get(name string) string {
	for c := e; c != nil; c = c.parent {
		if v, ok := c.vars[name]; ok {
			return v
		}
		if c.parent == nil {
			return c.base[name]
		}
	}
	return ""
}

func (e *senv) loopCounter() int {
	for c := e; c != nil; c = c.parent {
		if c.loop > 0 {
			return c.loop
		}
	}
	return 0
}

func (e *senv) evalRHS(rhs string) string {
	if strings.HasPrefix(rhs, "\"") {
		return strings.Trim(rhs, "\"")
	}
	return e.get(rhs)
}

type c12Macro struct {
	params []string
	body   []*snode
}

type sinterp struct {
	globals map[string]string
	out     strings.Builder
	g       *c12Gen
	macros  map[string]*c12Macro
	root    *senv
	items   []string
}

func (in *sinterp) flatten(e *senv) map[string]string {
	// everything visible: base, then scopes outermost first
	var chain []*senv
	for c := e; c != nil; c = c.parent {
		chain = append(chain, c)
	}
	out := map[string]string{}
	for k, v := range chain[len(chain)-1].base {
		out[k] = v
	}
	for i := len(chain) - 1; i >= 0; i-- {
		for k, v := range chain[i].vars {
			out[k] = v
		}
	}
	return out
}

func (in *sinterp) run(nodes []*snode, e *senv) {
	for _, n := range nodes {
		switch n.kind {
		case "probe":
			in.out.WriteString("[" + n.name + "=" + e.get(n.name) + "]")
		case "set":
			e.vars[n.pairs[0][0]] = e.evalRHS(n.pairs[0][1])
		case "with":
			child := &senv{vars: map[string]string{}, parent: e}
			for _, p := range n.pairs {
				child.vars[p[0]] = e.evalRHS(p[1]) // evaluated in the outer scope
			}
			in.run(n.body, child)
		case "for":
			child := &senv{vars: map[string]string{}, parent: e}
			for i, it := range in.items {
				child.vars[n.name] = it
				child.loop = i + 1
				in.out.WriteString("<")
				in.run(n.body, child)
				in.out.WriteString(fmt.Sprintf("[fl=%d]>", i+1))
			}
			if c := e.loopCounter(); c > 0 {
				in.out.WriteString(fmt.Sprintf("[fl=%d]", c))
			} else {
				in.out.WriteString("[fl=]")
			}
		case "if":
			if n.cond {
				in.run(n.body, e)
			}
		case "block":
			in.run(n.body, e)
		case "call":
			m := in.macros[n.name]
			// a macro runs in a scope of its own; the generator makes its body refer only to its parameters,
			// to names it binds itself and to names that no tag ever binds (context/globals)
			child := &senv{vars: map[string]string{}, parent: nil, base: in.root.base}
			for i, p := range m.params {
				if i < len(n.args) {
					child.vars[p] = e.evalRHS(n.args[i])
				} else {
					child.vars[p] = ""
				}
			}
			in.run(m.body, child)
		case "include":
			var base map[string]string
			if n.only {
				base = map[string]string{}
				// globals stay visible in every template of the set (context entries are not passed on)
				for k, v := range in.globals {
					base[k] = v
				}
			} else {
				base = in.flatten(e)
			}
			for _, p := range n.pairs {
				base[p[0]] = e.evalRHS(p[1])
			}
			child := &senv{vars: map[string]string{}, base: base}
			if !n.only {
				child.loop = e.loopCounter() // forloop is one of the includer's variables
			}
			in.run(in.g.files[n.file], child)
		}
	}
}

// ---- caller data ------------------------------------------------------------------

type c12Holder struct {
	List []int
	M    map[string]int
}

func c12CallerData(withGlobals bool) (pongo2.Context, pongo2.Context) {
	ctx := pongo2.Context{
		"a": "ctx_a", "c": "ctx_c", "x": "ctx_x", "nofile": "/no/such/file.tpl",
		"items":  []string{"i1", "i2"},
		"lst":    []int{3, 1, 2},
		"mp":     map[string]int{"z": 1, "y": 2},
		"holder": c12Holder{List: []int{9, 8}, M: map[string]int{"k": 1}},
		"ph":     &c12Holder{List: []int{5, 4, 6}},
		"nested": map[string]any{"l": []any{3, "s", []int{2, 1}}},
	}
	globals := pongo2.Context{}
	if withGlobals {
		globals = pongo2.Context{"a": "glob_a", "b": "glob_b", "g": "glob_g", "gl": []int{2, 1}}
	}
	return ctx, globals
}

const c12Mutators = "{% for i in lst sorted %}{{ i }}{% endfor %}{% for i in lst reversed %}{{ i }}{% endfor %}{{ lst|slice:\"1:\"|join:\",\" }}{{ lst|first }}{{ lst|last }}{% for k, v in mp sorted %}{{ k }}{% endfor %}" +
	"{% for i in holder.List reversed sorted %}{{ i }}{% endfor %}{% for i in ph.List sorted %}{{ i }}{% endfor %}{{ ph.List|slice:\":2\"|length }}{% for i in nested.l reversed %}{{ i|length }}{% endfor %}{% for i in gl sorted %}{{ i }}{% endfor %}" +
	"{% set lst = 1 %}{% set mp = 2 %}{% with items=\"shadow\" %}{{ items }}{% endwith %}{{ items|join:\"\"|upper }}"

// c12ReentrantLoop: the names a loop binds (its variable, forloop and its fields) belong to ONE run of the loop: when the
// same for tag is entered again while a run is in progress (a recursive macro walking a tree), the inner run's bindings
// are gone when it returns and the outer run's are what they were.
func c12ReentrantLoop(c *C) {
	cnt := 0
	root := c09GenTree(c.R, 1+c.R.Intn(4), &cnt)
	var sb strings.Builder
	cyc := 0
	c09Walk(root, &cyc, &sb)
	want := sb.String()
	set, _ := newSet(emptySetFiles)
	tpl, err := set.FromString(c09WalkSrc)
	if err != nil {
		c.Fail("scope-mismatch", D{"source": q(c09WalkSrc), "compile_err": err.Error()})
		return
	}
	out, xerr := execSpread(tpl, pongo2.Context{"root": root}, uint64(c.Idx))
	c.Eval(1)
	if xerr != nil || out != want {
		c.Fail("scope-mismatch", D{"source": q(c09WalkSrc), "tree_nodes": cnt, "output": q(out), "expected": q(want), "error": errStr(xerr), "why": "forloop and the loop variable of the outer run after a recursive call ran the same loop again"})
		return
	}
	c.Cover("reentrant_loop_bindings")
}

func c12Run(c *C) {
	r := c.R
	if c.Idx%200 == 19 {
		c12ReentrantLoop(c)
		return
	}
	if c.Idx%8 == 7 {
		c12KeyValidation(c)
		return
	}
	g := &c12Gen{r: r, files: map[string][]*snode{}, macroNP: map[string]int{}}
	// macros first (defined at the top, used later)
	var macroDefs []*snode
	for i := r.Intn(3); i > 0; i-- {
		g.nmacro++
		name := fmt.Sprintf("mac%d", g.nmacro)
		np := r.Intn(3)
		var params []string
		pool := append([]string{}, c12Pool...)
		for k := 0; k < np; k++ {
			j := r.Intn(len(pool))
			params = append(params, pool[j])
			pool = append(pool[:j], pool[j+1:]...)
		}
		g.inMacro = true
		g.macroParams = append([]string{}, params...)
		body := g.body(2)
		g.inMacro = false
		g.macroParams = nil
		macroDefs = append(macroDefs, &snode{kind: "macrodef", name: name, params: params, body: body})
		g.macros = append(g.macros, name)
		g.macroNP[name] = np
	}
	tree := g.body(3)
	files := map[string]string{}
	var src strings.Builder
	for _, m := range macroDefs {
		src.WriteString("{% macro " + m.name + "(" + strings.Join(m.params, ", ") + ") %}" + c12Src(m.body, files, g) + "{% endmacro %}")
	}
	src.WriteString(c12Src(tree, files, g))
	failing := r.Chance(20)
	main := src.String() + c12Mutators
	if failing {
		main += "{{ 1 / 0 }}"
	}
	files["/main.tpl"] = main

	withGlobals := r.Chance(70)
	nilShadow := r.Chance(30)
	ctx, globals := c12CallerData(withGlobals)
	if nilShadow {
		ctx["b"] = nil // a context entry with a nil value still overrides the global of the same name
	}
	for f := range files {
		ctx["fname_"+strings.Trim(f, "/.tpl")] = f
	}
	pristineCtx, pristineGlobals := c12CallerData(withGlobals)
	if nilShadow {
		pristineCtx["b"] = nil
	}
	for f := range files {
		pristineCtx["fname_"+strings.Trim(f, "/.tpl")] = f
	}
	set, _ := newSet(files)
	for k, v := range globals {
		set.Globals[k] = v
	}
	tpl, err := set.FromFile("/main.tpl")
	c.Eval(1)
	if err != nil {
		c.Fail("compile-error", D{"main": q(main), "files": files, "error": err.Error()})
		return
	}
	out, xerr := c01Exec(tpl, ctx, r.Intn(4))
	c.Eval(1)
	// caller data must be untouched, whether the execution succeeded or failed
	if !reflect.DeepEqual(map[string]any(ctx), map[string]any(pristineCtx)) {
		c.Fail("caller-context-modified", D{"main": q(main), "files": files, "after": fmt.Sprintf("%v", ctx), "before": fmt.Sprintf("%v", pristineCtx), "globals_empty": !withGlobals})
		return
	}
	if !reflect.DeepEqual(map[string]any(set.Globals), map[string]any(pristineGlobals)) && !(len(set.Globals) == 0 && len(pristineGlobals) == 0) {
		c.Fail("globals-modified", D{"main": q(main), "after": fmt.Sprintf("%v", set.Globals), "before": fmt.Sprintf("%v", pristineGlobals)})
		return
	}
	if failing {
		if xerr == nil {
			c.Fail("missing-error", D{"main": q(main)})
		}
		c.Cover("failed_execution_snapshot_checked")
		return
	}
	if xerr != nil {
		c.Fail("exec-error", D{"main": q(main), "files": files, "error": xerr.Error()})
		return
	}
	// reference
	base := map[string]string{}
	for k, v := range globals {
		if s, ok := v.(string); ok {
			base[k] = s
		}
	}
	for k, v := range ctx {
		if s, ok := v.(string); ok && !strings.HasPrefix(k, "fname_") {
			base[k] = s
		}
		if v == nil {
			base[k] = ""
		}
	}
	in := &sinterp{g: g, macros: map[string]*c12Macro{}, items: []string{"i1", "i2"}, globals: map[string]string{}}
	for k, v := range globals {
		if s, ok := v.(string); ok {
			in.globals[k] = s
		}
	}
	for _, m := range macroDefs {
		in.macros[m.name] = &c12Macro{params: m.params, body: m.body}
	}
	in.root = &senv{vars: map[string]string{}, base: base}
	in.run(tree, in.root)
	want := in.out.String()
	probePart := out
	if len(out) >= len(want) {
		probePart = out[:len(want)]
	}
	if probePart != want {
		c.Fail("scope-mismatch", D{"main": q(main), "files": files, "output": q(out), "expected_prefix": q(want), "globals": fmt.Sprint(globals)})
		return
	}
	for _, t := range []string{"{% with", "{% for", "{% set", "{% include", " only", "{% block", "{% macro", " as "} {
		if strings.Contains(main, t) {
			c.Cover(strings.Trim(t, "{% "))
		}
	}
	c.Nontrivial(main)
	if c.WantSample() && len(src.String()) < 300 {
		c.Sample(D{"program": q(src.String()), "files": files, "output_of_probes": q(want)})
	}
}

func c12KeyValidation(c *C) {
	r := c.R
	bad := []string{"", "a b", "a-b", "a.b", "'illegal", "ä", "a\n", " a", "a ", "1+1", "a/b", "a{", "\x00", "a|b", "a\"", "{{x}}", "x y z", "a,b", "-", "é1", "a\tb"}
	good := []string{"a", "A", "_", "_a", "a1", "1a", "123", "snake_case", "CamelCase", "a_1_B", "x", "__", "pongo2x"}
	// the template that exports the macro is executed stand-alone, or it is a child / grandchild template of an
	// inheritance chain (whose base exports nothing of that name)
	set, _ := newSet(map[string]string{
		"/base.tpl":  "{% block b %}base{% endblock %}",
		"/child.tpl": "{% extends \"/base.tpl\" %}{% macro mm() export %}m{% endmacro %}{% macro local() %}l{% endmacro %}{% block b %}ok{% endblock %}",
		"/mid.tpl":   "{% extends \"/base.tpl\" %}{% block b %}mid{% endblock %}",
		"/leaf.tpl":  "{% extends \"/mid.tpl\" %}{% macro mm() export %}m{% endmacro %}{% block b %}ok{% endblock %}",
	})
	var tpl *pongo2.Template
	var err error
	shape := r.Intn(3)
	switch shape {
	case 0:
		tpl, err = set.FromString("ok{% macro mm() export %}m{% endmacro %}{% macro local() %}l{% endmacro %}")
	case 1:
		tpl, err = set.FromFile("/child.tpl")
	default:
		tpl, err = set.FromFile("/leaf.tpl")
	}
	if err != nil {
		c.Fail("setup", D{"error": err.Error()})
		return
	}
	for i := 0; i < 12; i++ {
		ctx := pongo2.Context{}
		wantRefused := false
		why := ""
		for k := r.Intn(3); k >= 0; k-- {
			if r.Chance(30) {
				key := r.Pick(bad)
				ctx[key] = 1
				wantRefused = true
				why = fmt.Sprintf("key %q is not an identifier", key)
			} else {
				ctx[r.Pick(good)] = "v"
			}
		}
		if r.Chance(20) {
			ctx["mm"] = 1
			wantRefused = true
			why = "key mm clashes with an exported macro"
		}
		out, xerr := c01Exec(tpl, ctx, r.Intn(4))
		c.Eval(1)
		if wantRefused && xerr == nil {
			c.Fail("invalid-key-accepted", D{"context_keys": fmt.Sprintf("%q", keysOf(ctx)), "why": why, "output": out, "template": []string{"stand-alone template exporting mm", "child template exporting mm", "grandchild template exporting mm"}[shape]})
			return
		}
		if !wantRefused && (xerr != nil || out != "ok") {
			c.Fail("valid-key-refused", D{"context_keys": fmt.Sprintf("%q", keysOf(ctx)), "error": errStr(xerr), "output": out})
			return
		}
		c.Nontrivial(fmt.Sprintf("keys:%q", keysOf(ctx)))
	}
	c.Cover("key_validation")
}

func keysOf(ctx pongo2.Context) []string {
	var out []string
	for k := range ctx {
		out = append(out, k)
	}
	return out
}

func init() {
	register(&Prop{
		ID: "C12",
		Cases: func(tier string) int {
			if tier == "thorough" {
				return 1000000
			}
			return 60000
		},
		Run: c12Run,
		Rule: "random nestings (depth <= 4) of with (both styles, 1-2 pairs), for, set, if (taken / not taken), block, macro definitions and calls, include (static/lazy, with pairs, only, nested) binding names from a pool of four that also exist as context keys and as set globals; a probe [name={{ name }}] is placed before, inside and after every construct and the whole output is compared with a reference environment model (tag-bound > context > globals; with-pairs evaluated outside; one scope per loop; include sees everything visible or only the pairs); " +
			"every program additionally sorts, reverses, slices and iterates caller slices/maps/struct fields and shadows caller names, and the caller's Context map and the set's Globals are compared (reflect.DeepEqual against a pristine copy) after every execution, successful or failing, with and without globals; one case in eight feeds random valid/invalid context keys and keys clashing with an exported macro. distinct_nontrivial = distinct programs judged.",
		MinNontriv:  5000,
		Assumptions: []string{"macro bodies refer only to their parameters, to names they bind themselves and to names no tag binds (what a macro sees of its definition site is unspecified)", "inside an 'only' include the pairs, names bound inside and the names of globals are probed (context entries are not passed on, globals are visible in every template)"},
	})
}
