package main

import (
	"fmt"
	"github.com/flosch/pongo2/v6"
	"io"
	"runtime"
	"strings"
	"sync"
	"time"
)

// C05 - one compiled template can be executed from many goroutines at once.
// Runs in the -race worker; the driver parses the race detector's log files.

// c05RaceOnly executes programs with documented non-determinism (random, now, lorem random, unsorted maps)
// concurrently: their outputs cannot be compared, but the race detector (and the absence of panics) still judges them.
func c05RaceOnly(c *C) {
	r := c.R
	g := newGen(r, GenOpts{Filters: c01Filters, MaxDepth: 3, ErrorRate: 2, CtxVars: detCtxVars, CtxVarBias: 60})
	main, files := g.program()
	main += r.Pick([]string{"{% lorem 5 w random %}", "{% lorem 2 p random %}", "{{ z_ints|random }}{{ z_str|random }}", "{% now \"15:04:05\" %}", "{% for k, v in z_map %}{{ k }}{% endfor %}", "{% lorem 3 b random %}{{ lst|random }}"})
	main += "{% lorem 4 w random %}"
	inc := files["#incname"]
	delete(files, "#incname")
	files["/main.tpl"] = main
	set, _ := newSet(files)
	tpl, err := set.FromFile("/main.tpl")
	c.Eval(1)
	if err != nil {
		c.Cover("rejected")
		return
	}
	k := []int{2, 4, 8}[r.Intn(3)]
	iters := 10 + r.Intn(20)
	var wg sync.WaitGroup
	start := make(chan struct{})
	for g := 0; g < k; g++ {
		gr := r.Fork()
		wg.Add(1)
		go func(gr *Rng) {
			defer wg.Done()
			pool := detPool(inc, func() { runtime.Gosched() })
			<-start
			for it := 0; it < iters; it++ {
				detExec(tpl, pool[gr.Intn(len(pool))], gr.Intn(4))
			}
		}(gr)
	}
	close(start)
	wg.Wait()
	c.Eval(k * iters)
	c.AddExtra("concurrent_executions_observed", int64(k*iters))
	c.Cover("race_only_nondeterministic_program")
	c.Nontrivial("raceonly:" + main)
}

// c05FirstUse: the first use of every registered filter and of a template over most tags happens on 16 goroutines at
// once in every (race-detector) worker process: whatever the engine builds lazily on first use is built under contention.
func c05FirstUse() {
	c01Init()
	samples := []any{"abc <b>x</b> 1.5 é\n", 3, 2.5, []string{"b", "a"}, nil}
	start := make(chan struct{})
	var wg sync.WaitGroup
	src := "{% for i in l %}{% cycle 1 2 %}{% ifchanged i %}c{% endifchanged %}{{ i|upper|escapejs|urlencode }}{% endfor %}{% with a=1 %}{{ a|add:1|floatformat:2 }}{% endwith %}{% macro m(x) %}{{ x|title }}{% endmacro %}{{ m(\"q\") }}{% filter lower|capfirst %}F{% endfilter %}{% spaceless %}<a> <b>{% endspaceless %}{% widthratio 1 2 3 %}{% firstof 0 \"x\" %}{% templatetag openblock %}{% lorem 2 w %}{% now \"2006\" fake %}{% autoescape off %}{{ \"<\"|safe }}{% endautoescape %}{% if 1 in l and not 0 %}y{% endif %}{{ \"a\\\"b\" }}"
	for g := 0; g < 16; g++ {
		wg.Add(1)
		go func(g int) {
			defer wg.Done()
			defer func() { recover() }()
			<-start
			for _, f := range c01Filters {
				pongo2.ApplyFilter(f, pongo2.AsValue(samples[(g+len(f))%len(samples)]), pongo2.AsValue(2))
			}
			set, _ := newSet(emptySetFiles)
			if tpl, err := set.FromString(src); err == nil {
				tpl.Execute(pongo2.Context{"l": []int{1, 1, 2}})
			}
		}(g)
	}
	close(start)
	wg.Wait()
}

// c05DeepRecursion: k goroutines execute ONE compiled template whose macro recursion terminates at depth d (k*d far
// beyond any per-execution bound); a context function at the bottom keeps every goroutine at full depth until all of
// them arrived (or one gave up). Each must return what it returns alone.
func c05DeepRecursion(c *C) {
	r := c.R
	k := 3 + r.Intn(6)
	d := r.Pick2([]int{150, 400, 700})
	imported := r.Bool()
	lib := "{% macro rec(n, tag) export %}{% if n > 0 %}<{{ rec(n - 1, tag) }}>{% else %}[{{ hold() }}{{ tag }}]{% endif %}{% endmacro %}"
	files := map[string]string{"/lib.tpl": lib, "/main.tpl": strings.Replace(lib, " export", "", 1) + "{{ rec(d, tag) }}"}
	if imported {
		files["/main.tpl"] = "{% import \"/lib.tpl\" rec %}{{ rec(d, tag) }}"
	}
	set, _ := newSet(files)
	tpl, err := set.FromFile("/main.tpl")
	if err != nil {
		c.Fail("fresh-compile-failed", D{"files": files, "error": err.Error()})
		return
	}
	want := func(tag string) string {
		return strings.Repeat("<", d) + "[" + tag + "]" + strings.Repeat(">", d)
	}
	if solo, serr := tpl.Execute(pongo2.Context{"d": d, "tag": "solo", "hold": func() string { return "" }}); serr != nil || solo != want("solo") {
		c.Fail("concurrent-result-differs", D{"files": files, "depth": d, "why": "single execution, no concurrency", "output": q(truncStr(solo, 200)), "error": errStr(serr)})
		return
	}
	var mu sync.Mutex
	arrived := 0
	all, abort := make(chan struct{}), make(chan struct{})
	var abortOnce sync.Once
	hold := func() string {
		mu.Lock()
		arrived++
		if arrived == k {
			close(all)
		}
		mu.Unlock()
		select {
		case <-all:
		case <-abort:
		}
		return ""
	}
	type res struct {
		out string
		err error
	}
	results := make([]res, k)
	var wg sync.WaitGroup
	for g := 0; g < k; g++ {
		wg.Add(1)
		go func(g int) {
			defer wg.Done()
			out, xerr := c01Exec(tpl, pongo2.Context{"d": d, "tag": fmt.Sprintf("g%d", g), "hold": hold}, g%4)
			results[g] = res{out, xerr}
			if xerr != nil {
				abortOnce.Do(func() { close(abort) }) // nobody waits for a goroutine that will never arrive
			}
		}(g)
	}
	wg.Wait()
	c.Eval(k)
	for g, rs := range results {
		if rs.err != nil || rs.out != want(fmt.Sprintf("g%d", g)) {
			c.Fail("concurrent-result-differs", D{"files": files, "goroutines": k, "recursion_depth_of_each": d, "imported": imported, "goroutine": g, "output": q(truncStr(rs.out, 200)), "error": errStr(rs.err),
				"why": "all goroutines were at the bottom of their (terminating) macro recursion at the same moment; alone the execution succeeds"})
			return
		}
	}
	c.Cover("concurrent_deep_terminating_recursion")
	c.Nontrivial(fmt.Sprintf("deeprec:%d:%d:%v", k, d, imported))
}

// c05GateLoader: a loader whose fetches of gated names wait until the harness lets them go.
type c05GateLoader struct {
	mu      sync.Mutex
	content map[string]string
	gets    map[string]int
	gate    map[string]chan struct{}
	inGet   chan string
}

func (l *c05GateLoader) Abs(base, name string) string { return name }
func (l *c05GateLoader) Get(p string) (io.Reader, error) {
	l.mu.Lock()
	s, ok := l.content[p]
	l.gets[p]++
	g := l.gate[p]
	l.mu.Unlock()
	if g != nil {
		select {
		case l.inGet <- p:
		default:
		}
		<-g
	}
	if !ok {
		return nil, fmt.Errorf("c05GateLoader: no template %q", p)
	}
	return strings.NewReader(s), nil
}

// c05CacheOverlap: fetching from one set at the same time. (1) k goroutines ask FromCache for a name whose load is slow:
// one load, one template for all. (2) While a FromCache call is loading the old source of a name, the source changes and
// CleanCache(name) is called and returns: whoever asks afterwards gets the new source.
func c05CacheOverlap(c *C) {
	r := c.R
	l := &c05GateLoader{content: map[string]string{"/x.tpl": "old {{ v }}", "/y.tpl": "y {{ v }}"}, gets: map[string]int{}, gate: map[string]chan struct{}{}, inGet: make(chan string, 64)}
	set := pongo2.NewSet("c05-cache-overlap", l)
	// (1)
	k := 2 + r.Intn(7)
	gateY := make(chan struct{})
	l.gate["/y.tpl"] = gateY
	tpls := make([]*pongo2.Template, k)
	var wg sync.WaitGroup
	for g := 0; g < k; g++ {
		wg.Add(1)
		go func(g int) {
			defer wg.Done()
			tpls[g], _ = set.FromCache("/y.tpl")
		}(g)
	}
	<-l.inGet // the first load is under way
	for i := 0; i < 200; i++ {
		runtime.Gosched() // let the others arrive (they wait for the first one, or - wrongly - start loads of their own)
	}
	close(gateY)
	wg.Wait()
	c.Eval(k)
	l.mu.Lock()
	getsY := l.gets["/y.tpl"]
	l.mu.Unlock()
	distinct := map[*pongo2.Template]bool{}
	for _, t := range tpls {
		distinct[t] = true
	}
	if getsY != 1 || len(distinct) != 1 || tpls[0] == nil {
		c.Fail("concurrent-result-differs", D{"what": fmt.Sprintf("%d goroutines called FromCache(\"/y.tpl\") while the first load was in progress", k), "loader_fetches": getsY, "distinct_templates_returned": len(distinct),
			"why": "alone each call returns THE cached template of the name, compiled once"})
		return
	}
	// (2)
	gateX := make(chan struct{})
	l.mu.Lock()
	l.gate["/x.tpl"] = gateX
	l.mu.Unlock()
	doneA := make(chan *pongo2.Template, 1)
	go func() {
		t, _ := set.FromCache("/x.tpl")
		doneA <- t
	}()
	<-l.inGet // A is loading the old source
	l.mu.Lock()
	l.content["/x.tpl"] = "new {{ v }}"
	l.gate["/x.tpl"] = nil
	l.mu.Unlock()
	cleaned := make(chan struct{})
	go func() {
		set.CleanCache("/x.tpl")
		close(cleaned)
	}()
	// CleanCache either returns at once or waits for the load in progress; the load is let go after it returned or after
	// a short while (the sleep only steers the interleaving: the expected result below is the same for every timing)
	select {
	case <-cleaned:
	case <-time.After(time.Duration(2+r.Intn(20)) * time.Millisecond):
	}
	close(gateX)
	tA := <-doneA
	<-cleaned
	after, err := set.FromCache("/x.tpl")
	c.Eval(3)
	out := ""
	if err == nil {
		out, _ = after.Execute(pongo2.Context{"v": 1})
	}
	if err != nil || out != "new 1" {
		outA := ""
		if tA != nil {
			outA, _ = tA.Execute(pongo2.Context{"v": 1})
		}
		c.Fail("concurrent-result-differs", D{"history": []string{"A: FromCache(/x.tpl) starts loading the source \"old {{ v }}\"", "the source changes to \"new {{ v }}\"", "B: CleanCache(/x.tpl) is called and returns", "A's load is let go and returns (renders " + q(outA) + ")", "FromCache(/x.tpl) after both returned"},
			"output": q(out), "expected": q("new 1"), "error": errStr(err), "why": "a call made after CleanCache(name) returned must not be served what was loaded from the source as it was before"})
		return
	}
	c.Cover("cache_overlap_single_load_and_clean_during_load")
	c.Nontrivial(fmt.Sprintf("cacheoverlap:%d", k))
}

// c05LazyNames: ONE compiled template whose computed-name includes ({% include name %}, in a loop, with `with`/`only`/
// `if_exists`) are executed by k goroutines at once with DIFFERENT names per execution, while the loader delays every
// fetch a little (an injected delay at the loader, i.e. between whatever critical sections the engine has around
// loading and compiling). Each execution returns what it returns alone; and when everything has come to rest, executing
// with each name once more still gives that name's text (state left behind by overlapping loads shows here).
func c05LazyNames(c *C) {
	r := c.R
	nfiles := 3 + r.Intn(3)
	files := map[string]string{}
	names := []string{}
	for i := 0; i < nfiles; i++ {
		n := fmt.Sprintf("/n%d.tpl", i)
		names = append(names, n)
		files[n] = fmt.Sprintf("<N%d:{{ s }}:{{ w }}>", i)
		if i > 0 && r.Chance(30) {
			files[n] += fmt.Sprintf("{%% include %q %%}", names[r.Intn(i)]) // a static include below a computed one
		}
	}
	files["/dir/rel.tpl"] = "<REL:{{ s }}>"
	files["/dir/main2.tpl"] = "{% include relname %}|{% include pick %}"
	files["/main.tpl"] = "{% include pick %}|{% for n in order %}{% include n %};{% endfor %}|{% include pick with w=\"W\" %}|{% include pick with w=s only %}|{% include missing if_exists %}|{% include pick if_exists %}|{% include pick|default:\"/n0.tpl\" %}"
	mkSet := func(delay bool, gr *Rng) *pongo2.TemplateSet {
		set, l := newSet(files)
		if delay {
			var mu sync.Mutex
			l.onGet = func(string) error {
				mu.Lock()
				k := gr.Intn(4)
				d := gr.Intn(300)
				mu.Unlock()
				switch k {
				case 0:
					runtime.Gosched()
				case 1:
					time.Sleep(time.Duration(d) * time.Microsecond)
				}
				return nil
			}
		}
		return set
	}
	type cx struct {
		pick  string
		order []string
		s     string
	}
	var ctxs []cx
	for i := 0; i < 2*nfiles; i++ {
		o := append([]string(nil), names...)
		for j := len(o) - 1; j > 0; j-- {
			k := r.Intn(j + 1)
			o[j], o[k] = o[k], o[j]
		}
		ctxs = append(ctxs, cx{names[i%nfiles], o[:1+r.Intn(len(o))], fmt.Sprintf("s%d", i)})
	}
	mkCtx := func(x cx) pongo2.Context {
		return pongo2.Context{"pick": x.pick, "order": x.order, "s": x.s, "missing": "/nosuch.tpl", "relname": "rel.tpl"}
	}
	entry := r.Pick([]string{"/main.tpl", "/dir/main2.tpl"})
	// sequential references: fresh set, fresh compile, one execution
	refs := make([]execResult, len(ctxs))
	for i, x := range ctxs {
		t, err := mkSet(false, nil).FromFile(entry)
		if err != nil {
			c.Fail("fresh-compile-failed", D{"files": files, "error": err.Error()})
			return
		}
		refs[i] = detExec(t, mkCtx(x), 0)
		if refs[i].err != "" {
			c.Fail("fresh-compile-failed", D{"files": files, "error": refs[i].err, "why": "the sequential reference execution failed"})
			return
		}
	}
	procs := []int{2, 4, 16}[r.Intn(3)]
	old := runtime.GOMAXPROCS(procs)
	defer runtime.GOMAXPROCS(old)
	set := mkSet(true, r.Fork())
	shared, err := set.FromFile(entry)
	if err != nil {
		c.Fail("fresh-compile-failed", D{"files": files, "error": err.Error()})
		return
	}
	k := []int{2, 4, 8, 16}[r.Intn(4)]
	iters := 6 + r.Intn(10)
	if c.Thorough() {
		iters = 10 + r.Intn(40)
	}
	type miss struct {
		g, it, ci int
		phase     string
		got       execResult
	}
	var mu sync.Mutex
	var mm []miss
	var wg sync.WaitGroup
	start := make(chan struct{})
	for g := 0; g < k; g++ {
		gr := r.Fork()
		wg.Add(1)
		go func(g int, gr *Rng) {
			defer wg.Done()
			<-start
			for it := 0; it < iters; it++ {
				ci := (g + it*(1+g%3) + gr.Intn(2)) % len(ctxs)
				got := detExec(shared, mkCtx(ctxs[ci]), gr.Intn(4))
				if got != refs[ci] {
					mu.Lock()
					if len(mm) < 3 {
						mm = append(mm, miss{g, it, ci, "concurrent", got})
					}
					mu.Unlock()
				}
			}
		}(g, gr)
	}
	close(start)
	wg.Wait()
	c.Eval(k * iters)
	// at rest: every context once more, twice
	for round := 0; round < 2 && len(mm) == 0; round++ {
		for ci := range ctxs {
			got := detExec(shared, mkCtx(ctxs[ci]), round)
			c.Eval(1)
			if got != refs[ci] {
				mm = append(mm, miss{-1, round, ci, "afterwards, one execution at a time", got})
				break
			}
		}
	}
	if len(mm) > 0 {
		m := mm[0]
		c.Fail("concurrent-result-differs", D{"files": files, "entry": entry, "goroutines": k, "iterations": iters, "GOMAXPROCS": procs, "phase": m.phase, "operation": "execute-shared (computed include names differ between the concurrent executions; the loader delays fetches by 0-300us)",
			"context": D{"pick": ctxs[m.ci].pick, "order": ctxs[m.ci].order, "s": ctxs[m.ci].s}, "observed": D{"out": q(truncStr(m.got.out, 600)), "err": m.got.err}, "sequential_reference": D{"out": q(truncStr(refs[m.ci].out, 600)), "err": refs[m.ci].err}, "mismatches": len(mm)})
		return
	}
	c.Cover("computed_include_names_differ_between_goroutines")
	c.AddExtra("concurrent_executions_observed", int64(k*iters))
	c.Nontrivial(fmt.Sprintf("lazynames:%d:%d:%s:%v", k, nfiles, entry, ctxs[0].order))
}

func c05Run(c *C) {
	if c.Idx%40 == 33 {
		c05CacheOverlap(c)
		return
	}
	if c.Idx%20 == 3 {
		c05LazyNames(c)
		return
	}
	if c.Idx%40 == 13 {
		c05DeepRecursion(c)
		return
	}
	if c.Idx%5 == 4 {
		c05RaceOnly(c)
		return
	}
	r := c.R
	p := detProgram(r)
	opt := r.Intn(4)
	onSet := r.Bool()
	viaCache := r.Chance(30)
	procs := []int{2, 4, 16}[r.Intn(3)]
	old := runtime.GOMAXPROCS(procs)
	defer runtime.GOMAXPROCS(old)

	shared, set, err := detCompile(p, opt, onSet, viaCache)
	c.Eval(1)
	if err != nil {
		c.Cover("rejected")
		return
	}
	// sequential reference: fresh compile, single execution, per pool context
	npool := len(detPool(p.inc, nil))
	refs := make([]execResult, npool)
	for i := 0; i < npool; i++ {
		fresh, _, ferr := detCompile(p, opt, onSet, false)
		if ferr != nil {
			c.Fail("fresh-compile-failed", D{"main": q(p.main), "error": ferr.Error()})
			return
		}
		refs[i] = detExec(fresh, detPool(p.inc, nil)[i], 0)
	}
	// a second, string-born template compiled concurrently in the same set
	const strSrc = "S:{{ s }}|{% for i in lst %}{% cycle 1 2 %}{% ifchanged i %}c{% endifchanged %}{% endfor %}|{{ \"q\\\"uo\\\\te\" }}{{ \"b\\\\s\"|length }}|{{ 10 / d }}"
	refsStr := make([]execResult, npool)
	for i := 0; i < npool; i++ {
		fs, _ := newSet(p.files)
		if t, e := fs.FromString(strSrc); e == nil {
			refsStr[i] = detExec(t, detPool(p.inc, nil)[i], 0)
		}
	}
	// a third template, the same source in every case, compiled once here and shared by all goroutines: the rarely used
	// call conventions and parameter forms in one place (context functions taking the *ExecutionContext with 0, 3, 5 and
	// variadic arguments, list-literal parameters, macro defaults, methods and fields of records whose Go type differs
	// from context to context)
	const fixedSrc = "{{ f_ctx3(s, \"b\", s) }}|{{ f_ctx5(s, 1, 2, n, 4) }}|{{ f_ctxv(1, n, 3) }}|{{ f_ctxv() }}|{{ f_ctxv(1, 2, 3, 4, 5, 6, n) }}|{{ \"\"|default:[s, n]|join:\"-\" }}|" +
		"{% macro fm(a, b=s, c=n) %}{{ a }}{{ b }}{{ c }}{% endmacro %}{{ fm(1) }}{{ fm(s, n) }}|{{ rec.Label }}|{{ rec.Name }}|{{ rec.PLabel }}|{{ twin.Name }}{{ twin.Note }}|{{ lst|join:s }}|{{ s|slice:\"1:\" }}|{{ z_struct.Name }}|" +
		"{% for x in lst %}{{ f_ctx3(x, s, x) }}{{ rec.Label }}{% endfor %}|{% with w=rec %}{{ w.Label }}{{ w.Email }}{% endwith %}"
	var fixedShared *pongo2.Template
	refsFixed := make([]execResult, npool)
	{
		fset, _ := newSet(p.files)
		fixedShared, _ = fset.FromString(fixedSrc)
		for i := 0; i < npool && fixedShared != nil; i++ {
			fs, _ := newSet(p.files)
			if t, e := fs.FromString(fixedSrc); e == nil {
				refsFixed[i] = detExec(t, detPool(p.inc, nil)[i], 0)
			}
		}
	}
	// block by block through ExecuteBlocks, all goroutines passing the SAME names slice (it is only read by the engine)
	blockNamesOrig := []string{"b1", "b1", "b2", "b1", "inner", "b2", "nosuchblock", "inner", "b1"}
	sharedNames := append([]string(nil), blockNamesOrig...)
	refsBlocks := make([]string, npool)
	for i := 0; i < npool; i++ {
		if fresh, _, ferr := detCompile(p, opt, onSet, false); ferr == nil {
			m, berr := fresh.ExecuteBlocks(detPool(p.inc, nil)[i], append([]string(nil), blockNamesOrig...))
			refsBlocks[i] = fmt.Sprint(m, errStr(berr))
		}
	}
	k := []int{2, 4, 8, 16}[r.Intn(4)]
	iters := 10 + r.Intn(30)
	if c.Thorough() {
		iters = 20 + r.Intn(180)
	}
	var wg sync.WaitGroup
	start := make(chan struct{})
	type mismatch struct {
		g, it, ctx int
		op         string
		got, want  execResult
	}
	var mu sync.Mutex
	var mm []mismatch
	total := 0
	for g := 0; g < k; g++ {
		gr := r.Fork()
		wg.Add(1)
		go func(g int, gr *Rng) {
			defer wg.Done()
			yield := func() {
				switch gr.Intn(4) {
				case 0:
					runtime.Gosched()
				case 1:
					time.Sleep(time.Duration(gr.Intn(200)) * time.Microsecond)
				}
			}
			pool := detPool(p.inc, yield) // this goroutine's own Context maps; the values are shared and immutable
			<-start
			for it := 0; it < iters; it++ {
				ci := gr.Intn(len(pool))
				tpl := shared
				op := "execute-shared"
				switch gr.Intn(10) {
				case 0:
					if t, e := set.FromCache("/main.tpl"); e == nil {
						tpl, op = t, "FromCache+execute"
						if !onSet {
							tpl = shared // a cached template compiled here carries the set's options, not the per-template ones
						}
					}
				case 1:
					if t, e := set.FromFile("/main.tpl"); e == nil && onSet {
						tpl, op = t, "FromFile+execute"
					}
				case 2:
					if t, e := set.FromString(strSrc); e == nil {
						tpl, op = t, "FromString+execute"
					}
				case 3, 4:
					if fixedShared != nil {
						tpl, op = fixedShared, "execute-shared-fixed-template"
					}
				case 5:
					// the cache is emptied (all of it, or one name) while others fetch from it
					if gr.Bool() {
						set.CleanCache()
					} else {
						set.CleanCache("/main.tpl", "/nosuch.tpl")
					}
				}
				if gr.Intn(8) == 0 && onSet {
					m, berr := shared.ExecuteBlocks(pool[ci], sharedNames)
					if gb := fmt.Sprint(m, errStr(berr)); gb != refsBlocks[ci] {
						mu.Lock()
						if len(mm) < 3 {
							mm = append(mm, mismatch{g, it, ci, "ExecuteBlocks(shared names slice)", execResult{gb, ""}, execResult{refsBlocks[ci], ""}})
						}
						mu.Unlock()
					}
					continue
				}
				got, rawErr := detExecErr(tpl, pool[ci], gr.Intn(4))
				if rawErr != nil {
					if why := detErrorInSources(rawErr, p, map[string]string{"<string>": map[bool]string{false: strSrc, true: fixedSrc}[op == "execute-shared-fixed-template"]}); why != "" {
						mu.Lock()
						if len(mm) < 3 {
							mm = append(mm, mismatch{g, it, ci, op + " (error position: " + why + ")", got, refs[ci]})
						}
						mu.Unlock()
					}
				}
				want := refs[ci]
				if op == "FromString+execute" {
					want = refsStr[ci]
				}
				if op == "execute-shared-fixed-template" {
					want = refsFixed[ci]
				}
				if got != want {
					mu.Lock()
					if len(mm) < 3 {
						mm = append(mm, mismatch{g, it, ci, op, got, want})
					}
					mu.Unlock()
				}
			}
		}(g, gr)
		total += iters
	}
	close(start)
	wg.Wait()
	c.Eval(total)
	if fmt.Sprint(sharedNames) != fmt.Sprint(blockNamesOrig) {
		c.Fail("concurrent-result-differs", D{"main": q(p.main), "operation": "ExecuteBlocks", "why": "the caller's slice of block names was modified", "names_passed": blockNamesOrig, "names_afterwards": sharedNames})
		return
	}
	if len(mm) > 0 {
		m := mm[0]
		c.Fail("concurrent-result-differs", D{"main": q(p.main), "files": p.files, "goroutines": k, "iterations": iters, "GOMAXPROCS": procs, "TrimBlocks": opt&1 == 1, "LStripBlocks": opt&2 == 2,
			"operation": m.op, "context": m.ctx, "observed": D{"out": q(truncStr(m.got.out, 600)), "err": m.got.err}, "sequential_reference": D{"out": q(truncStr(m.want.out, 600)), "err": m.want.err}, "mismatches": len(mm)})
		return
	}
	c.Cover(fmt.Sprintf("goroutines_%d", k))
	c.Cover(fmt.Sprintf("gomaxprocs_%d", procs))
	c.AddExtra("concurrent_executions_observed", int64(total))
	c.Nontrivial(p.main)
	if c.WantSample() && len(p.main) < 250 {
		c.Sample(D{"main": q(p.main), "goroutines": k, "iterations_each": iters, "GOMAXPROCS": procs, "via_cache": viaCache})
	}
}

func init() {
	register(&Prop{
		ID:   "C05",
		Race: true,
		Init: c05FirstUse,
		Cases: func(tier string) int {
			if tier == "thorough" {
				return 6000
			}
			return 480
		},
		Run:         c05Run,
		CaseTimeout: 120,
		Rule: "race-detector build of the worker: per case one deterministic program (same generator as C04: every tag, static and lazy includes, imported macros, inheritance, cycle/ifchanged, TrimBlocks/LStripBlocks) is compiled once and executed by k in {2,4,8,16} goroutines x 10..40 (quick) / 20..200 (thorough) iterations under GOMAXPROCS in {2,4,16}, mixing the four Execute entry points with FromCache/FromFile/FromString on the same set; " +
			"every goroutine passes its own Context map (shared immutable values), context functions yield or sleep 0-200us at random. Oracle: (1) zero race reports with a pongo2 frame in the GORACE logs (reports de-duplicated by the innermost engine frames), (2) every concurrent result equals the sequential reference (fresh compile, single execution) and every error position lies in the program's own sources; one case in five runs a program with documented non-determinism (random, now, lorem random, unsorted map iteration) concurrently, judged by the race detector only. distinct_nontrivial = distinct programs executed concurrently.",
		MinNontriv:  100,
		Assumptions: []string{"only the dynamic half of the property is decided", "documented caller obligations are respected (no concurrent writes to Debug/Globals/Options, no registration during execution)", "Go race detector: no false positives, schedule dependent"},
	})
}
