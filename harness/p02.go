package main

import (
	"encoding/json"
	"errors"
	"fmt"
	"regexp"
	"strings"

	"github.com/flosch/pongo2/v6"
)

// C02 - autoescape: context strings never reach the output unescaped.
// Information-flow monitor: every string leaf of the context is a marker made of < > & ' ";
// template text is generated free of these characters; any raw special in the output is a leak.

const c02Marker = "mk<&'\">x"

var rePlaceholder = regexp.MustCompile(`<[^<>&'"]* Value>`)

func maxInt(a, b int) int {
	if a > b {
		return a
	}
	return b
}

func minInt(a, b int) int {
	if a < b {
		return a
	}
	return b
}

var reEntity = regexp.MustCompile(`&(amp;|lt;|gt;|quot;|#39;)`)

// c02Leak returns a description of raw marker material in out ("" = none).
func c02Leak(out string, relaxAmp bool) string {
	s := rePlaceholder.ReplaceAllString(out, "")
	if relaxAmp {
		// Programs using the filter tag: the chain works on already rendered text, so it can mangle the
		// engine's own '<type Value>' placeholder (lower, phone2numeric, cut ...). A lone < or > is therefore
		// not judged there (the chain can also interleave placeholder and body, e.g. join); raw quotes, which only the marker can contribute, still are.
		if i := strings.IndexAny(s, "'\""); i >= 0 {
			return "raw quote in filter-tag program near ..." + s[maxInt(0, i-20):minInt(len(s), i+20)] + "..."
		}
		return ""
	}
	if i := strings.IndexAny(s, "<>'\""); i >= 0 {
		lo, hi := i-20, i+20
		if lo < 0 {
			lo = 0
		}
		if hi > len(s) {
			hi = len(s)
		}
		return "raw " + string(s[i]) + " in ..." + s[lo:hi] + "..."
	}
	if !relaxAmp {
		t := reEntity.ReplaceAllString(s, "")
		if i := strings.IndexByte(t, '&'); i >= 0 {
			return "raw & that does not start one of the five entities"
		}
	}
	return ""
}

// KNOWN FINDING (C02 filtertag-struct-param, see KNOWN_FINDINGS.txt): inside a filter tag, a context value that is a
// struct (nothing the engine can escape structurally) given as a filter parameter and then printed field by field
// by stringformat reaches the output raw. The shape is recognised narrowly: a filter tag whose chain has a
// non-literal parameter and a stringformat. A leak is attributed to the finding only if it disappears when the
// stringformat calls of those tags are neutralised.
var reFilterTag = regexp.MustCompile(`(?s)\{%-?\s*filter\s.*?%\}`)
var reVarParam = regexp.MustCompile(`:\s*[A-Za-z_\[(]`)

func c02KnownShape(src string) bool {
	for _, tag := range reFilterTag.FindAllString(src, -1) {
		if strings.Contains(tag, "stringformat") && reVarParam.MatchString(tag) {
			return true
		}
	}
	return false
}

func c02Neutralise(src string) string {
	return reFilterTag.ReplaceAllStringFunc(src, func(tag string) string {
		if strings.Contains(tag, "stringformat") && reVarParam.MatchString(tag) {
			return strings.ReplaceAll(tag, "stringformat", "cut")
		}
		return tag
	})
}

// c02Attributed reports whether a leak seen in the rendering of files[entry] is the known finding.
func c02Attributed(files map[string]string, entry string, ctx pongo2.Context, relax bool) bool {
	known := false
	neutral := map[string]string{}
	for k, v := range files {
		if c02KnownShape(v) {
			known = true
		}
		neutral[k] = c02Neutralise(v)
	}
	if !known {
		return false
	}
	set, _ := newSet(neutral)
	tpl, err := set.FromFile(entry)
	if err != nil {
		return false
	}
	out, xerr := tpl.Execute(ctx)
	return xerr == nil && c02Leak(out, relax) == ""
}

func c02Finding(c *C, spec map[string]any) bool {
	src, _ := spec["source"].(string)
	out, cerr, xerr := renderString(src, c02Ctx(false))
	return cerr == nil && xerr == nil && strings.Contains(out, c02Marker)
}

type c02Stringer struct{ s string }

func (s c02Stringer) String() string { return s.s }

// c02PStringer prints as text only through a pointer (pointer-receiver String); as a plain value it is a struct
type c02PStringer struct{ s string }

func (p *c02PStringer) String() string { return p.s }

// Stringers of numeric and bool kinds (enums with labels): printed through String(), so they are text like any other
type c02Enum int

func (e c02Enum) String() string { return "enum " + c02Marker }

type c02Flag bool

func (f c02Flag) String() string { return "flag " + c02Marker }

type c02Ratio float64

func (f c02Ratio) String() string { return "ratio " + c02Marker }

func c02Ctx(swapped bool) pongo2.Context {
	ctx := zooContext(c02Marker)
	delete(ctx, "f_safe")
	m := c02Marker
	ctx["t1"] = m
	ctx["t2"] = "second " + m
	ctx["tl"] = []string{m, "b" + m}
	ctx["tm"] = map[string]string{"k" + m: "v" + m, "a": m}
	ctx["ts"] = c02Stringer{m}
	ctx["tf"] = func() string { return m }
	ctx["tfa"] = func(a string) any { return a + m }
	ctx["tany"] = any(m)
	ctx["tenum"] = c02Enum(3)
	ctx["tflag"] = c02Flag(true)
	ctx["tratio"] = c02Ratio(1.5)
	ctx["tenums"] = []any{c02Enum(1), c02Flag(false), c02Ratio(0)}
	ctx["tpv"] = c02PStringer{m}
	ctx["tpp"] = &c02PStringer{m}
	ctx["tpl"] = []any{c02PStringer{m}, &c02PStringer{"p" + m}, c02PStringer{m}}
	ctx["tfv"] = func() *pongo2.Value { return pongo2.AsValue(m) }
	ctx["tfva"] = func(a any) *pongo2.Value { return pongo2.AsValue(fmt.Sprint(a) + m) }
	// values that print as a Go type name today (byte slices in every wrapping, named byte slices, byte arrays): should
	// they ever print as text, that text is context text like any other
	ctx["tbytes"] = []byte(m)
	ctx["tpbytes"] = &[]byte{'p', '<', '&', '\'', '"', '>'}
	ctx["traw"] = json.RawMessage(m)
	ctx["tbyteholder"] = map[string]any{"b": []byte(m), "l": [][]byte{[]byte(m)}}
	ctx["terr"] = fmt.Errorf("wrapped %w", errors.New(m))
	ctx["trunes"] = []rune(m)
	ctx["tstruct"] = struct {
		Field string
		List  []any
	}{m, []any{m, 1}}
	if swapped {
		// same names, but the safe and the tainted values trade places: a decision remembered from
		// an execution with this context must not carry over to the next one
		ctx["t1"] = pongo2.AsSafeValue("safe-text")
		ctx["t2"] = pongo2.AsSafeValue("more safe text")
		ctx["ts"] = pongo2.AsSafeValue("safe stringer")
		ctx["tany"] = pongo2.AsSafeValue("safe any")
		ctx["z_str"] = pongo2.AsSafeValue("safe z")
		ctx["z_safevalue"] = m
		ctx["tl"] = []any{pongo2.AsSafeValue("s1"), pongo2.AsSafeValue("s2")}
	}
	return ctx
}

var c02CtxVars = []string{"t1", "t2", "tl", "tm", "ts", "tf()", "tenum", "tflag", "tratio", "tenums.0", "tenums.1", "tenums.2", "tpv", "tpp", "tpl.0", "tpl.1", "tfa(t1)", "tfv()", "tfva(t2)", "tfva(1)", "tany", "tstruct.Field", "tstruct.List", "tl.0", "tm.a", "z_str", "z_stringer", "z_safevalue", "tbytes", "tpbytes", "traw", "tbyteholder.b", "tbyteholder.l.0", "terr", "trunes"}

var c02OptOutFilters = map[string]bool{"safe": true, "truncatechars_html": true, "truncatewords_html": true}
var c02MarkupFilters = map[string]bool{"urlize": true, "urlizetrunc": true, "linebreaks": true, "linebreaksbr": true}

func c02SweepForms(filter string) []string {
	p := ""
	if ps, ok := genParamFilters[filter]; ok {
		if len(ps) > 0 {
			p = ":" + ps[0]
		} else {
			p = ":\"lit\""
		}
	}
	forms := []string{
		"{{ t1|" + filter + p + " }}",
		"{{ t1|" + filter + ":t2 }}",
		"{{ \"lit\"|" + filter + ":t1 }}",
		"{{ tl|" + filter + p + " }}",
		"{{ tl|" + filter + ":t1 }}",
		"{{ ts|" + filter + p + " }}",
		"{% for i in tl|" + filter + p + " %}{{ i }}{% endfor %}",
		"{% for i in t1|" + filter + p + " %}{{ i }}{% endfor %}",
		"{% with w=t1|" + filter + p + " %}{{ w }}{{ w|first }}{% endwith %}",
		"{% set w = tl|" + filter + ":t2 %}{{ w }}{{ w.0 }}{{ w|last }}",
		"{% firstof t1|" + filter + p + " t2 %}",
		"{% cycle t1|" + filter + p + " t2 %}",
		"{{ t1|" + filter + p + "|" + filter + p + " }}",
		"{{ t1|" + filter + p + " + t2 }}",
	}
	// values the engine itself marks safe (macro results) as the INPUT of the filter: the parameter is still tainted
	forms = append(forms,
		"{% macro sm(a) %}macro text{% endmacro %}{{ sm(1)|"+filter+":t1 }}",
		"{% macro sm(a) %}macro text{% endmacro %}{{ sm(1)|"+filter+p+" }}{{ t1 }}{{ tenum }}",
		"{% macro sm(a) %}macro text{% endmacro %}{% set sv = sm(1) %}{{ sv|"+filter+":t2 }}{% with w=sm(2) %}{{ w|"+filter+":ts }}{% endwith %}",
		"{% macro sm(a) %}{% endmacro %}{{ sm(1)|"+filter+":t1 }}{{ sm(1)|"+filter+":tl }}",
		"{{ tenum|"+filter+p+" }}{{ \"lit\"|"+filter+":tenum }}{{ tflag|"+filter+p+" }}",
	)
	if !c02MarkupFilters[filter] {
		forms = append(forms,
			"{% filter "+filter+p+" %}lit {{ t1 }}{% endfilter %}",
			"{% filter "+filter+":t1 %}lit{% endfilter %}",
			"{% filter "+filter+":ts %}lit {{ t2 }}{% endfilter %}",
			// parameters that are containers of tainted strings, and what later filters extract from them
			"{% filter "+filter+":tl %}lit{% endfilter %}",
			"{% filter default:tl|"+filter+p+" %}{% endfilter %}",
			"{% filter default:tm|"+filter+p+" %}{% endfilter %}",
			"{% filter default:tstruct.List|"+filter+p+" %}{% endfilter %}",
			"{% filter default:tl|join:\", \"|"+filter+p+" %}{% endfilter %}",
			"{% filter default:tl|first|"+filter+p+" %}{% endfilter %}",
			"{% filter default:tl|last|"+filter+p+" %}{% endfilter %}",
			"{% filter default:tl|random|"+filter+p+" %}{% endfilter %}",
			"{% filter default:tpl|last|"+filter+p+" %}{% endfilter %}{% filter default:tpp|"+filter+p+" %}{% endfilter %}",
			"{% filter default_if_none:tl|"+filter+":tl %}{% endfilter %}{% filter default:[t1, [t2]]|last|"+filter+p+" %}{% endfilter %}",
		)
	}
	return forms
}

func c02Plan(tier string) (sweep, programs int) {
	if c01Filters == nil {
		c01Init()
	}
	sweep = len(c01Filters)
	programs = 120000
	if tier == "thorough" {
		programs = 1000000
	}
	return
}

func c02Run(c *C) {
	sweep, _ := c02Plan(c.Tier)
	if c.Idx < sweep {
		f := c01Filters[c.Idx]
		if f == "safe" {
			// an opt-out covers the expression it is written on and nothing else: `safe` next door (on another candidate,
			// argument, binding, condition) leaves the tainted neighbour escaped
			for _, src := range []string{
				`{% firstof t1 "lit"|safe %}`, `{% firstof nothing|safe t1 %}`, `{% firstof "" t1 t2|safe %}`, `{% firstof "lit"|safe %}{% firstof t2 %}`,
				`{{ "x"|safe }}{{ t1 }}{{ "y"|safe }}`, `{% cycle t1 "b"|safe %}`, `{% cycle "a"|safe t1 as c %}~{% cycle c %}`, `{% cycle "a"|safe t1 as c silent %}{% cycle c %}{{ c }}`,
				`{% with a="s"|safe %}{{ t1 }}{{ a }}{{ ts }}{% endwith %}`, `{% set a = "s"|safe %}{{ t1 }}{{ a }}{{ t1 + a }}{{ a + t1 }}`,
				`{% filter cut:"~" %}{{ t1 }}{{ "x"|safe }}{% endfilter %}`, `{% for i in tl %}{{ i }}{{ "lit"|safe }}{% endfor %}`,
				`{% macro m(a) %}{{ a }}{% endmacro %}{{ m(t1) }}{{ m("x"|safe) }}{{ m(t2) }}`, `{% if t1|safe %}{{ t1 }}{% endif %}`, `{% ifequal t1|safe t1 %}{{ t2 }}{% endifequal %}`,
				`{% for i in tl|safe %}{{ i }}{% endfor %}`, `{% with w=tl|safe %}{{ w.0 }}{{ w|first }}{% endwith %}`, `{% include "/inc.tpl" with q="x"|safe %}`,
				`{% autoescape off %}{{ "x" }}{% endautoescape %}{{ t1 }}`, `{% autoescape off %}{% autoescape on %}{{ t1 }}{% endautoescape %}{% endautoescape %}{{ t2 }}`,
				`{{ "lit"|truncatechars_html:3 }}{{ t1 }}`, `{% firstof "lit"|truncatewords_html:1 t1 %}{% firstof nothing t1 "lit"|truncatechars_html:2 %}`,
			} {
				set, _ := newSet(map[string]string{"/inc.tpl": "{{ q }}{{ t1 }}"})
				tpl, err := set.FromString(src)
				if err != nil {
					c.Fail("setup", D{"source": src, "error": err.Error()})
					return
				}
				out, xerr := tpl.Execute(c02Ctx(false))
				c.Eval(1)
				if xerr != nil {
					c.Fail("setup", D{"source": src, "error": xerr.Error()})
					return
				}
				if leak := c02Leak(out, false); leak != "" {
					c.Fail("raw-leak", D{"source": src, "output": q(out), "leak": q(leak), "why": "an opt-out written on one expression switched escaping off for another one"})
					return
				}
				c.Nontrivial("nextdoor:" + src)
			}
			c.Cover("optout_next_door")
			// a sandboxed set: banning filters (even the escaping ones) or the autoescape tag takes nothing away from autoescaping
			for _, bans := range [][]string{{"escape"}, {"e", "escape", "safe", "force_escape"}, {"safe"}, {"upper"}} {
				bset, _ := newSet(map[string]string{"/inc.tpl": "{{ t1 }}{{ q }}"})
				for _, b := range bans {
					bset.BanFilter(b)
				}
				bset.BanTag("autoescape")
				src := `{{ t1 }}{% for i in tl %}{{ i }}{% endfor %}{{ tm.a }}{{ ts }}{{ tenum }}{% firstof t1 %}{% cycle t1 t2 %}{% with w=t2 %}{{ w }}{% endwith %}{% macro m(a) %}{{ a }}{% endmacro %}{{ m(t1) }}{% include "/inc.tpl" with q=t2 %}{% filter lower %}{{ t1 }}{% endfilter %}{{ t1|lower }}{{ tstruct.Field }}`
				btpl, berr := bset.FromString(src)
				if berr != nil {
					c.Fail("setup", D{"source": src, "bans": bans, "error": berr.Error()})
					return
				}
				bout, bxerr := btpl.Execute(c02Ctx(false))
				c.Eval(1)
				if bxerr != nil {
					c.Fail("setup", D{"source": src, "bans": bans, "error": bxerr.Error()})
					return
				}
				if leak := c02Leak(bout, true); leak != "" || strings.Contains(bout, c02Marker) {
					c.Fail("raw-leak", D{"source": src, "banned_filters_of_the_set": bans, "banned_tags_of_the_set": []string{"autoescape"}, "output": q(truncStr(bout, 600)), "leak": q(leak), "why": "a ban in the sandbox switched escaping off"})
					return
				}
			}
			c.Cover("autoescape_in_sandboxed_sets")
			// the package-level default (pongo2.SetAutoescape) is what an EXECUTION starts with: a template compiled while the
			// default was off escapes like any other once the default is on again (and the other way round)
			{
				aset, _ := newSet(map[string]string{"/inc.tpl": "{{ t2 }}", "/base.tpl": "{% block b %}{{ t1 }}{% endblock %}"})
				const asrc = `{{ t1 }}{% for i in tl %}{{ i }}{% endfor %}{% include "/inc.tpl" %}{% macro m(a) %}{{ a }}{% endmacro %}{{ m(t1) }}{% firstof t1 %}{% cycle t1 t2 %}{{ ts }}{{ tenum }}`
				var offTpl, offChild, offCached *pongo2.Template
				var e1, e2, e3 error
				func() {
					pongo2.SetAutoescape(false)
					defer pongo2.SetAutoescape(true)
					offTpl, e1 = aset.FromString(asrc)
					offChild, e2 = aset.FromString(`{% extends "/base.tpl" %}{% block b %}{{ block.Super }}{{ t2 }}{% endblock %}`)
					offCached, e3 = aset.FromCache("/inc.tpl")
				}()
				if e1 != nil || e2 != nil || e3 != nil {
					c.Fail("setup", D{"source": asrc, "error": errStr(e1) + errStr(e2) + errStr(e3)})
					return
				}
				for name, t := range map[string]*pongo2.Template{"compiled while SetAutoescape(false)": offTpl, "child compiled while SetAutoescape(false)": offChild, "FromCache while SetAutoescape(false)": offCached} {
					aout, axerr := t.Execute(c02Ctx(false))
					c.Eval(1)
					if axerr != nil {
						c.Fail("setup", D{"template": name, "error": axerr.Error()})
						return
					}
					if leak := c02Leak(aout, false); leak != "" {
						c.Fail("raw-leak", D{"template": name, "source": asrc, "output": q(truncStr(aout, 500)), "leak": q(leak), "why": "executed after pongo2.SetAutoescape(true): autoescape is on, no opt-out is written"})
						return
					}
				}
				c.Cover("package_level_autoescape_default_toggled")
			}
			return
		}
		if c02OptOutFilters[f] {
			c.Cover("sweep_skipped_optout_" + f)
			return
		}
		for _, src := range c02SweepForms(f) {
			out, cerr, xerr := renderString(src, c02Ctx(false))
			c.Eval(1)
			if cerr != nil || xerr != nil {
				c.Cover("sweep_error")
				continue
			}
			if leak := c02Leak(out, strings.Contains(src, "{% filter")); leak != "" {
				if c02Attributed(map[string]string{"/main.tpl": src}, "/main.tpl", c02Ctx(false), true) {
					c.AddExtra("known_finding_shape_seen", 1)
					continue
				}
				c.Fail("raw-leak", D{"source": src, "output": q(out), "leak": q(leak), "context": "t1, t2, tl, ts carry the marker " + c02Marker})
				return
			}
			if strings.Contains(out, "&lt;") || strings.Contains(out, "&amp;") {
				c.Nontrivial("sweep:" + src)
			}
			c.Cover("sweep_ok")
		}
		if f == "upper" {
			// blocks rendered one by one through ExecuteBlocks
			set, _ := newSet(map[string]string{"/base.tpl": "{% block b1 %}base {{ t2 }}{% endblock %}{% block b2 %}x{% endblock %}",
				"/main.tpl": "{% extends \"/base.tpl\" %}{% block b1 %}{{ t1 }}{% for i in tl %}{{ i }}{% endfor %}{% with w=ts %}{{ w }}{% endwith %}{{ block.Super }}{% endblock %}{% block b2 %}{% macro m(a) %}{{ a }}{% endmacro %}{{ m(t2) }}{{ tm.a }}{% firstof t1 %}{{ block.Super|add:t1 }}{{ block.Super|default:t2 }}{{ block.Super + t1 }}{{ m(1)|add:t2 }}{{ tenum }}{% endblock %}"})
			for _, name := range []string{"/main.tpl", "/base.tpl"} {
				tpl, err := set.FromFile(name)
				if err != nil {
					c.Fail("setup", D{"error": err.Error()})
					return
				}
				blocks, berr := tpl.ExecuteBlocks(c02Ctx(false), []string{"b1", "b2"})
				c.Eval(1)
				if berr != nil {
					c.Fail("setup", D{"error": berr.Error()})
					return
				}
				for bn, out := range blocks {
					if leak := c02Leak(out, false); leak != "" {
						c.Fail("raw-leak", D{"entry": "ExecuteBlocks", "template": name, "block": bn, "output": q(out), "leak": q(leak)})
						return
					}
					c.Nontrivial("blocks:" + name + bn)
				}
			}
			c.Cover("execute_blocks_fixed")
			// blocks asked for one by one while an EARLIER block of the request fails inside an opt-out region (autoescape
			// off, a macro called there, an include there): whatever ExecuteBlocks hands back - with or without an error -
			// carries the later blocks' context strings escaped (their source has no opt-out)
			fctx := c02Ctx(false)
			fctx["c02fail"] = func() (string, error) { return "", fmt.Errorf("c02: deliberate failure") }
			for _, bad := range []string{
				"{% autoescape off %}{{ c02fail() }}{% endautoescape %}",
				"{% autoescape off %}{% for i in tl %}{% if forloop.Last %}{{ c02fail() }}{% endif %}{% endfor %}{% endautoescape %}",
				"{% autoescape off %}{% with w=1 %}{% include \"/failing.tpl\" %}{% endwith %}{% endautoescape %}",
				"{% autoescape off %}{% macro fm() %}{{ c02fail() }}{% endmacro %}{{ fm() }}{% endautoescape %}",
				"{% autoescape off %}{% filter upper %}{{ c02fail() }}{% endfilter %}{% endautoescape %}",
			} {
				bset, _ := newSet(map[string]string{"/failing.tpl": "x{{ c02fail() }}", "/base.tpl": "{% block a0 %}" + bad + "{% endblock %}{% block b1 %}base {{ t2 }}{% endblock %}{% block b2 %}{{ t1 }}{% for i in tl %}{{ i }}{% endfor %}{% endblock %}",
					"/main.tpl": "{% extends \"/base.tpl\" %}{% block b1 %}{{ t1 }}{{ block.Super }}{% endblock %}"})
				for _, name := range []string{"/main.tpl", "/base.tpl"} {
					tpl, err := bset.FromFile(name)
					if err != nil {
						c.Fail("setup", D{"error": err.Error()})
						return
					}
					for _, req := range [][]string{{"a0", "b1", "b2"}, {"b1", "a0", "b2"}, {"a0", "b2"}} {
						blocks, berr := tpl.ExecuteBlocks(fctx, req)
						c.Eval(1)
						for bn, out := range blocks {
							if leak := c02Leak(out, false); leak != "" {
								c.Fail("raw-leak", D{"entry": "ExecuteBlocks", "template": name, "requested": req, "block": bn, "failing_block": bad, "returned_error": errStr(berr), "output": q(out), "leak": q(leak),
									"why": "an earlier block of the request failed inside an autoescape-off region; the block printed here has no opt-out"})
								return
							}
						}
						// and the template is unharmed: the blocks alone still come escaped
						ok2, err2 := tpl.ExecuteBlocks(fctx, []string{"b1", "b2"})
						c.Eval(1)
						if err2 != nil {
							c.Fail("setup", D{"error": err2.Error()})
							return
						}
						for bn, out := range ok2 {
							if leak := c02Leak(out, false); leak != "" {
								c.Fail("raw-leak", D{"entry": "ExecuteBlocks", "template": name, "block": bn, "after_a_failed_request": req, "output": q(out), "leak": q(leak)})
								return
							}
						}
					}
				}
			}
			c.Cover("execute_blocks_after_failing_block")
		}
		if c.WantSample() && f == "join" {
			out, _, _ := renderString("{{ tl|join:t1 }}", c02Ctx(false))
			c.Sample(D{"source": "{{ tl|join:t1 }}", "output": out})
		}
		return
	}
	g := newGen(c.R, GenOpts{Filters: c01Filters, OptOutFree: true, PlainText: true, MaxDepth: 4, ErrorRate: 0, CtxVars: c02CtxVars, CtxVarBias: 85})
	main, files := g.program()
	inc := files["#incname"]
	delete(files, "#incname")
	files["/main.tpl"] = main
	set, _ := newSet(files)
	tpl, err := set.FromFile("/main.tpl")
	c.Eval(1)
	if err != nil {
		c.Cover("program_rejected")
		return
	}
	relax := false
	for _, src := range files {
		if strings.Contains(src, "{% filter") {
			relax = true
		}
	}
	// first an execution with the swapped context (safe values where the tainted ones will be), then the tainted one
	order := []bool{true, false}
	if c.R.Bool() {
		order = []bool{false, false}
	}
	reached := false
	for _, swapped := range order {
		ctx := c02Ctx(swapped)
		ctx["incname"] = inc
		out, xerr := tpl.Execute(ctx)
		c.Eval(1)
		if xerr != nil {
			c.Cover("program_exec_error")
			continue
		}
		if swapped {
			continue // the swapped context holds Go-marked safe values by design; only the tainted run is judged
		}
		if leak := c02Leak(out, relax); leak != "" {
			if c02Attributed(files, "/main.tpl", ctx, relax) {
				c.AddExtra("known_finding_shape_seen", 1)
				continue
			}
			c.Fail("raw-leak", D{"main": q(main), "files": files, "output": q(truncStr(out, 1500)), "leak": q(leak), "executions": order})
			return
		}
		if strings.Contains(out, "&lt;") || strings.Contains(out, "&amp;") || strings.Contains(out, "&#39;") {
			reached = true
		}
		c.Cover("program_ok")
	}
	// the ExecuteBlocks entry point renders single blocks: the same rule applies to each of them
	if strings.Contains(main, "{% block") || strings.Contains(files["/base.tpl"], "{% block") {
		ctx := c02Ctx(false)
		ctx["incname"] = inc
		blocks, berr := tpl.ExecuteBlocks(ctx, []string{"b1", "b2", "inner"})
		c.Eval(1)
		if berr == nil {
			for name, out := range blocks {
				if leak := c02Leak(out, relax); leak != "" {
					if c02Attributed(files, "/main.tpl", ctx, relax) {
						c.AddExtra("known_finding_shape_seen", 1)
						continue
					}
					c.Fail("raw-leak", D{"entry": "ExecuteBlocks", "block": name, "main": q(main), "files": files, "output": q(truncStr(out, 1500)), "leak": q(leak)})
					return
				}
				if strings.Contains(out, "&lt;") {
					reached = true
				}
			}
			c.Cover("execute_blocks_ok")
		}
	}
	if reached {
		c.Nontrivial("p:" + main)
		if c.WantSample() && len(main) < 250 {
			out, _ := tpl.Execute(c02Ctx(false))
			c.Sample(D{"main": q(main), "output": q(truncStr(out, 300))})
		}
	}
}

func init() {
	register(&Prop{
		ID:   "C02",
		Init: c01Init,
		Cases: func(tier string) int {
			a, b := c02Plan(tier)
			return a + b
		},
		Run:     c02Run,
		Finding: c02Finding,
		Rule: "information-flow monitor: every string leaf of the context (plain values, map keys/values, slice items, struct fields, Stringer results, function results, the whole value zoo) carries the marker mk<&'\">x; template text, string literals and filter parameters are generated free of < > & ' \". " +
			"(a) sweep: every registered filter (from the hook) except the declared opt-outs, in 17 positions (value, parameter, list, Stringer, for/with/set/firstof/cycle arguments, chains, filter tag body and parameter); " +
			"(b) random opt-out-free programs over the full vocabulary with loader files (include static/lazy, import, extends/Super, macros incl. results combined with strings, filter tag, cycle, firstof, array literals ...), each compiled once and executed with a context in which safe and tainted values trade places and then with the tainted context. " +
			"After removing the engine's '<type Value>' placeholder the output may contain no < > ' \" and no & that does not start one of the five entities (the & rule is relaxed for programs using the filter tag). distinct_nontrivial = distinct programs whose output contained escaped marker material.",
		MinNontriv:  500,
		Assumptions: []string{"opt-outs named by the property are not generated: |safe, autoescape off, truncate*_html, Go-marked safe values, lorem p, plain ssi (emits template source)", "markup-producing filters (urlize*, linebreaks*) are not used in filter-tag chains"},
	})
}
