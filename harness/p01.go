package main

import (
	"bytes"
	"errors"
	"fmt"
	"io"
	"testing/iotest"
	"math"
	"os"
	"path/filepath"
	"runtime"
	"strings"
	"sync"
	"sync/atomic"
	"time"

	"github.com/flosch/pongo2/v6"
)

// C01 - totality: compiling and executing never panics, crashes or hangs.
// Panics are caught per case by the worker (-> violation), process deaths and hangs by the driver.

var c01Filters, c01Tags []string
var c01Corpus []string
var c01Steps []string

func c01Init() {
	c01Filters = pongo2.VerifRegisteredFilters()
	c01Tags = pongo2.VerifRegisteredTags()
	c01Steps = append(append([]string{}, genSteps...), genBadSteps...)
	m, _ := filepath.Glob("/repo/template_tests/*.tpl")
	m2, _ := filepath.Glob("/repo/template_tests/*/*.tpl")
	m3, _ := filepath.Glob("/repo/template_tests/*.helper")
	m4, _ := filepath.Glob("/repo/template_tests/*.err")
	for _, f := range append(append(append(m, m2...), m3...), m4...) {
		if b, err := os.ReadFile(f); err == nil && len(b) < 20000 {
			c01Corpus = append(c01Corpus, string(b))
		}
	}
	if b, err := os.ReadFile("/repo/README.md"); err == nil {
		c01Corpus = append(c01Corpus, string(b))
	}
	c01Corpus = append(c01Corpus, "{{ a }}{% if b %}c{% endif %}")
}

func c01Params() []any {
	return []any{nil, "", "1", "-1", "a,b", "1:2", ":", "-3:-1", "%d", "%s %v %!", 0, 1, -1, 3, 1000000, math.MaxInt64, math.MinInt64, 1.5, math.NaN(), math.Inf(1), true,
		[]int{1, 2}, map[string]int{"a": 1}, ZInner{Title: "t"}, "2006-01-02", "a", "a,b,c,d", "é", "\xff", []any{nil}, uint8(200), float32(0.25), "0", "99999999999999999999", "1e400", 7, 70, 100, 130, 170, 240}
}

// c01Exec runs a compiled template through one of the four entry points.
func c01Exec(tpl *pongo2.Template, ctx pongo2.Context, which int) (string, error) {
	switch which % 4 {
	case 0:
		return tpl.Execute(ctx)
	case 1:
		b, err := tpl.ExecuteBytes(ctx)
		return string(b), err
	case 2:
		var buf bytes.Buffer
		err := tpl.ExecuteWriter(ctx, &buf)
		return buf.String(), err
	default:
		var buf bytes.Buffer
		err := tpl.ExecuteWriterUnbuffered(ctx, &buf)
		return buf.String(), err
	}
}

// c01One compiles and executes; reports result-shape violations. Panics propagate to the worker.
func c01One(c *C, set *pongo2.TemplateSet, src string, fromFile string, ctxs []pongo2.Context, which int) (compiled bool) {
	var tpl *pongo2.Template
	var err error
	if fromFile != "" {
		tpl, err = set.FromFile(fromFile)
	} else if which%2 == 0 {
		tpl, err = set.FromString(src)
	} else {
		tpl, err = set.FromBytes([]byte(src))
	}
	c.Eval(1)
	if (err != nil) == (tpl != nil) {
		c.Fail("compile-result-shape", D{"source": q(src), "template_nil": tpl == nil, "error": errStr(err)})
		return false
	}
	if err != nil {
		c.Cover("compile_error")
		return false
	}
	for i, ctx := range ctxs {
		out, xerr := c01Exec(tpl, ctx, which+i)
		c.Eval(1)
		if xerr != nil {
			c.Cover("exec_error")
			if out != "" && (which+i)%4 != 3 {
				c.Fail("exec-result-shape", D{"source": q(src), "output": q(truncStr(out, 200)), "error": xerr.Error()})
				return true
			}
		} else {
			c.Cover("exec_ok")
		}
	}
	return true
}

const c01TagForms = `{% if X %}a{% elif X.0 %}b{% else %}c{% endif %}
{% for i in X %}{{ i }}{% empty %}e{% endfor %}
{% for k, v in X sorted %}{{ k }}={{ v }}{% endfor %}
{% for i in X reversed sorted %}{{ i }}{{ forloop.Counter }}{% endfor %}
{% for i in X reversed %}{{ i|upper }}{% endfor %}
{% with a=X %}{{ a }}{{ a.0 }}{{ a.Name }}{% endwith %}
{% with X as a %}{{ a|length }}{% endwith %}
{% set s = X %}{{ s }}{{ s|first }}
{% include X %}
{% include X if_exists %}
{% include "/inc.tpl" with v=X %}
{% include "/inc.tpl" with v=X only %}
{% firstof X "fallback" %}
{% firstof X X.0 X.Name %}
{% cycle X "b" %}{% cycle X as c %}{{ c }}{% cycle c %}
{% for i in z_ints %}{% cycle X 1 %}{% ifchanged X %}c{% else %}s{% endifchanged %}{% ifchanged %}{{ X }}{% endifchanged %}{% endfor %}
{% ifequal X X %}eq{% else %}ne{% endifequal %}
{% ifequal X 1 %}eq{% endifequal %}
{% ifnotequal X "s" %}ne{% else %}eq{% endifnotequal %}
{% widthratio X 10 100 %}
{% widthratio 5 X 100 %}
{% widthratio 5 10 X %}
{% widthratio X X X as w %}{{ w }}
{% filter add:X %}body{% endfilter %}
{% filter default:X|upper %}{% endfilter %}
{% filter truncatechars:X %}some longer body text{% endfilter %}
{% filter slice:X %}body{% endfilter %}
{% macro m(a, b=X) %}[{{ a }}|{{ b }}]{% endmacro %}{{ m(X) }}{{ m(X, X) }}{{ m() }}
{% import "/lib.tpl" mm %}{{ mm(X) }}{{ mm(X, X) }}
{% autoescape off %}{{ X }}{% endautoescape %}{% autoescape on %}{{ X|safe }}{% endautoescape %}
{% spaceless %}<a> {{ X }} <b>{% endspaceless %}
{{ X }}{{ X|safe }}{{ X|escape }}{{ X|length }}{{ X|default:"d" }}
{{ X + 1 }}{{ 1 + X }}{{ X - X }}{{ X * 2 }}{{ 2 * X }}
{{ X / 2 }}
{{ 2 / X }}
{{ X % 3 }}
{{ 7 % X }}
{{ X ^ 2 }}{{ 2 ^ X }}
{{ -X }}
{{ not X }}{{ !X }}
{{ X == X }}{{ X != 1 }}{{ X == "a" }}{{ X == nil }}{{ X <> z_struct }}
{{ X < 1 }}{{ 1 <= X }}{{ X > X }}{{ X >= 2.5 }}
{{ X in X }}{{ 1 in X }}{{ "a" in X }}{{ X in "abc" }}{{ X in z_ints }}{{ X in z_map }}{{ X in z_struct }}{{ "Name" in X }}{{ nil in X }}
{{ X and X }}{{ X or false }}{{ X && 1 }}{{ X || X }}
{{ [X, 1, "a"] }}{% for i in [X, X] %}{{ i }}{% endfor %}{{ [X]|first }}{{ X in [X] }}
{{ X.0 }}{{ X.Name }}{{ X[0] }}{{ X["k"] }}{{ X[X] }}{{ z_ints[X] }}{{ z_map[X] }}{{ z_struct[X] }}{{ z_imap[X] }}{{ z_fmap[X] }}{{ z_bmap[X] }}{{ z_str[X] }}
{{ X() }}
{{ X(1) }}
{{ X(X) }}
{{ X(1, 2, 3) }}
{{ f_int(X) }}
{{ f_str2(X, X) }}
{{ f_any(X) }}{{ f_value(X) }}{{ f_values(X, X) }}
{{ f_variadic(X) }}
{{ f_variadic(1, X) }}
{{ f_float(X) }}
{{ f_bool(X) }}
{{ f_slice(X) }}
{{ f_iface(X) }}{{ f_variface(X) }}{{ f_variface(z_stringer, X, 1) }}{{ f_iface_variface(X, X) }}{{ f_errarg(X) }}{{ f_varerr(1, X) }}{{ f_varany(X, X) }}{{ f_varvalue(X, 1) }}
{{ f_ctxarg(X) }}
{{ z_struct.Add(X, 1) }}
{{ z_struct.Variadic(X) }}
{{ z_struct.TakesValue(X) }}
{% now X %}
{% lorem X %}
{% templatetag X %}
{% block X %}{% endblock %}
{% extends X %}
{% ssi X %}
{% import X m %}
{% for i in z_ints %}{% cycle X as X %}{% endfor %}{% for i in z_ints %}{% cycle X as cy %}{% cycle cy as cy %}{% cycle cy %}{{ cy }}{% endfor %}
{% set forloop = X %}{% for i in z_ints %}{{ forloop.Counter }}{{ forloop.Parentloop }}{% endfor %}
{% with forloop=X %}{% for i in z_ints %}{% for j in z_ints %}{{ forloop.Parentloop.Parentloop.Counter }}{% endfor %}{% endfor %}{% endwith %}
{% for forloop in X %}{% for j in z_ints %}{{ forloop.First }}{% endfor %}{% endfor %}
{% set block = X %}{% block bb %}{{ block.Super }}{{ block }}{% endblock %}{% set pongo2 = X %}{{ pongo2.version }}
{{ z_anymap[X] }}{{ X[z_ints] }}{{ X[z_slicekeyarr] }}{{ z_map[X] }}{{ X[z_nilvalueptr] }}{{ z_slicekeyarr in X }}{{ X in z_anymap }}
{% macro X() %}m{% endmacro %}{{ X() }}{{ X }}
{% for X in z_ints %}{{ X }}{% endfor %}{% with X=1 %}{{ X }}{% endwith %}{% set X = X %}{{ X }}
{% if X %}{% include "/inc.tpl" %}{% endif %}{% for i in X %}{% for j in X %}{{ forloop.Parentloop.Counter }}{% endfor %}{% endfor %}`

var c01TagFormList = strings.Split(c01TagForms, "\n")

var c01Files = map[string]string{
	"/inc.tpl": "[inc {{ v }} {{ v.Name }} {{ z_str }}]",
	"/lib.tpl": "{% macro mm(a, b=1) export %}<{{ a }}:{{ b }}>{% endmacro %}",
}

// c01SharedBatches: one compiled template per resolver step / tag form, executed with every zoo value in turn
func c01SharedBatches() int { return len(c01Steps) + len(c01TagFormList) }

// ---- feature combinations: every inner construct inside every wrapper (and inside two wrappers) ------------------------

var c01Inner = []string{
	"{% block bb %}in-block{{ block.Super }}{% endblock %}",
	"{% macro mi(a, b=2) %}<{{ a }}{{ b }}>{% endmacro %}{{ mi(1) }}{{ mi() }}",
	"{% include \"/inc.tpl\" %}",
	"{% include incname %}{% include incname if_exists %}{% include nosuch if_exists %}",
	"{% include \"/inc.tpl\" with v=z_str only %}",
	"{% import \"/lib.tpl\" mm %}{{ mm(1) }}{% import \"/lib.tpl\" mm as alias %}{{ alias(z_str, 2) }}",
	"{% import \"/blocklib.tpl\" bm %}{{ bm() }}",
	"{% for i in z_ints %}{% cycle \"a\" \"b\" as cy %}{% ifchanged i %}c{% else %}s{% endifchanged %}{% ifchanged %}{{ i }}{% endifchanged %}{{ forloop.Parentloop.Counter }}{% endfor %}",
	"{% for k, v in z_anymap sorted %}{{ k }}{{ v }}{% endfor %}{% for k in z_anymap reversed sorted %}{{ k }}{% endfor %}{% for k in z_mixedkeys sorted %}{{ k }}{% endfor %}",
	"{% set sv = z_str|upper %}{{ sv }}",
	"{% ssi \"/inc.tpl\" parsed %}{% ssi \"/inc.tpl\" %}",
	"{% filter upper|lower %}f{{ z_str }}{% endfilter %}",
	"{% firstof nothing z_nil z_str|safe \"lit\" %}{% firstof nothing %}",
	"{% widthratio z_int 10 100 as wr %}{{ wr|add:1 }}{% widthratio z_f64 z_int 3 %}",
	"{% templatetag openblock %}{# c #}{% comment %}{% nosuch %}{% endcomment %}{% verbatim %}{{ raw }}{% endverbatim %}",
	"{% now \"2006\" fake %}{% lorem 3 w %}",
	"{% with a=1 b=z_str %}{{ a }}{{ b }}{% endwith %}{% with z_str as c %}{{ c }}{% endwith %}",
	"{% spaceless %}<a> <b> {{ z_str }}</b>{% endspaceless %}{% autoescape off %}{{ z_str }}{% endautoescape %}",
	"{% ifequal z_int 42 %}e{% else %}n{% endifequal %}{% ifnotequal z_str z_int %}n{% endifnotequal %}{% if z_int in z_ints and not z_nil %}i{% elif z_true %}e{% endif %}",
	"{{ forloop.Counter }}{{ forloop.Parentloop.Last }}{{ block.Super }}{{ pongo2.version }}",
	"{% if z_true %}\n  {%- if z_true %}b{% endif %}\n{% endif %}\n{{- z_str -}}\n  {%- for i in z_ints -%}\n{{ i }}\n{%- endfor %}\n \t{% if z_nil -%}\n{% endif -%}\n",
	"{%- if z_true -%}\n{%- endif -%}{{- z_nil -}} \t\n{%- with a=1 %}\n\n{% endwith -%}\n{# c #}\n{%- comment %}x{% endcomment %}\n  {% templatetag openblock -%}\n",
}

type c01Wrapper struct {
	name string
	wrap func(inner string, files map[string]string) string
}

var c01Wrappers = []c01Wrapper{
	{"plain", func(in string, f map[string]string) string { return in }},
	{"if", func(in string, f map[string]string) string {
		return "{% if z_true %}" + in + "{% else %}" + in + "{% endif %}"
	}},
	{"for", func(in string, f map[string]string) string {
		return "{% for x in z_ints %}" + in + "{% empty %}" + in + "{% endfor %}"
	}},
	{"with", func(in string, f map[string]string) string { return "{% with w=1 %}" + in + "{% endwith %}" }},
	{"macro", func(in string, f map[string]string) string {
		return "{% macro wm(p) %}" + in + "{% endmacro %}{{ wm(1) }}{{ wm() }}"
	}},
	{"imported-macro", func(in string, f map[string]string) string {
		f["/wlib.tpl"] = "{% macro wm(p) export %}" + in + "{% endmacro %}"
		return "{% import \"/wlib.tpl\" wm %}{{ wm(1) }}"
	}},
	{"block", func(in string, f map[string]string) string { return "{% block wb %}" + in + "{% endblock %}" }},
	{"child-block", func(in string, f map[string]string) string {
		f["/wbase.tpl"] = "base[{% block wb %}b{% endblock %}{% block other %}o{% endblock %}]"
		return "{% extends \"/wbase.tpl\" %}{% block wb %}" + in + "{{ block.Super }}{% endblock %}"
	}},
	{"parent-block", func(in string, f map[string]string) string {
		f["/wbase2.tpl"] = "base[{% block wb %}" + in + "{% endblock %}]"
		return "{% extends \"/wbase2.tpl\" %}{% block wb %}c{{ block.Super }}{{ block.Super }}{% endblock %}"
	}},
	{"filter", func(in string, f map[string]string) string { return "{% filter upper %}" + in + "{% endfilter %}" }},
	{"spaceless", func(in string, f map[string]string) string { return "{% spaceless %}" + in + "{% endspaceless %}" }},
	{"autoescape", func(in string, f map[string]string) string {
		return "{% autoescape off %}" + in + "{% autoescape on %}" + in + "{% endautoescape %}{% endautoescape %}"
	}},
	{"ifchanged", func(in string, f map[string]string) string {
		return "{% for y in z_ints %}{% ifchanged %}" + in + "{% endifchanged %}{% endfor %}"
	}},
	{"included", func(in string, f map[string]string) string {
		f["/winc.tpl"] = in
		return "{% include \"/winc.tpl\" %}{% include wincname %}"
	}},
	{"ssi-parsed", func(in string, f map[string]string) string {
		f["/wssi.tpl"] = in
		return "{% ssi \"/wssi.tpl\" parsed %}"
	}},
}

func c01ComboCount(tier string) int {
	n := len(c01Wrappers) * len(c01Inner)
	if tier == "thorough" {
		return n + 20000
	}
	return n + 1500
}

// c01Combo: inner construct i inside wrapper w (exhaustive pairs), then random wrapper stacks of depth 2-3
func c01Combo(c *C, i int) {
	files := map[string]string{}
	for k, v := range c01Files {
		files[k] = v
	}
	files["/blocklib.tpl"] = "{% macro bm() export %}[{% block inmacro %}x{% endblock %}]{% endmacro %}"
	var main, desc string
	if i < len(c01Wrappers)*len(c01Inner) {
		w, in := c01Wrappers[i/len(c01Inner)], c01Inner[i%len(c01Inner)]
		main, desc = w.wrap(in, files), w.name
	} else {
		in := c01Inner[c.R.Intn(len(c01Inner))] + c01Inner[c.R.Intn(len(c01Inner))]
		main = in
		used := map[string]bool{}
		for d := 2 + c.R.Intn(2); d > 0; d-- {
			w := c01Wrappers[c.R.Intn(len(c01Wrappers))]
			if used[w.name] || (used["child-block"] && w.name == "parent-block") || (used["parent-block"] && w.name == "child-block") {
				continue
			}
			used[w.name] = true
			main = w.wrap(main, files)
			desc += w.name + ">"
		}
	}
	files["/main.tpl"] = main
	ctx := zooContext("")
	ctx["incname"], ctx["wincname"], ctx["nosuch"] = "/inc.tpl", "/winc.tpl", "/nosuch.tpl"
	ctx["z_mixedkeys"] = map[any]int{1: 1, "a": 2, uint8(3): 3, 2.5: 4, true: 5, nil: 6}
	set, _ := newSet(files)
	set.Options.TrimBlocks, set.Options.LStripBlocks = i&1 == 1, i&2 == 2 // all four option settings over the combinations
	for which := 0; which < 4; which++ {
		c01One(c, set, main, "/main.tpl", []pongo2.Context{ctx, nil}, which)
		if c.Failed() {
			return
		}
	}
	// the less common entry points
	if tpl, err := set.FromCache("/main.tpl"); err == nil {
		tpl.ExecuteBlocks(ctx, []string{"wb", "bb", "other", "inmacro", "nosuchblock"})
		tpl.ExecuteBlocks(nil, nil)
		c.Eval(2)
	}
	func() {
		defer func() { recover() }() // RenderTemplate* panic (documented) when the template cannot be created
		set.RenderTemplateFile("/main.tpl", ctx)
		set.RenderTemplateString(main, ctx)
		set.RenderTemplateBytes([]byte(main), ctx)
	}()
	c.Eval(3)
	c.Nontrivial("combo:" + desc + main)
	c.Cover("feature_combination")
}

func c01Plan(tier string) (filterBatches, stepBatches, stepStride, tagBatches, grammar, rawBytes, resource int) {
	if c01Filters == nil {
		c01Init()
	}
	nz := len(zooNames())
	filterBatches = len(c01Filters) * nz
	stepStride = 20
	grammar, rawBytes = 150000, 150000
	if tier == "thorough" {
		stepStride = 1
		grammar, rawBytes = 1500000, 1500000
	}
	stepBatches = nz * len(c01Steps) // each batch: one (value, step1) x all step2 / stride
	tagBatches = len(c01TagFormList)
	resource = len(c01Resource)
	return
}

func c01Run(c *C) {
	fb, sb, stride, tb, gr, rb, _ := c01Plan(c.Tier)
	idx := c.Idx
	names := zooNames()
	switch {
	case idx < fb:
		c01FilterSweep(c, c01Filters[idx/len(names)], idx%len(names))
	case idx < fb+sb:
		i := idx - fb
		c01StepSweep(c, names[i/len(c01Steps)], c01Steps[i%len(c01Steps)], stride)
	case idx < fb+sb+tb:
		c01TagSweep(c, c01TagFormList[idx-fb-sb])
	case idx < fb+sb+tb+gr:
		c01Grammar(c)
	case idx < fb+sb+tb+gr+rb:
		c01RawBytes(c)
	case idx < fb+sb+tb+gr+rb+len(c01Resource):
		c01ResourceCase(c, idx-(fb+sb+tb+gr+rb))
	case idx < fb+sb+tb+gr+rb+len(c01Resource)+c01SharedBatches():
		c01SharedSweep(c, idx-(fb+sb+tb+gr+rb+len(c01Resource)))
	default:
		c01Combo(c, idx-(fb+sb+tb+gr+rb+len(c01Resource)+c01SharedBatches()))
	}
}

// c01SharedSweep compiles ONE template (a resolver step with a few second steps, or a tag form, written on the
// variable v) and executes it with every zoo value bound to v, in a seed-dependent order and then in reverse:
// whatever a compiled node remembers from the value it saw last must not hurt with the next one.
func c01SharedSweep(c *C, i int) {
	var src string
	if i < len(c01Steps) {
		st := c01Steps[i]
		src = "{{ v" + st + " }}|{% if v" + st + " %}t{% endif %}|{% for x in v" + st + " %}{{ x }}{% endfor %}"
		for k := 0; k < 4; k++ {
			src += "|{{ v" + st + c01Steps[c.R.Intn(len(c01Steps))] + " }}"
		}
		src += "|{{ v.Name }}:{{ v.Email }}:{{ v.Hidden }}:{{ v.B }}:{{ v.Inner.Z }}:{{ v.Method }}:{{ v.PtrMethod }}:{{ v.Len }}:{{ v.String }}"
	} else {
		src = strings.ReplaceAll(c01TagFormList[i-len(c01Steps)], "X", "v")
	}
	set, _ := newSet(c01Files)
	tpl, err := set.FromString(src)
	c.Eval(1)
	if (err != nil) == (tpl != nil) {
		c.Fail("compile-result-shape", D{"source": src})
		return
	}
	if err != nil {
		c.Cover("shared_sweep_rejected")
		return
	}
	entries := zooEntries("")
	order := make([]int, len(entries))
	for k := range order {
		order[k] = k
	}
	for k := len(order) - 1; k > 0; k-- {
		j := c.R.Intn(k + 1)
		order[k], order[j] = order[j], order[k]
	}
	base := zooContext("")
	base["incname"] = "/inc.tpl"
	run := func(k int) bool {
		base["v"] = entries[order[k]].val
		out, xerr := c01Exec(tpl, base, k)
		c.Eval(1)
		if xerr != nil && out != "" && k%4 != 3 {
			c.Fail("output-and-error", D{"source": src, "value": entries[order[k]].desc, "entry": k % 4})
			return false
		}
		return true
	}
	for k := range order {
		if !run(k) {
			return
		}
	}
	for k := len(order) - 1; k >= 0; k-- {
		if !run(k) {
			return
		}
	}
	c.Nontrivial("shared:" + src)
	c.Cover("shared_compile_sweep")
}

func c01FilterSweep(c *C, filter string, vi int) {
	e := zooEntries("")[vi]
	set, _ := newSet(emptySetFiles)
	t1, err1 := set.FromString("{{ v|" + filter + ":p }}")
	t0, err0 := set.FromString("{{ v|" + filter + " }}|{% if v|" + filter + " %}t{% endif %}|{% for i in v|" + filter + " %}{{ i }}{% endfor %}")
	for pi, p := range c01Params() {
		var pv *pongo2.Value
		if p != nil {
			pv = pongo2.AsValue(p)
		}
		v, ferr := pongo2.ApplyFilter(filter, pongo2.AsValue(e.val), pv)
		c.Eval(1)
		if (ferr != nil) == (v != nil) {
			c.Fail("filter-result-shape", D{"filter": filter, "input": e.desc, "param": fmt.Sprintf("%#v", p), "value_nil": v == nil, "error": fmt.Sprint(ferr)})
			return
		}
		if v != nil {
			_ = v.String()
			_ = v.IsTrue()
			_ = v.Len()
			// MustApplyFilter panics exactly when ApplyFilter returns an error: not here
			if perr := func() (perr any) {
				defer func() { perr = recover() }()
				pongo2.MustApplyFilter(filter, pongo2.AsValue(e.val), pv)
				return nil
			}(); perr != nil {
				c.Fail("panic", D{"call": "MustApplyFilter", "filter": filter, "input": e.desc, "param": fmt.Sprintf("%#v", p), "panic": fmt.Sprint(perr), "why": "ApplyFilter succeeds for the same arguments"})
				return
			}
		}
		if err1 == nil {
			c01Exec(t1, pongo2.Context{"v": e.val, "p": p}, pi)
			c.Eval(1)
		}
	}
	if err0 == nil {
		c01Exec(t0, pongo2.Context{"v": e.val}, vi)
		c.Eval(1)
	}
	c.Nontrivial("f:" + filter + ":" + e.name)
	c.Cover("filter_sweep")
	if c.WantSample() && vi == 3 {
		c.Sample(D{"kind": "filter sweep", "filter": filter, "input": e.desc, "params": len(c01Params())})
	}
}

func c01StepSweep(c *C, name, step1 string, stride int) {
	set, _ := newSet(emptySetFiles)
	ctx := zooContext("")
	srcs := []string{"{{ " + name + step1 + " }}|{% if " + name + step1 + " %}t{% endif %}|{{ " + name + step1 + "|length }}|{% for i in " + name + step1 + " %}{{ i }}{% endfor %}"}
	off := int(uint64(c.Seed) % uint64(stride))
	for i, step2 := range c01Steps {
		if i%stride != off {
			continue
		}
		srcs = append(srcs, "{{ "+name+step1+step2+" }}{% if "+name+step1+step2+" %}t{% endif %}")
	}
	for i, src := range srcs {
		c01One(c, set, src, "", []pongo2.Context{ctx}, i)
		if c.Failed() {
			return
		}
	}
	c.Nontrivial("s:" + name + step1)
	c.Cover("resolver_sweep")
}

func c01TagSweep(c *C, form string) {
	ctx := zooContext("")
	ctx["incname"] = "/inc.tpl"
	for i, name := range zooNames() {
		set, _ := newSet(c01Files)
		src := strings.ReplaceAll(form, "X", name)
		c01One(c, set, src, "", []pongo2.Context{ctx}, i)
		if c.Failed() {
			return
		}
		// literals in the same slot
		if i < 6 {
			lit := []string{"1", "\"s\"", "2.5", "true", "nil", "[1, 2]"}[i]
			c01One(c, set, strings.ReplaceAll(form, "X", lit), "", []pongo2.Context{ctx}, i)
		}
	}
	c.Nontrivial("t:" + form)
	c.Cover("tag_sweep")
	if c.WantSample() && strings.Contains(form, "widthratio X X") {
		c.Sample(D{"kind": "tag sweep", "form": form, "values": len(zooNames())})
	}
}

func c01Grammar(c *C) {
	g := newGen(c.R, GenOpts{Filters: c01Filters, ErrorRate: 12, MaxDepth: 4})
	main, files := g.program()
	files["/main.tpl"] = main
	inc := files["#incname"]
	delete(files, "#incname")
	set, _ := newSet(files)
	ctx := zooContext("")
	ctx["incname"] = inc
	ctx2 := pongo2.Context{"incname": inc, "z_str": "other", "z_ints": []int{}, "z_struct": ZS{}}
	opt := c.R.Intn(4)
	set.Options.TrimBlocks = opt&1 == 1
	set.Options.LStripBlocks = opt&2 == 2
	fromFile := ""
	if c.R.Bool() {
		fromFile = "/main.tpl"
	}
	compiled := c01One(c, set, main, fromFile, []pongo2.Context{ctx, ctx2, nil}, c.R.Intn(4))
	if c.Failed() {
		return
	}
	if compiled {
		c.Nontrivial("g:" + main)
		c.Cover("grammar_compiled")
		if c.WantSample() && len(main) < 300 && len(main) > 80 {
			c.Sample(D{"kind": "grammar program", "main": q(main), "files": len(files)})
		}
	} else {
		c.Cover("grammar_rejected")
	}
}

func c01Mutate(r *Rng, s string) string {
	b := []byte(s)
	if len(b) > 2000 {
		st := r.Intn(len(b) - 2000)
		b = b[st : st+2000]
	}
	tokens := []string{"{{", "}}", "{%", "%}", "{#", "#}", "{{-", "-}}", "{%-", "-%}", "|", ":", "(", ")", "[", "]", ".", ",", "\"", "'", "\\", "\n", "\x00", "\x01", "\xff", "{% endif %}", "{% endfor %}", "{% else %}",
		"{% verbatim %}", "{% endverbatim %}", "{% comment %}", "{% endcomment %}", "{% extends \"/base.tpl\" %}", "{% block b %}", "{% endblock %}", "{% include \"/main.tpl\" %}", "{% macro m() %}", "{% endmacro %}", "{{ m() }}",
		" in ", " and ", " not ", "==", "<=", "^", "%", "/", "0", "99999999999999999999", "1.5", "nil", "true", " as ", "export", "-", "é", "{% if", "{% for i in", "|safe", "|escape", "forloop.Parentloop"}
	n := 1 + r.Intn(6)
	for k := 0; k < n; k++ {
		if len(b) == 0 {
			b = []byte("{{ x }}")
		}
		pos := r.Intn(len(b) + 1)
		switch r.Intn(7) {
		case 0: // bit flip
			if pos < len(b) {
				b[pos] ^= 1 << uint(r.Intn(8))
			}
		case 1: // insert token
			t := tokens[r.Intn(len(tokens))]
			b = append(b[:pos], append([]byte(t), b[pos:]...)...)
		case 2: // delete a span
			end := pos + r.Intn(12)
			if end > len(b) {
				end = len(b)
			}
			b = append(b[:pos], b[end:]...)
		case 3: // duplicate a span
			end := pos + r.Intn(40)
			if end > len(b) {
				end = len(b)
			}
			span := append([]byte{}, b[pos:end]...)
			b = append(b[:end], append(span, b[end:]...)...)
		case 4: // truncate
			b = b[:pos]
		case 5: // splice with another position
			p2 := r.Intn(len(b) + 1)
			if p2 > pos {
				b = append(b[:pos], b[p2:]...)
			}
		default: // long run
			t := tokens[r.Intn(len(tokens))]
			run := strings.Repeat(t, 1+r.Intn(60))
			b = append(b[:pos], append([]byte(run), b[pos:]...)...)
		}
	}
	return string(b)
}

func c01RawBytes(c *C) {
	var base string
	if c.R.Chance(70) {
		base = c01Corpus[c.R.Intn(len(c01Corpus))]
	} else {
		g := newGen(c.R, GenOpts{Filters: c01Filters, ErrorRate: 5, MaxDepth: 3, NoFiles: true})
		base, _ = g.program()
	}
	src := c01Mutate(c.R, base)
	files := map[string]string{"/main.tpl": src, "/base.tpl": "B{% block b %}bb{% endblock %}", "/inc.tpl": "i"}
	set, _ := newSet(files)
	ctx := zooContext("")
	compiled := c01One(c, set, src, "", []pongo2.Context{ctx}, c.R.Intn(4))
	if c.Failed() {
		return
	}
	c.Nontrivial("b:" + src)
	if compiled {
		c.Cover("bytes_compiled")
	} else {
		c.Cover("bytes_rejected")
	}
	if c.WantSample() && len(src) < 200 && !compiled {
		c.Sample(D{"kind": "mutated bytes", "source": q(src)})
	}
}

// ---- resource shapes ------------------------------------------------------------

type c01Res struct {
	name  string
	files func() map[string]string // "/main.tpl" is the entry
	ctx   pongo2.Context
}

func rep(s string, n int) string { return strings.Repeat(s, n) }

var c01Resource = []c01Res{
	{"deep-parens", func() map[string]string {
		return map[string]string{"/main.tpl": "{{ " + rep("(", 2000) + "1" + rep(")", 2000) + " }}"}
	}, nil},
	{"deep-unclosed-parens", func() map[string]string { return map[string]string{"/main.tpl": "{{ " + rep("(", 2000) + "1 }}"} }, nil},
	{"deep-if-nesting", func() map[string]string {
		return map[string]string{"/main.tpl": rep("{% if true %}", 1500) + "x" + rep("{% endif %}", 1500)}
	}, nil},
	{"deep-for-nesting", func() map[string]string {
		return map[string]string{"/main.tpl": rep("{% for i in z_one %}", 500) + "{{ forloop.Parentloop.Parentloop.Counter }}" + rep("{% endfor %}", 500)}
	}, pongo2.Context{"z_one": []int{1}}},
	{"long-filter-chain", func() map[string]string {
		return map[string]string{"/main.tpl": "{{ \"a\"" + rep("|upper|lower", 1000) + " }}"}
	}, nil},
	{"long-operator-chain", func() map[string]string {
		return map[string]string{"/main.tpl": "{{ 1" + rep(" + 1", 2000) + " }}{{ 2" + rep(" ^ 1", 2000) + " }}{{ 1" + rep(" == 1", 1500) + " }}{{ true" + rep(" and true", 2000) + " }}"}
	}, nil},
	{"long-path", func() map[string]string {
		return map[string]string{"/main.tpl": "{{ z_struct" + rep(".Self", 2000) + ".Name }}{{ z_struct" + rep(".P", 2000) + " }}{{ z_ints" + rep("[0]", 1000) + " }}"}
	}, zooContext("")},
	{"many-args", func() map[string]string {
		return map[string]string{"/main.tpl": "{{ f_variadic(" + rep("1, ", 3000) + "1) }}{{ f_values(" + rep("z_str, ", 1000) + "1) }}"}
	}, zooContext("")},
	{"huge-array-literal", func() map[string]string {
		return map[string]string{"/main.tpl": "{{ [" + rep("1, ", 5000) + "1]|length }}"}
	}, nil},
	{"nested-array-literal", func() map[string]string {
		return map[string]string{"/main.tpl": "{{ " + rep("[", 1500) + "1" + rep("]", 1500) + " }}"}
	}, nil},
	{"macro-recursion-local", func() map[string]string {
		return map[string]string{"/main.tpl": "{% macro r(n) %}{{ n }}{{ r(n + 1) }}{% endmacro %}{{ r(1) }}"}
	}, nil},
	{"macro-recursion-mutual", func() map[string]string {
		return map[string]string{"/main.tpl": "{% macro a(n) %}{{ b(n) }}{% endmacro %}{% macro b(n) %}{{ a(n + 1) }}{% endmacro %}{{ a(1) }}"}
	}, nil},
	{"macro-recursion-imported", func() map[string]string {
		return map[string]string{"/main.tpl": "{% import \"/lib.tpl\" r %}{{ r(1) }}", "/lib.tpl": "{% macro r(n) export %}{{ r(n + 1) }}{% endmacro %}"}
	}, nil},
	{"macro-recursion-imported-alias", func() map[string]string {
		return map[string]string{"/main.tpl": "{% import \"/lib.tpl\" r as q, s %}{{ q(1) }}", "/lib.tpl": "{% macro r(n) export %}{{ s(n) }}{% endmacro %}{% macro s(n) export %}{{ r(n) }}{% endmacro %}"}
	}, nil},
	{"macro-recursion-default", func() map[string]string {
		return map[string]string{"/main.tpl": "{% macro a(x=a()) %}x{% endmacro %}{{ a() }}"}
	}, nil},
	{"macro-recursion-default-mutual", func() map[string]string {
		return map[string]string{"/main.tpl": "{% macro a(y=b()) %}x{% endmacro %}{% macro b(y=a()) %}x{% endmacro %}{{ a() }}"}
	}, nil},
	{"macro-recursion-in-with", func() map[string]string {
		return map[string]string{"/main.tpl": "{% with k=1 %}{% macro r() %}{% with j=2 %}{{ r() }}{% endwith %}{% endmacro %}{{ r() }}{% endwith %}"}
	}, nil},
	{"macro-recursion-in-for", func() map[string]string {
		return map[string]string{"/main.tpl": "{% for i in z_two %}{% macro r() %}{% for j in z_two %}{{ r() }}{% endfor %}{% endmacro %}{{ r() }}{% endfor %}"}
	}, pongo2.Context{"z_two": []int{1}}},
	{"self-include-static", func() map[string]string { return map[string]string{"/main.tpl": "x{% include \"/main.tpl\" %}"} }, nil},
	{"self-include-lazy", func() map[string]string { return map[string]string{"/main.tpl": "x{% include name %}"} }, pongo2.Context{"name": "/main.tpl"}},
	{"self-include-lazy-in-with", func() map[string]string {
		return map[string]string{"/main.tpl": "{% with n=name %}{% include n %}{% endwith %}"}
	}, pongo2.Context{"name": "/main.tpl"}},
	{"self-include-lazy-in-for", func() map[string]string {
		return map[string]string{"/main.tpl": "{% for n in names %}{% include n %}{% endfor %}"}
	}, pongo2.Context{"names": []string{"/main.tpl"}}},
	{"self-include-lazy-in-macro", func() map[string]string {
		return map[string]string{"/main.tpl": "{% macro m(n) %}{% include n %}{% endmacro %}{{ m(name) }}"}
	}, pongo2.Context{"name": "/main.tpl"}},
	{"self-include-lazy-in-block", func() map[string]string {
		return map[string]string{"/main.tpl": "{% block b %}{% include name %}{% endblock %}"}
	}, pongo2.Context{"name": "/main.tpl"}},
	{"include-cycle-2", func() map[string]string {
		return map[string]string{"/main.tpl": "a{% include \"/b.tpl\" %}", "/b.tpl": "b{% include name %}"}
	}, pongo2.Context{"name": "/main.tpl"}},
	{"include-cycle-static-lazy-mix", func() map[string]string {
		return map[string]string{"/main.tpl": "a{% include name %}", "/b.tpl": "b{% include \"/c.tpl\" %}", "/c.tpl": "c{% include name2 %}"}
	}, pongo2.Context{"name": "/b.tpl", "name2": "/main.tpl"}},
	// include cycles that pass through another construct with a context of its own on every round
	{"include-cycle-through-block-super", func() map[string]string {
		return map[string]string{"/main.tpl": "{% extends \"/base.tpl\" %}{% block b %}x{{ block.Super }}{% endblock %}", "/base.tpl": "{% block b %}{% include name %}{% endblock %}"}
	}, pongo2.Context{"name": "/main.tpl"}},
	{"include-cycle-through-super-chain-3", func() map[string]string {
		return map[string]string{"/main.tpl": "{% extends \"/mid.tpl\" %}{% block b %}x{{ block.Super }}{% endblock %}", "/mid.tpl": "{% extends \"/base.tpl\" %}{% block b %}y{{ block.Super }}{% endblock %}", "/base.tpl": "{% block b %}{% with n=name %}{% include n %}{% endwith %}{% endblock %}"}
	}, pongo2.Context{"name": "/main.tpl"}},
	{"include-cycle-through-super-in-loop", func() map[string]string {
		return map[string]string{"/main.tpl": "{% extends \"/base.tpl\" %}{% block b %}{% for i in z_two %}{{ block.Super }}{% endfor %}{% endblock %}", "/base.tpl": "{% block b %}{% include name %}{% endblock %}"}
	}, pongo2.Context{"name": "/main.tpl", "z_two": []int{1}}},
	{"include-cycle-through-imported-macro", func() map[string]string {
		return map[string]string{"/main.tpl": "{% import \"/lib.tpl\" m %}{{ m() }}", "/lib.tpl": "{% macro m() export %}{% include name %}{% endmacro %}"}
	}, pongo2.Context{"name": "/main.tpl"}},
	{"include-cycle-through-filter-tag", func() map[string]string {
		return map[string]string{"/main.tpl": "{% filter upper %}{% spaceless %}{% autoescape off %}{% include name %}{% endautoescape %}{% endspaceless %}{% endfilter %}"}
	}, pongo2.Context{"name": "/main.tpl"}},
	{"include-cycle-through-ifchanged-and-with", func() map[string]string {
		return map[string]string{"/main.tpl": "{% ifchanged %}{% with a=1 %}{% include name with b=2 %}{% endwith %}{% endifchanged %}"}
	}, pongo2.Context{"name": "/main.tpl"}},
	{"include-cycle-through-included-child", func() map[string]string {
		return map[string]string{"/main.tpl": "{% include \"/child.tpl\" %}", "/child.tpl": "{% extends \"/base.tpl\" %}{% block b %}{{ block.Super }}{% endblock %}", "/base.tpl": "{% block b %}{% include name only %}{% endblock %}"}
	}, pongo2.Context{"name": "/child.tpl"}},
	// a block information stored away with set / with / a macro argument and asked for its parent definition from
	// inside that very definition (and other ways of carrying `block` around)
	{"stored-block-info-super-cycle", func() map[string]string {
		return map[string]string{"/main.tpl": "{% extends \"/base.tpl\" %}{% block a %}{% set b = block %}{{ block.Super }}{% endblock %}", "/base.tpl": "{% block a %}{{ b.Super }}{% endblock %}"}
	}, nil},
	{"stored-block-info-in-with-and-macro", func() map[string]string {
		return map[string]string{"/main.tpl": "{% extends \"/base.tpl\" %}{% macro callsuper(bi) %}{{ bi.Super }}{% endmacro %}{% block a %}{% with w=block %}{{ w.Super }}{{ callsuper(block) }}{% endwith %}{% endblock %}", "/base.tpl": "{% block a %}{% if w %}{{ w.Super }}{% endif %}x{% endblock %}"}
	}, nil},
	{"stored-block-info-in-loop", func() map[string]string {
		return map[string]string{"/main.tpl": "{% extends \"/base.tpl\" %}{% block a %}{% set b = block %}{% for i in z_two %}{{ b.Super }}{% endfor %}{% endblock %}", "/base.tpl": "{% block a %}{% for j in z_two %}{{ b.Super }}{% endfor %}{% endblock %}"}
	}, pongo2.Context{"z_two": []int{1, 2}}},
	{"block-info-passed-to-include", func() map[string]string {
		return map[string]string{"/main.tpl": "{% extends \"/base.tpl\" %}{% block a %}{% include \"/inc.tpl\" with bi=block %}{% endblock %}", "/base.tpl": "{% block a %}{% include \"/inc.tpl\" with bi=bi %}{% endblock %}", "/inc.tpl": "{{ bi.Super }}"}
	}, nil},
	{"concurrent-loads", nil, nil},
	{"lorem-every-count", nil, nil},
	{"extends-self", func() map[string]string { return map[string]string{"/main.tpl": "{% extends \"/main.tpl\" %}"} }, nil},
	{"extends-cycle-2", func() map[string]string {
		return map[string]string{"/main.tpl": "{% extends \"/b.tpl\" %}", "/b.tpl": "{% extends \"/main.tpl\" %}"}
	}, nil},
	{"import-self", func() map[string]string {
		return map[string]string{"/main.tpl": "{% macro m() export %}{% endmacro %}{% import \"/main.tpl\" m %}"}
	}, nil},
	{"ssi-self", func() map[string]string { return map[string]string{"/main.tpl": "{% ssi \"/main.tpl\" parsed %}"} }, nil},
	{"ssi-lazy-cycle", func() map[string]string {
		return map[string]string{"/main.tpl": "{% include name %}", "/b.tpl": "{% ssi \"/c.tpl\" parsed %}", "/c.tpl": "{% include name2 %}"}
	}, pongo2.Context{"name": "/b.tpl", "name2": "/main.tpl"}},
	{"super-chain", func() map[string]string {
		files := map[string]string{"/t0.tpl": "{% block b %}0{% endblock %}"}
		for i := 1; i <= 300; i++ {
			files[fmt.Sprintf("/t%d.tpl", i)] = fmt.Sprintf("{%% extends \"/t%d.tpl\" %%}{%% block b %%}%d{{ block.Super }}{%% endblock %%}", i-1, i)
		}
		files["/main.tpl"] = "{% extends \"/t300.tpl\" %}"
		return files
	}, nil},
	{"block-super-cycle", func() map[string]string {
		return map[string]string{"/main.tpl": "{% extends \"/base.tpl\" %}{% block b %}{% block a %}{{ block.Super }}{% endblock %}{% endblock %}", "/base.tpl": "{% block a %}{% block b %}b0{% endblock %}{% endblock %}"}
	}, nil},
	{"block-super-cycle-in-loop", func() map[string]string {
		return map[string]string{"/main.tpl": "{% extends \"/base.tpl\" %}{% block b %}{% for i in z_two %}{% block a %}{{ block.Super }}{% endblock %}{% endfor %}{% endblock %}", "/base.tpl": "{% block a %}{% for j in z_two %}{% block b %}b0{% endblock %}{% endfor %}{% endblock %}"}
	}, pongo2.Context{"z_two": []int{1, 2}}},
	{"big-lorem", func() map[string]string {
		return map[string]string{"/main.tpl": "{% lorem 100001 w %}{% lorem 99999999999 p %}"}
	}, nil},
	{"big-padding", func() map[string]string {
		return map[string]string{"/main.tpl": "{{ \"x\"|center:99999999 }}{{ \"x\"|ljust:99999999 }}{{ \"x\"|rjust:99999999 }}{{ 1.5|floatformat:99999999 }}{{ \"x\"|rjust:-99999999 }}{{ \"x\"|center:-5 }}"}
	}, nil},
	{"huge-text", func() map[string]string { return map[string]string{"/main.tpl": rep("text {{ 1 }} \n", 200000)} }, nil},
	{"many-blocks", func() map[string]string {
		var sb strings.Builder
		for i := 0; i < 3000; i++ {
			fmt.Fprintf(&sb, "{%% block b%d %%}x{%% endblock %%}", i)
		}
		return map[string]string{"/main.tpl": sb.String()}
	}, nil},
	{"long-string-literal", func() map[string]string {
		return map[string]string{"/main.tpl": "{{ \"" + rep("ab\\\\\\\"", 50000) + "\" }}"}
	}, nil},
	{"long-comment-runs", func() map[string]string {
		return map[string]string{"/main.tpl": rep("{# c #}", 50000) + rep("{% comment %}x{% endcomment %}", 5000)}
	}, nil},
}

// c01SlowLoader delays every fetch a little, so that concurrent callers pile up behind the one that is loading.
type c01SlowLoader struct{ files map[string]string }

func (l *c01SlowLoader) Abs(base, name string) string { return name }
func (l *c01SlowLoader) Get(p string) (io.Reader, error) {
	for i := 0; i < 50; i++ {
		runtime.Gosched()
	}
	time.Sleep(300 * time.Microsecond)
	s, ok := l.files[p]
	if !ok {
		return nil, fmt.Errorf("c01SlowLoader: no template %q", p)
	}
	if strings.HasPrefix(s, "PANIC") {
		panic("c01SlowLoader: the loader panics for " + p)
	}
	return strings.NewReader(s), nil
}

// c01ConcurrentLoads: many goroutines ask one set for the same names at once - good, broken (lexer, parser, nested),
// missing, and a name for which the loader panics (recovered by the caller) - through FromCache and FromFile, with
// CleanCache in between: every call returns (a template or an error) and none blocks for ever (a hang is reported by
// the watchdog of the case).
func c01ConcurrentLoads(c *C) {
	files := map[string]string{"/ok.tpl": "ok {{ 1 }}{% include \"/inc.tpl\" %}", "/inc.tpl": "inc", "/broken.tpl": "{% if %}", "/brokenlex.tpl": "{{ \"abc }}", "/brokennested.tpl": "x{% include \"/broken.tpl\" %}",
		"/brokenparent.tpl": "{% extends \"/missing.tpl\" %}", "/panics.tpl": "PANIC"}
	names := []string{"/ok.tpl", "/broken.tpl", "/missing.tpl", "/brokenlex.tpl", "/brokennested.tpl", "/brokenparent.tpl", "/panics.tpl"}
	set := pongo2.NewSet("c01-concurrent", &c01SlowLoader{files: files})
	// first alone: the set's switches are flipped between calls for names that are / are not cached yet
	for step, dbg := range []bool{false, true, true, false, true, false} {
		set.Debug = dbg
		for _, name := range []string{"/ok.tpl", "/broken.tpl", "/missing.tpl", "/inc.tpl"} {
			tpl, err := set.FromCache(name)
			if (tpl == nil) == (err == nil) {
				c.Fail("template-and-error", D{"name": name, "Debug": dbg, "step": step})
				return
			}
		}
		if step%2 == 1 {
			set.CleanCache("/ok.tpl")
		}
	}
	set.Debug = false
	c.Eval(24)
	for round := 0; round < 12; round++ {
		name := names[round%len(names)]
		var wg sync.WaitGroup
		var bad int64
		for g := 0; g < 8; g++ {
			wg.Add(1)
			go func(g int) {
				defer wg.Done()
				defer func() { recover() }() // the loader's own panic (for /panics.tpl) is the caller's to recover
				var tpl *pongo2.Template
				var err error
				if g%4 == 3 {
					tpl, err = set.FromFile(name)
				} else {
					tpl, err = set.FromCache(name)
				}
				if (tpl == nil) == (err == nil) {
					atomic.AddInt64(&bad, 1)
				}
				if tpl != nil {
					tpl.Execute(nil)
				}
			}(g)
		}
		wg.Wait()
		c.Eval(8)
		if bad != 0 {
			c.Fail("template-and-error", D{"name": name, "why": "neither or both of template and error returned by concurrent FromCache/FromFile calls"})
			return
		}
		// afterwards the set still answers (a lock left behind by a failed or panicking load would block here)
		func() {
			defer func() { recover() }()
			set.CleanCache(name)
			set.FromCache("/ok.tpl")
			set.CleanCache()
		}()
	}
	c.Cover("concurrent_loads_of_good_broken_missing_panicking_names")
	// a loader whose Get succeeds but whose reader breaks down in the middle (a network file system, a truncated
	// archive), behind every tag that loads another template, at compile time and at execution time: an error, no panic
	frFiles := map[string]string{
		"/t_inc.tpl": `a{% include "/fr_x.tpl" %}b`, "/t_incif.tpl": `a{% include "/fr_x.tpl" if_exists %}b`, "/t_lazy.tpl": `a{% include nm %}b`, "/t_lazyif.tpl": `a{% include nm if_exists %}b`,
		"/t_ext.tpl": `{% extends "/fr_x.tpl" %}{% block b %}x{% endblock %}`, "/t_imp.tpl": `{% import "/fr_x.tpl" m %}{{ m() }}`, "/t_ssi.tpl": `a{% ssi "/fr_x.tpl" %}b`, "/t_ssip.tpl": `a{% ssi "/fr_x.tpl" parsed %}b`,
		"/t_nest.tpl": `{% include "/t_inc.tpl" %}{% include "/t_lazy.tpl" %}`, "/fr_x.tpl": `{% macro m() export %}M{% endmacro %}{% block b %}some text of a file that cannot be read to its end{% endblock %}`,
	}
	for closer := 0; closer < 2; closer++ {
		frSet := pongo2.NewSet("c01-failing-reader", &c01FailReadLoader{files: frFiles, closer: closer == 1})
		for name := range frFiles {
			for _, viaCache := range []bool{false, true} {
				var tpl *pongo2.Template
				var err error
				if viaCache {
					tpl, err = frSet.FromCache(name)
				} else {
					tpl, err = frSet.FromFile(name)
				}
				c.Eval(1)
				if (tpl == nil) == (err == nil) {
					c.Fail("template-and-error", D{"name": name, "why": "neither or both of template and error (loader with a reader that fails in the middle)"})
					return
				}
				if name == "/fr_x.tpl" && err == nil {
					c.Fail("read-error-lost", D{"name": name, "reader_is_closer": closer == 1, "why": "the loader's reader failed after half of the file; FromFile/FromCache returned a template"})
					return
				}
				if tpl != nil {
					_, xerr := tpl.Execute(pongo2.Context{"nm": "/fr_x.tpl"})
					c.Eval(1)
					if xerr == nil && !strings.Contains(name, "if") {
						c.Fail("read-error-lost", D{"name": name, "source": frFiles[name], "reader_is_closer": closer == 1, "why": "the template it loads at execution time cannot be read; the execution succeeded"})
						return
					}
				}
			}
		}
	}
	c.Cover("loaders_whose_readers_fail_in_the_middle")
}

// c01FailReadLoader: names starting with /fr_ are found, but their reader fails after half of the text.
type c01FailReadLoader struct {
	files  map[string]string
	closer bool
}

type c01ReadCloser struct{ io.Reader }

func (c01ReadCloser) Close() error { return nil }

func (l *c01FailReadLoader) Abs(base, name string) string { return name }
func (l *c01FailReadLoader) Get(p string) (io.Reader, error) {
	s, ok := l.files[p]
	if !ok {
		return nil, fmt.Errorf("c01FailReadLoader: no template %q", p)
	}
	if !strings.HasPrefix(p, "/fr_") {
		return strings.NewReader(s), nil
	}
	var rd io.Reader = io.MultiReader(strings.NewReader(s[:len(s)/2]), iotest.ErrReader(errors.New("c01: connection reset while reading the template")))
	if l.closer {
		rd = c01ReadCloser{rd}
	}
	return rd, nil
}

func c01ResourceCase(c *C, i int) {
	rc := c01Resource[i]
	if rc.name == "lorem-every-count" {
		// every count from 0 to 1300 (and around larger multiples of the built-in text's length) in every method
		set, _ := newSet(emptySetFiles)
		counts := []int{-1, 2264, 2830, 5660, 11320, 99999, 100000}
		for n := 0; n <= 1300; n++ {
			counts = append(counts, n)
		}
		for _, n := range counts {
			for _, m := range []string{"w", "p", "b", "w random", ""} {
				if n > 3000 && m != "w" {
					continue
				}
				src := fmt.Sprintf("{%% lorem %d %s %%}", n, m)
				c01One(c, set, src, "", []pongo2.Context{nil}, n%4)
				if c.Failed() {
					return
				}
			}
		}
		c.Nontrivial("r:" + rc.name)
		c.Cover("resource_" + rc.name)
		return
	}
	if rc.name == "concurrent-loads" {
		c01ConcurrentLoads(c)
		c.Nontrivial("r:" + rc.name)
		return
	}
	files := rc.files()
	set, _ := newSet(files)
	ctx := rc.ctx
	for k := 0; k < 2; k++ { // twice: bounded recursion must leave the template usable
		c01One(c, set, files["/main.tpl"], "/main.tpl", []pongo2.Context{ctx}, k*2)
		if c.Failed() {
			return
		}
	}
	c.Nontrivial("r:" + rc.name)
	c.Cover("resource_" + rc.name)
}

func init() {
	register(&Prop{
		ID:   "C01",
		Init: c01Init,
		Cases: func(tier string) int {
			a, b, _, t, g, r, rs := c01Plan(tier)
			return a + b + t + g + r + rs + c01SharedBatches() + c01ComboCount(tier)
		},
		Run:         c01Run,
		CaseTimeout: 30,
		Rule: "four workloads in crash-isolated worker processes (panic => violation via recover, process death and hangs via the driver's progress log and watchdogs): " +
			"(1) complete sweeps: every registered filter (from the verif hook) x every zoo value (about 100 Go values: nil, strings incl. invalid UTF-8, every int/uint/float kind with extremes/NaN/Inf, slices, arrays, maps with string/int/float/bool/named keys, structs with unexported and embedded fields, pointers incl. typed nil, Stringers, time, errors, *Value, functions of accepted and rejected shapes) x 35 parameters through ApplyFilter and {{ v|f:p }}; every zoo value x every resolver step x (quick: a seed-dependent 1/20, thorough: every) second step; 88 tag/operator forms x every zoo value in the argument slot; the same steps and forms once more as ONE compiled template executed with every zoo value in turn (shuffled, then reversed); 20 inner constructs inside each of 15 wrappers (if, for, with, local and imported macro body, block, child and parent block, filter, spaceless, autoescape, ifchanged, included file, ssi parsed) plus random wrapper stacks, through the four Execute entry points, ExecuteBlocks, FromCache and RenderTemplate*; " +
			"(2) grammar-generated programs over all tags/filters/operators with loader files, 3 contexts, TrimBlocks/LStripBlocks settings, the four Execute entry points; (3) byte-level mutations of the repository's fixtures and of generated programs; (4) 48 resource shapes (concurrent loads of good, broken, missing and panicking names; deep nesting, long chains, every macro recursion route, cyclic include/extends/import/ssi graphs). " +
			"Oracle: exactly one of template/error, exactly one of output/error, no panic, no process death, every case finishes within the watchdog. distinct_nontrivial = distinct sweep cells, compiled programs and byte inputs.",
		MinNontriv:  5000,
		Assumptions: []string{"context functions and Stringers of the harness are total", "Must*, NewSet without loaders and Render* on malformed sources are documented to panic and are not exercised"},
	})
}
