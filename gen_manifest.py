#!/usr/bin/env python3
"""Generates /verif/MANIFEST.json from the table below (run after editing)."""
import json, subprocess

CHECKS = {
 # id: (technique, level text, level note, design_ref)
}
def add(id, technique, text, note):
    CHECKS[id] = (technique, text, note)

add("C01", "crash-isolated runtime exploration: Go runtime checks (panic via recover, fatal errors and hangs via worker exit status, write-ahead progress log and watchdogs) under systematic sweeps, grammar programs, byte mutations and resource shapes",
    "Runtime exploration: complete sweeps of every registered filter/resolver step/tag form over a ~100-value zoo of Go context values, grammar-generated programs over the whole vocabulary with loader files, byte-level mutations of fixtures, and 38 resource shapes (deep nesting, all macro recursion routes, cyclic file graphs) run in isolated worker processes; the oracle is the result shape (exactly one of template/error, output/error) plus absence of panic, process death and confirmed hang. Held = none observed on the executions run.",
    "Unbounded 'never loops forever' is restated as bounded progress (per-case watchdog 30 s - the median case takes about 50 microseconds -, confirmed on an isolated re-run with a 60 s budget and a goroutine dump). Context functions/Stringers are total by construction. Must*/Render* wrappers that are documented to panic are not exercised.")
add("C02", "information-flow (taint) runtime monitor: uniquely marked context strings, output scanned for raw marker material; filter sweep plus random opt-out-free programs; repeated executions with swapped safe/tainted contexts",
    "Runtime exploration: every string leaf of a ~110-value context carries a marker made of < > & ' \"; all registered filters (minus declared opt-outs) are swept in 17 syntactic positions and random opt-out-free programs over the whole vocabulary (files, macros, inheritance, filter tag, array literals ...) are executed; the output is scanned for any raw special character that is not engine-originated. Held = no leak on the executions observed.",
    "Template text and literals are generated free of the special characters; the only engine-originated markup accepted is the '<type Value>' placeholder. In programs using the filter tag (which post-processes rendered text and can mangle that placeholder) < > & are not judged; raw quotes (which only the marker can contribute) still are.")
add("C03", "runtime monitor with harness-registered probe tag/filter (invocation counters in parser, node and filter function), recording loader, and a sequential ban-set/frozen-flag model checked against call histories",
    "Runtime exploration: every registered tag/filter (from the hook) and counting probes are banned and then used through random routes (26 expression/filter-tag positions x nesting contexts x file-composition routes incl. lazy includes); compilation (or the lazy include's execution) must fail, probe counters and the loader log must show that the banned code never ran / its file was never fetched, programs without the banned name must render identically; random call histories over Ban*/From*/Render* on 1-2 sets are compared with a model of the ban set and the frozen flag through probe compiles. Held = no deviation on the programs and histories observed.",
    "Invocation counting is only sound for the harness probes (built-in escape/iriencode are called internally), so built-in targets are judged by the compile error only. The first creation of every history succeeds (freezing on a failing first compile is unspecified).")
add("C04", "metamorphic runtime monitor over execution histories: used compiled template vs a fresh compile executed once with the same context; error positions checked against the program's own sources",
    "Runtime exploration: random deterministic programs over every tag (with loader files, stateful-looking constructs, failing includes) are compiled once under each TrimBlocks x LStripBlocks setting and executed 2..8 times with contexts drawn with repetition from a pool (equal, failing, nil, type-swapped) through alternating entry points; after every execution the (output, error) pair must equal that of a fresh compile executed exactly once. Held = no divergence on the histories observed.",
    "Decides only the dynamic half of the property (no static write-effect analysis). Documented non-determinism (clock, randomness, Go map order incl. the evaluation order of several with-pairs/macro defaults) is not generated.")
add("C05", "Go race detector (-race worker, GORACE logs parsed and de-duplicated) over concurrent executions of shared compiled templates and sets; results compared with a sequential reference",
    "Runtime exploration under the race detector: per case one deterministic program is compiled once and executed by 2-16 goroutines for 10-200 iterations under GOMAXPROCS 2/4/16, mixed with FromCache/FromFile/FromString on the same set and lazy includes compiling at run time; zero race reports with engine frames are required and every concurrent result must equal the sequential reference; error positions must lie in the program's own sources. Held = nothing observed on the schedules that occurred.",
    "The race detector sees only the interleavings that happened; only the dynamic half of the property is decided. Violations in this workload are reported as observed (not re-executed alone) because they depend on schedule and process history.")
add("C06", "metamorphic runtime monitor (identity / concatenation relations) over exhaustive short strings and random fragment sequences; counting context function as evaluation probe",
    "Runtime exploration: every string up to length 5/6 over the lexer-significant alphabet is compiled and rendered (exhaustive for that sub-space), plus random byte strings and fragment sequences; the oracle compares the engine's output with the source / the concatenation of the parts' renderings and watches a call counter placed inside comments. Held means: no deviation on the executions observed.",
    "Trusts the Go runtime and the harness' fragment generator (seams never create an opening delimiter). Whitespace control is excluded (C15).")

add("C07", "reference-model runtime monitor: independent evaluator of generated expression trees vs the engine's output for the minimally parenthesised text; call counters observe short-circuiting",
    "Runtime exploration: all expression trees of depth <= 2 over 29 leaves (exhaustive for that sub-space), the depth-3 trees over 5 leaves (all in thorough, every 8th in quick) and random deep trees are printed with minimal parentheses in several layouts and executed in {{ }} and {% if %}; an independent tree evaluator supplies the expected value/error/branch and the expected number of calls of counting functions. Held = no deviation on the executions observed.",
    "Trusts the harness' evaluator and printer (precedence table of the property). Fragment restrictions of the property are applied; out-of-fragment trees are counted as unjudged, int^int and not-on-int accept both documented spellings.")
add("C17", "runtime monitor with independent decoders (HTML unescape, \\uXXXX/surrogate decoding, url.QueryUnescape, reference functions) over exhaustive BMP runes, exhaustive short special-character strings and random strings; two routes (ApplyFilter, template) compared",
    "Runtime exploration: each escaping filter is applied to every BMP code point, to all strings of up to 3 blocks over 17 special blocks (exhaustive sub-spaces) and to random hostile strings; the oracle checks the promised output alphabet and that decoding gives the input back. Held = no deviation on the applications observed.",
    "Trusts Go's net/url and unicode/utf16 as decoders. escapejs/iriencode on invalid UTF-8 input are judged only for their alphabet / not at all.")
add("C18", "reference-function runtime monitor over exhaustive integer windows and random inputs; two routes (ApplyFilter, template) compared",
    "Runtime exploration: per filter the integer-argument windows of DESIGN.md appendix A are enumerated completely (slice bounds, widths, digits, floatformat arguments, widthratio operands) and random texts/numbers/sequences are added; every result is compared with a small independent reference function. Held = no deviation on the applications observed.",
    "Trusts the reference functions (written from Django 1.7's documentation and the repository's pinned fixtures); inputs outside the judged domains of appendix A are not generated or counted as unjudged.")

add("C08", "reference-resolver runtime monitor: generated access paths into nested Go context values, observed through {{ }}, {% if %} and |length and compared with an independent reflect-based resolver of the property's rules",
    "Runtime exploration: per case a nested context of structs/maps/slices/arrays/pointers/interfaces/functions of every accepted and rejected shape and 20 access paths (valid and invalid at every position, via dot, numeric step, call with fitted or perturbed arguments, final subscript expression) are classified by the reference resolver as value / empty / error and compared with the engine (canonical printing, truthiness, length, preserved error text); the same compiled call site is resolved against value and pointer receivers; shadowing (tag > context incl. nil entries > globals) is probed through with/for/macro/include. Held = no deviation on the paths observed.",
    "Trusts the harness' reference resolver. Unspecified combinations (.name on sequences/strings, .N on maps/structs/strings, non-integer subscripts of sequences, pointer-to-pointer) are counted as unjudged (but still executed).")
add("C09", "reference-interpreter runtime monitor: generated control-flow trees rendered by the engine and by an independent interpreter of the tree",
    "Runtime exploration: random nestings of if/elif/else, ifequal/ifnotequal, firstof, for (empty, reversed, sorted, key/value), forloop fields and Parentloop chains, cycle (all forms) and ifchanged (both forms) over lists, strings, maps, nil and scalars are rendered on a fresh compile and compared byte for byte with a reference interpreter. Held = no deviation on the programs observed.",
    "Trusts the 300-line reference interpreter. Unspecified corners are not generated: maps without 'sorted', forloop inside an empty branch, ifchanged in nested multi-iteration loops.")
add("C10", "reference-resolution runtime monitor over generated inheritance chains served from an in-memory loader; counting context function as evaluation probe",
    "Runtime exploration: random chains (depth 0-4, plus a sibling branch) with per-level override/inherit/nest/Super/dangling choices are rendered template by template (base before children exist, every chain member, siblings, everything again afterwards; FromFile or FromCache) and compared byte for byte with a reference resolution; invalid shapes must be compile errors; child top-level content must never be evaluated. Held = no deviation on the chains observed.",
    "Trusts the reference resolution (most-derived definition wins wherever placed; Super = next less-derived). Block recursion through Super is expected to end in an execution error. extends is always the first tag; ExecuteBlocks is not exercised.")
add("C11", "recording-loader runtime monitor with a reference composition (output, fetch accounting, unreferenced-name check), canary files on the real file system, strace -f as OS-level secondary oracle (thorough)",
    "Runtime exploration: random virtual trees over 1-3 recording loaders with acyclic include/extends/import/ssi graphs (static/lazy, with/only/if_exists, rooted/relative/.. names, shadowing copies in later loaders, includer-side shadowing) are rendered and compared with a reference composition; successful fetches per name must equal the number of references, no unreferenced name may be requested, missing names must be reported (or skipped with if_exists) at the right phase; canary files with the same names exist on the real file system and must never be served or (thorough tier, strace) even opened. Held = no deviation on the worlds observed.",
    "All loaders resolve names like paths. The strace monitor covers one worker shard of 2000 worlds; cyclic graphs belong to C01.")
add("C12", "reference-environment runtime monitor (probe variables around every construct) plus deep snapshots of the caller's Context and the set's Globals before/after every execution; key-validation probes",
    "Runtime exploration: random nestings of with/for/set/if/block/macro/include binding colliding names are probed before, inside and after every construct and compared with a reference scope model; every execution (successful or failing, with and without globals, through all four entry points) is followed by a reflect.DeepEqual comparison of the caller's Context and Globals with pristine copies, after the program sorted/reversed/sliced/iterated/shadowed caller data; invalid identifiers and macro-clashing keys must be refused. Held = no deviation on the executions observed.",
    "Trusts the reference scope model. Macro bodies only read parameters/own bindings/never-bound names; inside 'only' includes only pair names are probed (both corners unspecified).")
add("C13", "reference-binding runtime monitor for macro calls (local/imported/aliased variants must agree, two contexts per compiled template); recursion graphs observed from an isolating parent process with a counting context function",
    "Runtime exploration: random signatures/defaults/argument lists are rendered through four definition routes and compared with a reference binding; 19 recursion graphs without base case must end in an execution error (a stack overflow would kill the isolated worker and is reported), with the same depth on 2 compiles x 2 runs; terminating recursions repeated many times must succeed. Held = no deviation on the executions observed.",
    "Trusts the reference binding. Defaults referring to other parameters are not generated (unspecified).")
add("C14", "fault-injection runtime monitor: recording io.Writer plus a context function failing on its k-th call, swept over every k and every writer-failure position; four entry points on fresh compiles",
    "Runtime exploration with exhaustive fault positions per program: for every generated program the four Execute variants must agree on bytes and errors; for EVERY k the k-th evaluated output node fails and ExecuteWriter must not have called Write at all, the unbuffered writer must hold a prefix of the fault-free output, Execute/ExecuteBytes return nothing; for every j the caller's writer fails at its j-th Write and ExecuteWriter must return that very error; successful runs after failures are unchanged. Held = no deviation on the programs and fault positions observed.",
    "Fault positions are complete per generated program (fault_enumeration within exploration); programs themselves are sampled.")
add("C15", "metamorphic runtime monitor: marked document under options vs hand-stripped document under defaults vs output computed from the generator's structure; sibling templates in one set; repeated renders",
    "Runtime exploration: random documents with random whitespace runs and every subset of '-' markers are rendered under all four TrimBlocks x LStripBlocks settings (twice per compiled template, options set on the set or on one template of a shared set) and compared byte for byte with the hand-stripped source's rendering and with the directly computed expected output; spaceless bodies are compared with an independent whitespace-between-tags remover. Held = no deviation on the executions observed.",
    "Trusts the generator's own structure for hand-stripping (no parsing). Verbatim adjacency and comments directly next to a delimiter are not generated (unspecified by the property).")
add("C16", "runtime monitor over the lexer hook (exhaustive block sequences) and over structured *Error fields of deliberately broken programs; metamorphic shift relation",
    "Runtime exploration: all sequences of up to 5/6 lexer-significant blocks are lexed through the verif hook and every token position is checked against the source (exhaustive for that sub-space); 42 kinds of broken programs in random layouts and file-composition routes are compiled/executed and the error's Filename/Line/Column/Token are checked against the named source; inserted text must shift positions exactly. Held = no deviation on the executions observed (one known finding is listed in KNOWN_FINDINGS.txt).",
    "Trusts the position-to-offset mapping of the harness (byte or rune columns accepted). Errors of sender 'fromfile' are checked against the referring template (known finding quarantine).")

add("C19", "event-log runtime monitor: harness-registered probe filters record (name, input, parameter); output compared with the composition of public ApplyFilter calls; fixed precedence/scope/registry probes",
    "Runtime exploration: random chains (length 0-4) over probe filters and every deterministic registered filter with literal/variable/path parameters are written at 14 expression positions and in the filter tag; the probe log must equal the written order exactly once each, the output must equal the ApplyFilter composition (errors agree); fixed cases pin filter-vs-operator precedence, parameter evaluation in the current scope (loops, macros, repeated executions), unregistered names in 20 positions and the registry's refusals. Held = no deviation on the chains observed.",
    "Registries are process-global; probes are registered once per worker. The random filter is excluded.")
add("C20", "recorded client-boundary histories checked offline with porcupine v1.3.0 against a sequential map model (per-key partitioning), exactly-once fetch accounting on a recording loader, Go race detector",
    "Runtime exploration: sequential and concurrent (2-8 clients, barrier-separated phases, sleeping loader, GOMAXPROCS 2/4/16) histories over FromCache/CleanCache/Debug/content change/loader failure on 1-3 names and 1-2 sets are recorded with call/return stamps; every returned template is identified by pointer and by the content version it renders; porcupine decides linearizability against the cache model, loader fetches must equal templates created, templates must show their own set's globals/options, and the -race worker must report no engine race. Held = all observed histories linearizable.",
    "Trusts porcupine and the 60-line model. Debug/content/failure toggles are issued only at barriers in concurrent phases. A checker timeout (10 s per history) makes the run inconclusive (exit 2); none occurred on the unchanged tree.")

ALL = ["C%02d" % i for i in range(1, 21)]
NOT_YET = {}

def main():
    hooks_commits = subprocess.run(["git", "-C", "/repo", "log", "--format=%H", "--grep=^verif:"], capture_output=True, text=True).stdout.split()
    checks = []
    for id in ALL:
        if id not in CHECKS:
            continue
        technique, text, note = CHECKS[id]
        checks.append({
            "property_id": id,
            "quick_cmd": "./check.sh %s quick" % id,
            "thorough_cmd": "./check.sh %s thorough" % id,
            "evidence_file": "/verif/evidence/%s.json" % id,
            "replay_cmd_template": "./check.sh replay {path}",
            "engine": "vrun",
            "level_claimed": {"category": "exploration", "text": text, "design_ref": "DESIGN.md §2 " + id},
            "level_note": note,
            "technique": technique,
        })
    na = [{"property_id": id, "reason": NOT_YET.get(id, "check not built yet in this round (work in progress; not a statement about applicability of the technique)")} for id in ALL if id not in CHECKS]
    m = {
        "version": 1,
        "setup_cmd": "./setup.sh",
        "hooks": {
            "guard": "verif",
            "enable": "go build -tags verif (harness module /verif/harness, replace github.com/flosch/pongo2/v6 => /repo)",
            "baseline_off_cmd": "cd /repo && go test -vet=off -count=1 -timeout 25m ./...",
            "source_commits": hooks_commits,
            "add_only": True,
        },
        "engines": [{"name": "vrun", "path": "/verif/harness", "serves_properties": sorted(CHECKS), "kind_free_text": "Go driver + crash-isolated worker processes linking /repo (-tags verif, -race for C05/C20); generators, reference monitors, history checkers"}],
        "checks": checks,
        "notes": "All checks are runtime monitors over generated workloads (see DESIGN.md). Exit 0 held / 1 VIOLATION / 2 INCONCLUSIVE. VERIF_SEED is honoured.",
        "not_applicable": na,
    }
    json.dump(m, open("/verif/MANIFEST.json", "w"), indent=1)
    print("checks:", len(checks), "not claimed:", len(na))

main()
